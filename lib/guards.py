"""Syntactic guard contexts over the syn AST: for every index expression, the conditions known to hold when it is evaluated.

Facts are (condition AST, polarity).  They come from (i) enclosing `if`/`while` conditions, (ii) the left operand of `&&` / `||`,
(iii) earlier `if C { ...diverges }` statements of an enclosing block (C is false afterwards), (iv) `match X.len() { n => .. }` arms.
"""
import re
from lib.facts import is_node, render

STMT = ("let", "expr", "item")


def diverges(stmts):
    if not stmts:
        return False
    last = stmts[-1]
    e = last[1] if last[0] == "expr" else None
    if not is_node(e):
        return False
    if e[0] in ("ret", "break", "continue"):
        return True
    if e[0] == "macro" and re.search(r"(^|::)(panic|unreachable|todo|unimplemented)$", e[1]):
        return True
    if e[0] == "if" and e[3] is not None:
        els = e[3]
        return diverges(e[2]) and (diverges(els[1]) if is_node(els) and els[0] in ("block", "unsafe") else False)
    return False


def sites(body, kind="index"):
    """[(node, facts)] for every node of `kind` in a function body (list of statements)"""
    out = []

    def block(stmts, facts):
        facts = list(facts)
        for st in stmts:
            if not is_node(st):
                continue
            if st[0] == "let":
                if len(st) > 2 and st[2] is not None:
                    expr(st[2], facts)
            elif st[0] == "expr":
                e = st[1]
                expr(e, facts)
                if is_node(e) and e[0] == "if" and diverges(e[2]):
                    facts.append((e[1], False))
            elif st[0] == "item":
                pass
            else:
                expr(st, facts)

    def expr(e, facts):
        if not is_node(e):
            if isinstance(e, list):
                for x in e:
                    expr(x, facts)
            return
        t = e[0]
        if t == kind:
            out.append((e, list(facts)))
        if t == "if":
            expr(e[1], facts)
            block(e[2], facts + [(e[1], True)])
            if e[3] is not None:
                expr(e[3], facts + [(e[1], False)])
            return
        if t == "while":
            expr(e[1], facts)
            block(e[2], facts + [(e[1], True)])
            return
        if t == "for":
            expr(e[2], facts)
            block(e[3], facts)
            return
        if t == "loop":
            block(e[1], facts)
            return
        if t in ("block", "unsafe"):
            block(e[1], facts)
            return
        if t == "bin" and e[1] in ("&&", "||"):
            expr(e[2], facts)
            expr(e[3], facts + [(e[2], e[1] == "&&")])
            return
        if t == "match":
            expr(e[1], facts)
            for a in e[2]:
                extra = []
                if is_node(a[0]) and a[0][0] == "plit":
                    extra = [(["bin", "==", e[1], a[0][1]], True)]
                if a[1] is not None:
                    expr(a[1], facts + extra)
                    extra = extra + [(a[1], True)]
                expr(a[2], facts + extra)
            return
        if t == "closure":
            expr(e[2], facts)
            return
        if t in STMT:
            block([e], facts)
            return
        for x in e[1:]:
            if isinstance(x, list):
                if x and all(is_node(y) and y[0] in STMT for y in x):
                    block(x, facts)
                else:
                    expr(x, facts)

    block(body, [])
    return out


def atoms(facts):
    """flatten to atomic (cond, polarity)"""
    out = []
    todo = list(facts)
    while todo:
        c, pol = todo.pop()
        while is_node(c) and c[0] == "paren":
            c = c[1]
        if not is_node(c):
            continue
        if c[0] == "un" and c[1] == "!":
            todo.append((c[2], not pol))
        elif c[0] == "bin" and c[1] == "&&" and pol:
            todo += [(c[2], True), (c[3], True)]
        elif c[0] == "bin" and c[1] == "||" and not pol:
            todo += [(c[2], False), (c[3], False)]
        else:
            out.append((c, pol))
    return out


def _int(e):
    while is_node(e) and e[0] in ("paren", "cast"):
        e = e[1]
    if is_node(e) and e[0] == "int":
        m = re.match(r"^\d+", str(e[1]))
        return int(m.group(0)) if m else None
    return None


def _norm(e):
    return re.sub(r"[\s&()*]", "", render(e))


def len_lower_bound(facts, base):
    """largest n such that the facts imply len(base) >= n (0 if nothing is known)"""
    b = _norm(base)
    best = 0
    for c, pol in atoms(facts):
        if c[0] == "mcall" and c[2] == "is_empty" and _norm(c[1]) == b:
            if not pol:
                best = max(best, 1)
            continue
        if c[0] != "bin" or c[1] not in ("==", "!=", "<", "<=", ">", ">="):
            continue
        op, L, R = c[1], c[2], c[3]
        flip = {"<": ">", "<=": ">=", ">": "<", ">=": "<=", "==": "==", "!=": "!="}
        if _int(L) is not None and _int(R) is None:
            L, R, op = R, L, flip[op]
        n = _int(R)
        if n is None or not (is_node(L) and L[0] == "mcall" and L[2] == "len" and _norm(L[1]) == b):
            continue
        if not pol:
            op = {"==": "!=", "!=": "==", "<": ">=", "<=": ">", ">": "<=", ">=": "<"}[op]
        if op == "==":
            best = max(best, n)
        elif op == ">=":
            best = max(best, n)
        elif op == ">":
            best = max(best, n + 1)
    return best


def nonempty_fact(facts, recv):
    """facts imply `recv.is_empty()` is false"""
    r = _norm(recv)
    for c, pol in atoms(facts):
        if c[0] == "mcall" and c[2] == "is_empty" and _norm(c[1]) == r and not pol:
            return True
        if c[0] == "bin" and c[1] in ("<", ">", "!=", ">=") and pol:
            txt = _norm(c)
            if txt in ("%s.cursor<%s.graphemes.len" % (r, r), "%s.len>0" % r, "%s.len!=0" % r, "%s.len>=1" % r):
                return True
    return False
