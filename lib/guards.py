"""Syntactic guard contexts over the syn AST: for every index expression, the conditions known to hold when it is evaluated.

Facts are (condition AST, polarity).  They come from (i) enclosing `if`/`while` conditions, (ii) the left operand of `&&` / `||`,
(iii) earlier `if C { ...diverges }` statements of an enclosing block (C is false afterwards), (iv) `match X.len() { n => .. }` arms.
"""
import re
from lib.facts import is_node, render

STMT = ("let", "expr", "item")


PANIC_CALL = re.compile(r"(^|::)panicking::(panic\w*|unreachable\w*|assert_failed\w*)$|(^|::)(process::(abort|exit)|intrinsics::abort|unreachable_unchecked)$")


def diverges(stmts, panics=False):
    """the statement list never completes normally.  `panics=True` also recognises the expanded form of panic!/assert!/unreachable!/
    todo!: a call of `core::panicking::*` (the expanded syntax facts contain no `panic!` macro nodes any more)."""
    if not stmts:
        return False
    last = stmts[-1]
    e = last[1] if last[0] == "expr" else None
    if not is_node(e):
        return False
    if e[0] in ("ret", "break", "continue"):
        return True
    if e[0] == "macro" and re.search(r"(^|::)(panic|unreachable|todo|unimplemented)$", e[1]):
        return True
    if panics:
        while is_node(e) and e[0] in ("block", "unsafe", "paren") and (e[0] == "paren" or (len(e[1]) == 1 and e[1][0][0] == "expr")):
            e = e[1] if e[0] == "paren" else e[1][0][1]
        if is_node(e) and e[0] in ("block", "unsafe"):
            return diverges(e[1], panics)
        if is_node(e) and e[0] == "call" and is_node(e[1]) and e[1][0] == "path" and PANIC_CALL.search(e[1][1]):
            return True
        if is_node(e) and e[0] == "match" and e[2] and all(diverges([["expr", a[2]]], panics) for a in e[2]):
            return True
    if e[0] == "if" and e[3] is not None:
        els = e[3]
        return diverges(e[2], panics) and (diverges(els[1], panics) if is_node(els) and els[0] in ("block", "unsafe") else False)
    return False


def established(e, panics=False, debug_asserts=False):
    """facts (condition, polarity) that hold once the `if` expression statement `e` has completed normally:
    `if C { diverges }` => !C;  with panics=True also `if C {..} else { diverges }` => C;  with debug_asserts=True also what the body of
    `if true { .. }` establishes (the expansion of debug_assert!: `if cfg!(debug_assertions) { if !P { panic } }`) - a statement of what
    the author believes, to be used by belief rules only (release builds do not execute it)."""
    if not (is_node(e) and e[0] == "if"):
        return []
    if diverges(e[2], panics):
        return [(e[1], False)]
    if panics and e[3] is not None and is_node(e[3]) and e[3][0] in ("block", "unsafe") and diverges(e[3][1], panics):
        return [(e[1], True)]
    if debug_asserts and e[3] is None and is_node(e[1]) and e[1][0] == "bool" and e[1][1] is True:
        out = []
        for st in e[2]:
            if is_node(st) and st[0] == "expr":
                out += established(st[1], panics, debug_asserts)
        return out
    return []


def sites(body, kind="index", panics=False, debug_asserts=False):
    """[(node, facts)] for every node of `kind` in a function body (list of statements).
    panics / debug_asserts: see `established` (both off = the original behaviour)"""
    out = []

    def block(stmts, facts):
        facts = list(facts)
        for st in stmts:
            if not is_node(st):
                continue
            if st[0] == "let":
                if len(st) > 2 and st[2] is not None:
                    expr(st[2], facts)
            elif st[0] == "expr":
                e = st[1]
                expr(e, facts)
                if panics or debug_asserts:
                    facts.extend(established(e, panics, debug_asserts))
                elif is_node(e) and e[0] == "if" and diverges(e[2]):
                    facts.append((e[1], False))
            elif st[0] == "item":
                pass
            else:
                expr(st, facts)

    def expr(e, facts):
        if not is_node(e):
            if isinstance(e, list):
                for x in e:
                    expr(x, facts)
            return
        t = e[0]
        if t == kind:
            out.append((e, list(facts)))
        if t == "if":
            expr(e[1], facts)
            block(e[2], facts + [(e[1], True)])
            if e[3] is not None:
                expr(e[3], facts + [(e[1], False)])
            return
        if t == "while":
            expr(e[1], facts)
            block(e[2], facts + [(e[1], True)])
            return
        if t == "for":
            expr(e[2], facts)
            block(e[3], facts)
            return
        if t == "loop":
            block(e[1], facts)
            return
        if t in ("block", "unsafe"):
            block(e[1], facts)
            return
        if t == "bin" and e[1] in ("&&", "||"):
            expr(e[2], facts)
            expr(e[3], facts + [(e[2], e[1] == "&&")])
            return
        if t == "match":
            expr(e[1], facts)
            for a in e[2]:
                extra = []
                if is_node(a[0]) and a[0][0] == "plit":
                    extra = [(["bin", "==", e[1], a[0][1]], True)]
                if a[1] is not None:
                    expr(a[1], facts + extra)
                    extra = extra + [(a[1], True)]
                expr(a[2], facts + extra)
            return
        if t == "closure":
            expr(e[2], facts)
            return
        if t in STMT:
            block([e], facts)
            return
        for x in e[1:]:
            if isinstance(x, list):
                if x and all(is_node(y) and y[0] in STMT for y in x):
                    block(x, facts)
                else:
                    expr(x, facts)

    block(body, [])
    return out


def atoms(facts):
    """flatten to atomic (cond, polarity)"""
    out = []
    todo = list(facts)
    while todo:
        c, pol = todo.pop()
        while is_node(c) and c[0] == "paren":
            c = c[1]
        if not is_node(c):
            continue
        if c[0] == "un" and c[1] == "!":
            todo.append((c[2], not pol))
        elif c[0] == "bin" and c[1] == "&&" and pol:
            todo += [(c[2], True), (c[3], True)]
        elif c[0] == "bin" and c[1] == "||" and not pol:
            todo += [(c[2], False), (c[3], False)]
        else:
            out.append((c, pol))
    return out


def _clause(c, pol):
    """(X || Y) known true / (X && Y) known false, as a list of alternative literal atoms; None when it is not such a clause"""
    while is_node(c) and c[0] == "paren":
        c = c[1]
    if not (is_node(c) and c[0] == "bin" and ((c[1] == "||" and pol) or (c[1] == "&&" and not pol))):
        return None
    lits = []
    todo = [c]
    op = c[1]
    while todo:
        x = todo.pop()
        while is_node(x) and x[0] == "paren":
            x = x[1]
        if is_node(x) and x[0] == "bin" and x[1] == op:
            todo += [x[3], x[2]]
            continue
        a = atoms([(x, pol)])
        if len(a) != 1:
            return None
        lits.append(a[0])
    return lits


def atoms_closed(facts):
    """atoms(facts) closed under unit resolution: from `A || B` and `!B` conclude `A` (conditions are compared by their text).
    `debug_assert!(node.is_some() || !log.is_empty()); if log.is_empty() { node.unwrap() }` is decided this way."""
    at = atoms(facts)
    have = {(_norm(c), pol) for c, pol in at}
    changed = True
    while changed:
        changed = False
        for c, pol in list(at):
            lits = _clause(c, pol)
            if not lits:
                continue
            open_ = [(lc, lp) for lc, lp in lits if (_norm(lc), not lp) not in have]
            if any((_norm(lc), lp) in have for lc, lp in open_):
                continue
            if len(open_) == 1:
                at.append(open_[0])
                have.add((_norm(open_[0][0]), open_[0][1]))
                changed = True
    return at


def _int(e):
    while is_node(e) and e[0] in ("paren", "cast"):
        e = e[1]
    if is_node(e) and e[0] == "int":
        m = re.match(r"^\d+", str(e[1]))
        return int(m.group(0)) if m else None
    return None


def _norm(e):
    return re.sub(r"[\s&()*]", "", render(e))


def len_lower_bound(facts, base):
    """largest n such that the facts imply len(base) >= n (0 if nothing is known)"""
    b = _norm(base)
    best = 0
    for c, pol in atoms(facts):
        if c[0] == "mcall" and c[2] == "is_empty" and _norm(c[1]) == b:
            if not pol:
                best = max(best, 1)
            continue
        if c[0] != "bin" or c[1] not in ("==", "!=", "<", "<=", ">", ">="):
            continue
        op, L, R = c[1], c[2], c[3]
        flip = {"<": ">", "<=": ">=", ">": "<", ">=": "<=", "==": "==", "!=": "!="}
        if _int(L) is not None and _int(R) is None:
            L, R, op = R, L, flip[op]
        n = _int(R)
        if n is None or not (is_node(L) and L[0] == "mcall" and L[2] == "len" and _norm(L[1]) == b):
            continue
        if not pol:
            op = {"==": "!=", "!=": "==", "<": ">=", "<=": ">", ">": "<=", ">=": "<"}[op]
        if op == "==":
            best = max(best, n)
        elif op == ">=":
            best = max(best, n)
        elif op == ">":
            best = max(best, n + 1)
    return best


def nonempty_fact(facts, recv):
    """facts imply `recv.is_empty()` is false"""
    r = _norm(recv)
    for c, pol in atoms(facts):
        if c[0] == "mcall" and c[2] == "is_empty" and _norm(c[1]) == r and not pol:
            return True
        if c[0] == "bin" and c[1] in ("<", ">", "!=", ">=") and pol:
            txt = _norm(c)
            if txt in ("%s.cursor<%s.graphemes.len" % (r, r), "%s.len>0" % r, "%s.len!=0" % r, "%s.len>=1" % r):
                return True
    return False


def resolve_atoms(facts, inits=None, closed=False):
    """atoms of `facts`; a condition that is a plain local is replaced by the expression the local was initialised with
    (`let at_end = s.is_empty(); if at_end { return .. }`), `inits` = {name: initialiser} of the single-assignment locals"""
    at = atoms_closed(facts) if closed else atoms(facts)
    if not inits:
        return at
    out = []
    todo = list(at)
    n = 0
    while todo and n < 200:
        n += 1
        c, pol = todo.pop()
        if is_node(c) and c[0] == "path" and c[1] in inits and is_node(inits[c[1]]):
            todo += atoms([(inits[c[1]], pol)])
        else:
            out.append((c, pol))
    return out


def nonempty_ext(facts, recv, inits=None):
    """facts imply that the cursor-carrying value `recv` has input left, in any spelling: `recv.is_empty()` false, `recv.len()` compared
    with a constant (either polarity / operand order), `recv.cursor < recv.graphemes.len()` in either order / polarity"""
    if nonempty_fact(facts, recv) or len_lower_bound(facts, recv) >= 1:
        return True
    r = _norm(recv)
    flip = {"<": ">", "<=": ">=", ">": "<", ">=": "<=", "==": "==", "!=": "!="}
    neg = {"==": "!=", "!=": "==", "<": ">=", "<=": ">", ">": "<=", ">=": "<"}
    for c, pol in resolve_atoms(facts, inits):
        if c[0] == "mcall" and c[2] == "is_empty" and _norm(c[1]) == r and not pol:
            return True
        if c[0] == "bin" and c[1] in flip:
            op, L, R = c[1], _norm(c[2]), _norm(c[3])
            if not pol:
                op = neg[op]
            if L == "%s.graphemes.len" % r and R == "%s.cursor" % r:
                L, R, op = R, L, flip[op]
            if L == "%s.cursor" % r and R == "%s.graphemes.len" % r and op in ("<", "!="):
                return True
            # recv.len() against a constant, after polarity / operand order: `!= 0`, `> 0`, `>= 1`, `== n` (n >= 1)
            L, R, op = c[2], c[3], c[1]
            if not pol:
                op = neg[op]
            if _int(L) is not None and _int(R) is None:
                L, R, op = R, L, flip[op]
            k = _int(R)
            while is_node(L) and L[0] == "paren":
                L = L[1]
            if k is not None and is_node(L) and L[0] == "mcall" and L[2] == "len" and _norm(L[1]) == r:
                if (op == "!=" and k == 0) or (op == ">" and k >= 0) or (op in (">=", "==") and k >= 1):
                    return True
    return False


def len_lower_bound_ext(facts, base, inits=None):
    """len_lower_bound, also through conditions held in named locals (`inits`, see lib/locals.py), with `X.len() != 0` / `0 != X.len()`
    (=> at least 1) and a length held in a local (`let n = X.len(); if n < 2 { return .. }`)"""
    best = len_lower_bound(facts, base)
    b = _norm(base)
    flip = {"<": ">", "<=": ">=", ">": "<", ">=": "<=", "==": "==", "!=": "!="}
    neg = {"==": "!=", "!=": "==", "<": ">=", "<=": ">", ">": "<=", ">=": "<"}

    def thru(e):
        n = 0
        while inits and is_node(e) and n < 4:
            n += 1
            if e[0] == "paren":
                e = e[1]
            elif e[0] == "path" and e[1] in inits:
                e = inits[e[1]]
            else:
                break
        return e
    for c, pol in resolve_atoms(facts, inits):
        if c[0] == "mcall" and c[2] == "is_empty" and _norm(thru(c[1])) == b and not pol:
            best = max(best, 1)
            continue
        if c[0] != "bin" or c[1] not in flip:
            continue
        op, L, R = c[1], thru(c[2]), thru(c[3])
        if _int(L) is not None and _int(R) is None:
            L, R, op = R, L, flip[op]
        n = _int(R)
        if n is None or not (is_node(L) and L[0] == "mcall" and L[2] == "len" and _norm(L[1]) == b):
            continue
        if not pol:
            op = neg[op]
        if op in ("==", ">="):
            best = max(best, n)
        elif op == ">":
            best = max(best, n + 1)
        elif op == "!=" and n == 0:
            best = max(best, 1)
    return best
