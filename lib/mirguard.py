"""Guard discharge of panic sites on MIR (added for C09-R13; reusable).

`Sym` turns the operands of one MIR body into name-free *symbolic trees* (places rooted in parameters, call results, lengths,
comparisons, arithmetic), `Sym.facts_at(block)` collects what the dominating conditional edges / passed asserts / counted loops imply
when control reaches `block`, and `Prover` decides the closed goal list of the panic kinds (index < len, subtrahend <= minuend,
divisor != 0, Option is Some) from those facts.  A fact is only used when nothing on the paths between the place where its operands
were read and the panic site can have changed them (`Sym.killed`): writes through the operand's aliases, calls that receive a `&mut`
alias, re-definitions of a mutable local.

Trees (tuples):
  ('c', int|str)                  constant
  ('arg', i)                      parameter i (1-based)
  ('var', l)                      a local with several definitions (mutable local / loop-carried); identity = the local
  ('fld', x, name)                field / variant projection (name: '.N' or '@Variant'); derefs and borrows are transparent
  ('idx', x, i) ('cidx', x, k)    element projection
  ('len', x, blk)                 Vec/slice/str/String length read at block blk
  ('bin', op, a, b) ('not', a) ('cast', a) ('discr', x) ('min', a, b) ('max', a, b)
  ('opt', kind, x, blk)           Option made by first/last/pop/chars().next(): Some iff x is non-empty at blk
  ('agg', adt, variant, (fields))
  ('call', callee, (args), blk, dest)   opaque call result (identity = the call site)
  ('unk', l)
"""
import re
from lib.mirq import edge_dominates

PROJ = re.compile(r"\*|\.\d+|@\w+|\[_\d+\]|\[-?\d+\]|\[\d+\.\.-?\d+\]|\?")
LEN = re.compile(r"(Vec::<T, A>|VecDeque::<T, A>|<impl \[T\]>|<impl str>|alloc::string::String|\[T\])::len$")
ISEMPTY = re.compile(r"(Vec::<T, A>|VecDeque::<T, A>|<impl \[T\]>|<impl str>|alloc::string::String|\[T\])::is_empty$")
IDENT = re.compile(r"::(deref|deref_mut|as_ref|as_mut|borrow|borrow_mut|as_slice|as_mut_slice|as_str|as_mut_str|as_deref|as_deref_mut|branch|as_bytes)$|"
                   r"Option::<&T>::(copied|cloned)$|Option::<&mut T>::(copied|cloned)$|clone::impls::<impl core::clone::Clone for (usize|u\d+|i\d+|isize|bool|char)>::clone$")
OPT_NONEMPTY = re.compile(r"(<impl \[T\]>::(first|last|first_mut|last_mut)|Vec::<T, A>::pop|VecDeque::<T, A>::(pop_front|pop_back|front|back))$")
CMP = {"Eq": "==", "Ne": "!=", "Lt": "<", "Le": "<=", "Gt": ">", "Ge": ">="}
NEG = {"==": "!=", "!=": "==", "<": ">=", "<=": ">", ">": "<=", ">=": "<"}
SWAP = {"==": "==", "!=": "!=", "<": ">", "<=": ">=", ">": "<", ">=": "<="}


def const_int(o):
    if isinstance(o, dict) and "c" in o:
        s = str(o["c"]).strip()
        m = re.match(r"^(?:const )?(-?\d+)(?:_?[iu](?:8|16|32|64|128|size))?$", s)
        if m:
            return int(m.group(1))
        if s == "true":
            return 1
        if s == "false":
            return 0
    return None


def strip(t):
    """the tree without evaluation blocks (what is compared between a guard and a site)"""
    if not isinstance(t, tuple):
        return t
    if not t or not isinstance(t[0], str):
        return tuple(strip(x) for x in t)
    k = t[0]
    if k == "rd":
        return strip(t[1])
    if k == "len":
        return ("len", strip(t[1]))
    if k == "opt":
        return ("opt", t[1], strip(t[2]))
    if k == "call":
        return ("call", t[1], tuple(strip(a) for a in t[2]), t[3], t[4])
    if k == "agg":
        return ("agg", t[1], t[2], tuple(strip(a) for a in t[3]))
    if k == "var":
        return ("var", t[1])
    if k in ("c", "arg", "unk"):
        return t
    return (k,) + tuple(strip(x) if isinstance(x, tuple) else x for x in t[1:])


def unrd(t):
    """the tree without read markers (evaluation blocks of len/opt/call/var nodes are kept)"""
    if not isinstance(t, tuple):
        return t
    if not t or not isinstance(t[0], str):
        return tuple(unrd(x) for x in t)
    if t[0] == "rd":
        return unrd(t[1])
    if t[0] in ("c", "arg", "unk", "var"):
        return t
    return (t[0],) + tuple(unrd(x) if isinstance(x, tuple) else x for x in t[1:])


def subtrees(t):
    st = [t]
    while st:
        x = st.pop()
        if isinstance(x, tuple):
            if x and isinstance(x[0], str):
                yield x
                for y in x[1:]:
                    if isinstance(y, tuple):
                        st.append(y)
            else:
                st.extend(y for y in x if isinstance(y, tuple))


class Sym:
    def __init__(self, body, cg=None, summaries=None, depth=2):
        self.b = body
        self.cg = cg
        self.defs = body.defs()
        self.depth = depth
        self.summ = summaries if summaries is not None else {}
        self._memo = {}
        self._busy = set()
        self._alias = {}
        self._whole = {}
        for l, ds in self.defs.items():
            self._whole[l] = [(blk, s) for blk, s in ds if s["d"][1] == ""]

    # ---------------------------------------------------------------- trees
    def single(self, l):
        """the one whole-local definition of l, when l has exactly one definition at all and is not a parameter"""
        if 1 <= l <= self.b.nargs:
            return None
        ds = self.defs.get(l, [])
        if len(ds) == 1 and ds[0][1]["d"][1] == "":
            return ds[0]
        return None

    def expr(self, o, at=None):
        """tree of an operand read in block `at`"""
        if isinstance(o, dict):
            c = const_int(o)
            return ("c", c if c is not None else str(o.get("c", o.get("fn", "?")))[:80])
        l, proj = o[0], o[1]
        base = self.local(l)
        if base[0] == "var":
            base = ("var", base[1], at if base[2] is None else base[2])
        t = self.project(base, proj, at)
        if proj and at is not None and t[0] not in ("c",):
            t = ("rd", t, at)          # a read through a place at block `at` (removed by strip/unrd)
        return t

    def project(self, t, proj, at=None):
        t = unrd(t) if proj else t
        for p in PROJ.findall(proj or ""):
            if p == "*":
                continue
            if p.startswith("[_"):
                i = self.local(int(p[2:-1]))
                if i[0] == "var":
                    i = ("var", i[1], at if i[2] is None else i[2])
                t = ("idx", t, i)
            elif p.startswith("[") and ".." not in p:
                t = ("cidx", t, p[1:-1])
            elif p.startswith("["):
                t = ("sub", t, p[1:-1])
            elif p == "?":
                t = ("fld", t, "?")
            else:
                if p == "@Continue":
                    p = "@Ok"
                elif p == "@Break":
                    p = "@Err"
                if t[0] == "agg" and p.startswith("@"):
                    t = t if p[1:] == t[2] else ("fld", t, p)
                elif t[0] == "agg" and p.startswith(".") and int(p[1:]) < len(t[3]):
                    t = t[3][int(p[1:])]
                else:
                    t = ("fld", t, p)
        return t

    def local(self, l):
        if l in self._memo:
            return self._memo[l]
        if l in self._busy:
            return ("var", l, None)
        self._busy.add(l)
        try:
            t = self._local(l)
        finally:
            self._busy.discard(l)
        self._memo[l] = t
        return t

    def _local(self, l):
        if 1 <= l <= self.b.nargs:
            return ("arg", l)
        d = self.single(l)
        if d is None:
            return ("var", l, None) if self.defs.get(l) else ("unk", l)
        blk, s = d
        if s.get("k") == "call":
            return self.call(blk, s)
        rk = s.get("rk")
        src = s.get("src") or []
        if rk in ("use", "ref", "rawptr") and src:
            return self.expr(src[0], blk)
        if rk == "cast" and src:
            t = self.expr(src[0], blk)
            return t if ("Ptr" in s.get("ck", "") or "Unsize" in s.get("ck", "") or t[0] == "c") else ("cast", t)
        if rk == "bin" and len(src) == 2:
            op = s.get("op", "")
            a, b = self.expr(src[0], blk), self.expr(src[1], blk)
            if op.endswith("WithOverflow"):
                # (value, overflowed): `.0` is projected by the reader; model the pair as an aggregate of the value
                return ("agg", "ovf", "", (("bin", op[:-len("WithOverflow")], a, b), ("c", 0)))
            return ("bin", op, a, b)
        if rk == "un" and src:
            op = s.get("op")
            a = self.expr(src[0], blk)
            if op == "Not":
                return ("not", a)
            if op == "PtrMetadata":
                return ("len", a, blk)
            return ("un", op, a)
        if rk == "discr" and src:
            return ("discr", self.expr(src[0], blk))
        if rk == "agg":
            if "adt" in s:
                return ("agg", s["adt"], s["var"], tuple(self.expr(x, blk) for x in src))
            if "closure" in s:
                return ("agg", "closure:" + s["closure"], "", tuple(self.expr(x, blk) for x in src))
            return ("agg", "tuple", "", tuple(self.expr(x, blk) for x in src))
        if rk == "repeat":
            return ("unk", l)
        return ("unk", l)

    def call(self, blk, t):
        cal = t.get("f") or t["tf"]
        args = [self.expr(a, blk) for a in t["args"]]
        dest = t["d"][0]
        if LEN.search(cal) and args:
            return ("len", args[0], blk)
        if ISEMPTY.search(cal) and args:
            return ("bin", "Eq", ("len", args[0], blk), ("c", 0))
        if IDENT.search(cal) and len(args) >= 1:
            return args[0]
        ua = [unrd(a) for a in args]
        if cal.endswith("::into_iter") and args and ua[0][0] == "agg" and "ops::range::Range" in ua[0][1]:
            return ua[0]
        if cal.endswith("::into_iter") and args and ua[0][0] == "call" and ua[0][1].endswith("RangeInclusive::new"):
            return ua[0]
        if OPT_NONEMPTY.search(cal) and args:
            return ("opt", "nonempty", args[0], blk)
        if re.search(r"str::iter::Chars<'a> as core::iter::traits::iterator::Iterator>::next$|Chars.*::next$", cal) and args and ua[0][0] == "call" and ua[0][1].endswith("::chars") and ua[0][2]:
            return ("opt", "nonempty", ua[0][2][0], blk)
        if re.search(r"Option::<T>::(is_some|is_none)$", cal) and args:
            return ("bin", "Eq", ("discr", args[0]), ("c", 1 if cal.endswith("is_some") else 0))
        if re.search(r"Result::<T, E>::(is_ok|is_err)$", cal) and args:
            return ("bin", "Eq", ("discr", args[0]), ("c", 0 if cal.endswith("is_ok") else 1))
        if re.search(r"cmp::Ord::(min|max)$|core::cmp::(min|max)$", cal) and len(args) == 2:
            return ("min" if cal.endswith("min") else "max", args[0], args[1])
        if re.search(r"::(saturating_sub)$", cal) and len(args) == 2:
            return ("satsub", args[0], args[1])
        # a small pure helper of the analysed crates: its return value as a tree over its parameters (helper transparency)
        s = self.summary(cal)
        if s is not None:
            return self.subst(s, args, blk)
        return ("call", re.sub(r"::<[^<>]*>", "", cal), tuple(args), blk, dest)

    def summary(self, cal):
        if self.cg is None or self.depth <= 0:
            return None
        if cal in self.summ:
            return self.summ[cal]
        self.summ[cal] = None
        b = self.cg.bodies.get(cal)
        if b is None or len(b.blocks) > 14 or not b.locals or not re.match(r"^(bool|usize|u\d+|i\d+|isize)$", b.locals[0]):
            return None
        inner = Sym(b, self.cg, self.summ, self.depth - 1)
        t = inner.local(0)
        ok = all(x[0] not in ("var", "unk", "call", "opt") for x in subtrees(t))
        if ok:
            self.summ[cal] = t
        return self.summ[cal]

    def subst(self, t, args, blk):
        if not isinstance(t, tuple):
            return t
        if not t or not isinstance(t[0], str):
            return tuple(self.subst(x, args, blk) for x in t)
        k = t[0]
        if k == "arg":
            return args[t[1] - 1] if t[1] - 1 < len(args) else ("unk", -1)
        if k == "len":
            return ("len", self.subst(t[1], args, blk), blk)
        if k in ("c",):
            return t
        return (k,) + tuple(self.subst(x, args, blk) if isinstance(x, tuple) else x for x in t[1:])

    # ---------------------------------------------------------------- facts
    def facts_at(self, S):
        """[(rel, A, B, anchor)] that hold whenever block S is entered; anchor = (guard block, edge target or None)"""
        b = self.b
        out = []
        idom = b.idom()
        if S not in idom:
            return out
        D = S
        chain = []
        while True:
            if D != S:
                chain.append(D)
            if D == 0:
                break
            D = idom[D]
        for D in chain:
            t = b.blocks[D]["t"]
            if t["k"] == "switch":
                by_target = {}
                for v, tgt in t["targets"]:
                    by_target.setdefault(tgt, []).append(v)
                on = self.expr(t["on"]) if isinstance(t["on"], list) else None
                if on is None:
                    continue
                for tgt in set(list(by_target) + [t["else"]]):
                    if tgt == t["else"] and tgt in by_target:
                        continue
                    if not edge_dominates(b, D, tgt, S):
                        continue
                    if tgt in by_target and len(by_target[tgt]) == 1:
                        out += self.atoms(on, "==", by_target[tgt][0], (D, tgt), t.get("ty"))
                    elif tgt == t["else"]:
                        vals = [v for v, _ in t["targets"]]
                        if t.get("ty") == "bool" and vals == [0]:
                            out += self.atoms(on, "==", 1, (D, tgt), "bool")
                        else:
                            for v in vals:
                                out += self.atoms(on, "!=", v, (D, tgt), t.get("ty"))
            elif t["k"] == "assert" and t.get("t") is not None:
                ops = [self.expr(o) for o in t.get("ops", [])]
                if t["msg"] == "Overflow(Sub)" and len(ops) == 2:
                    out.append(("<=", ops[1], ops[0], (D, None)))
                elif t["msg"] == "BoundsCheck" and len(ops) == 2:
                    out.append(("<", ops[1], ops[0], (D, None)))
                elif t["msg"] in ("DivisionByZero", "RemainderByZero") and ops:
                    out.append(("!=", ops[0], ("c", 0), (D, None)))
            elif t["k"] == "call" and "t" in t:
                cal = t.get("f") or t["tf"]
                # having returned from unwrap()/expect(), the operand was Some / Ok
                if re.search(r"(Option::<T>|Result::<T, E>)::(unwrap|expect)$", cal) and t["args"]:
                    out.append(("==", ("discr", self.expr(t["args"][0])), ("c", 1 if "Option" in cal else 0), (D, None)))
        return out

    def atoms(self, tree, rel, val, anchor, ty=None):
        """facts from `tree rel val` (val an int): comparisons are opened up, `!` flipped, evaluated subtractions add b <= a"""
        out = []
        if tree[0] == "not" and ty == "bool" or (tree[0] == "not" and val in (0, 1)):
            return self.atoms(tree[1], rel, 1 - val, anchor, "bool")
        if tree[0] == "bin" and tree[1] in CMP and val in (0, 1):
            truth = (val == 1) == (rel == "==")
            r = CMP[tree[1]] if truth else NEG[CMP[tree[1]]]
            a, c = tree[2], tree[3]
            if a[0] == "not" and c[0] == "c":
                pass
            out.append((r, a, c, anchor))
        else:
            out.append((rel, tree, ("c", val), anchor))
        return out

    def loop_facts(self, tree, anchor_hint=None):
        """implicit facts about a counted-loop variable: x = Range{a,b}.next()@Some.0  =>  a <= x < b"""
        out = []
        for x in subtrees(unrd(tree)):
            if x[0] == "fld" and x[2] == ".0" and x[1][0] == "fld" and x[1][2] == "@Some" and x[1][1][0] == "call":
                c = x[1][1]
                if re.search(r"ops::range::Range<A>>::next$|range::Range<A>.*::next$", c[1]) and c[2] and c[2][0][0] == "agg" and c[2][0][1].endswith("ops::range::Range") and len(c[2][0][3]) == 2:
                    a, bnd = c[2][0][3]
                    out.append(("<=", a, x, (c[3], None)))
                    out.append(("<", x, bnd, (c[3], None)))
                elif re.search(r"RangeInclusive<A>.*::next$", c[1]) and c[2] and c[2][0][0] == "call" and c[2][0][1].endswith("RangeInclusive::new") and len(c[2][0][2]) == 2:
                    a, bnd = c[2][0][2]
                    out.append(("<=", a, x, (c[3], None)))
                    out.append(("<=", x, bnd, (c[3], None)))
        return out

    # ---------------------------------------------------------------- kills
    def aliases(self, roots):
        """forward closure: locals that hold (a reference to / a copy of a reference to) one of the root locals"""
        key = tuple(sorted(roots))
        if key in self._alias:
            return self._alias[key]
        A = set(roots)
        changed = True
        while changed:
            changed = False
            for i, blk in enumerate(self.b.blocks):
                for s in blk["s"]:
                    if s["d"][1] == "" and s["d"][0] not in A and s.get("rk") in ("use", "ref", "rawptr", "cast"):
                        src = s.get("src") or []
                        if src and isinstance(src[0], list) and src[0][0] in A:
                            ty = self.b.locals[s["d"][0]] if s["d"][0] < len(self.b.locals) else ""
                            if s.get("rk") in ("ref", "rawptr") or ty.startswith(("&", "*")):
                                A.add(s["d"][0])
                                changed = True
                t = blk["t"]
                if t["k"] == "call" and t["d"][1] == "" and t["d"][0] not in A:
                    ty = self.b.locals[t["d"][0]] if t["d"][0] < len(self.b.locals) else ""
                    if ty.startswith(("&", "*")) and any(isinstance(a, list) and a[0] in A for a in t["args"]):
                        A.add(t["d"][0])
                        changed = True
        self._alias[key] = A
        return A

    def roots_of(self, tree):
        """(memory roots, var locals): locals whose contents the tree reads.  The result of an opaque call is a value made at the
        call: its root is the call's destination, not what the arguments were read from."""
        mem, var = set(), set()
        st = [tree]
        while st:
            x = st.pop()
            if not isinstance(x, tuple) or not x:
                continue
            if not isinstance(x[0], str):
                st.extend(x)
                continue
            if x[0] == "arg":
                mem.add(x[1])
            elif x[0] == "var":
                var.add(x[1])
                mem.add(x[1])
            elif x[0] == "call":
                mem.add(x[4])
                continue
            elif x[0] == "unk" and x[1] >= 0:
                mem.add(x[1])
            st.extend(y for y in x[1:] if isinstance(y, tuple))
        return mem, var

    def reads_memory(self, tree):
        return any(x[0] in ("len", "fld", "idx", "cidx", "opt", "rd") for x in subtrees(tree))

    def eval_blocks(self, tree):
        return {x[-1] for x in subtrees(tree) if x[0] in ("len", "opt", "var", "rd") and x[-1] is not None}

    def between(self, srcs, dst, skip_edge=None, avoid=None):
        """blocks on a path from one of `srcs` to `dst` (not using skip_edge, not passing `avoid`)"""
        b = self.b
        fwd = set()
        st = [s for s in srcs]
        while st:
            x = st.pop()
            if x in fwd or x == avoid:
                continue
            fwd.add(x)
            for y in b.succ(x):
                if skip_edge and (x, y) == skip_edge:
                    continue
                st.append(y)
        bwd = set()
        st = [dst]
        while st:
            x = st.pop()
            if x in bwd or (x == avoid and x != dst):
                continue
            bwd.add(x)
            for y in b.pred(x):
                if skip_edge and (y, x) == skip_edge:
                    continue
                st.append(y)
        return fwd & bwd

    def kill_in(self, blocks, mem_alias, varset, site_block, guard_block=None, skip_calls=()):
        """a statement / call in `blocks` that may change what the aliases point at, or redefines a mutable local"""
        b = self.b
        for i in blocks:
            blk = b.blocks[i]
            for s in blk["s"]:
                d = s["d"]
                if d[0] in varset:
                    if i == guard_block:
                        continue
                    return (i, "local redefined")
                if d[0] in mem_alias and d[1] != "":
                    return (i, "write through alias")
            if i == site_block:
                continue
            t = blk["t"]
            if t["k"] == "call":
                if i in skip_calls:
                    continue
                if t["d"][0] in varset and i != guard_block:
                    return (i, "local redefined by call")
                if t["d"][0] in mem_alias and t["d"][1] != "":
                    return (i, "write through alias")
                for a in t["args"]:
                    if isinstance(a, list) and a[0] in mem_alias:
                        ty = b.locals[a[0]] if a[0] < len(b.locals) else ""
                        if ty.startswith("&mut") or ty.startswith("*mut"):
                            return (i, "&mut alias passed to %s" % (t.get("f") or t["tf"])[-40:])
        return None

    def killed(self, fact_trees, anchor, S, site_trees=()):
        """may the operands of a fact (anchored at guard block/edge) differ when S is reached?"""
        G, Gt = anchor
        mem, var = set(), set()
        evals = set()
        reads = False
        for t in list(fact_trees) + list(site_trees):
            m, v = self.roots_of(t)
            mem |= m
            var |= v
            evals |= self.eval_blocks(t)
            reads = reads or self.reads_memory(t)
        if not var and not reads:
            return None
        A = self.aliases(mem) if reads else set()
        if Gt is not None:
            region = self.between([Gt], S, skip_edge=(G, Gt))
        else:
            region = self.between(self.b.succ(G), S, avoid=G) if G != S else set()
        k = self.kill_in(region, A, var, S, guard_block=None)
        if k:
            return k
        # from where the memory operands were read to the guard
        for E in evals:
            if E == G or E == S:
                continue
            r1 = self.between(self.b.succ(E), G, avoid=E) | self.between(self.b.succ(E), S, avoid=E)
            k = self.kill_in(r1 - {E}, A, set(), S, guard_block=G)
            if k:
                return k
        return None


class Prover:
    """decides goals at block S from Sym.facts_at(S) (+ counted-loop facts of the goal's own operands)"""

    def __init__(self, sym, S, site_trees=()):
        self.sym = sym
        self.S = S
        self.site_trees = tuple(site_trees)
        self.raw = list(sym.facts_at(S))
        for t in site_trees:
            self.raw += sym.loop_facts(t)
        for f in list(self.raw):
            for t in (f[1], f[2]):
                self.raw += [g for g in sym.loop_facts(t)]
        self.F = None
        self.why_not = []

    def facts(self):
        if self.F is None:
            F = []
            seen = set()
            for rel, a, b_, anchor in self.raw:
                key = (rel, strip(a), strip(b_))
                if key in seen:
                    continue
                k = self.sym.killed([a, b_], anchor, self.S, self.site_trees)
                if k:
                    self.why_not.append((key, k))
                    continue
                seen.add(key)
                F.append(key)
            # consequences
            more = []
            for rel, a, b_ in F:
                for x in list(subtrees(a)) + list(subtrees(b_)):
                    if x[0] == "bin" and x[1] == "Sub":
                        more.append(("<=", x[3], x[2]))           # the subtraction was evaluated without a panic
            F += more
            for rel, a, b_ in list(F):
                # Sub(X,Y) proven positive  =>  Y < X
                if a[0] == "bin" and a[1] == "Sub" and b_[0] == "c" and isinstance(b_[1], int):
                    if (rel == "!=" and b_[1] == 0) or (rel == ">" and b_[1] >= 0) or (rel == ">=" and b_[1] >= 1) or (rel == "==" and b_[1] >= 1):
                        F.append(("<", a[3], a[2]))
                    # X - Y >= k  =>  Y + k <= X ; with Y a constant this is a lower bound for X
                if b_[0] == "bin" and b_[1] == "Sub" and a[0] == "c" and isinstance(a[1], int):
                    if (rel == "!=" and a[1] == 0) or (rel == "<" and a[1] >= 0) or (rel == "<=" and a[1] >= 1) or (rel == "==" and a[1] >= 1):
                        F.append(("<", b_[3], b_[2]))
            self.F = F
        return self.F

    def lb(self, X, depth=2):
        """greatest k with facts |= X >= k (unsigned)"""
        X = strip(X)
        if X[0] == "c" and isinstance(X[1], int):
            return X[1]
        best = 0
        if X[0] == "max":
            best = max(self.lb(X[1], depth), self.lb(X[2], depth))
        if X[0] == "bin" and X[1] == "Add":
            best = self.lb(X[2], depth) + self.lb(X[3], depth)
        for rel, a, b_ in self.facts():
            if a == X and b_[0] == "c" and isinstance(b_[1], int):
                k = b_[1]
                if rel in ("==", ">="):
                    best = max(best, k)
                elif rel == ">":
                    best = max(best, k + 1)
                elif rel == "!=" and k == 0:
                    best = max(best, 1)
            elif b_ == X and a[0] == "c" and isinstance(a[1], int):
                k = a[1]
                if rel in ("==", "<="):
                    best = max(best, k)
                elif rel == "<":
                    best = max(best, k + 1)
                elif rel == "!=" and k == 0:
                    best = max(best, 1)
            elif depth > 0 and b_ == X and rel in ("<", "<=") and a[0] != "c":
                best = max(best, self.lb(a, depth - 1) + (1 if rel == "<" else 0))
            elif depth > 0 and a == X and rel in (">", ">=") and b_[0] != "c":
                best = max(best, self.lb(b_, depth - 1) + (1 if rel == ">" else 0))
        return best

    def ub_const(self, X):
        X = strip(X)
        if X[0] == "c" and isinstance(X[1], int):
            return X[1]
        return None

    def le(self, A, B, depth=2):
        """facts |= A <= B"""
        A, B = strip(A), strip(B)
        if A == B:
            return True
        if A[0] == "c" and isinstance(A[1], int):
            return self.lb(B) >= A[1]
        if A[0] == "min" and (self.le(A[1], B, depth) or self.le(A[2], B, depth)):
            return True
        if B[0] == "max" and (self.le(A, B[1], depth) or self.le(A, B[2], depth)):
            return True
        if A[0] == "satsub" and self.le(A[1], B, depth):
            return True
        if A[0] == "bin" and A[1] == "Sub" and self.le(A[2], B, depth):
            return True
        if B[0] == "bin" and B[1] == "Add" and (self.le(A, B[2], depth) or self.le(A, B[3], depth)):
            return True
        for rel, a, b_ in self.facts():
            if a == A and b_ == B and rel in ("<", "<=", "=="):
                return True
            if a == B and b_ == A and rel in (">", ">=", "=="):
                return True
        if depth > 0:
            for rel, a, b_ in self.facts():
                if a == A and rel in ("<", "<=", "==") and b_[0] != "c" and b_ != A and self.le(b_, B, depth - 1):
                    return True
                if b_ == A and rel in (">", ">=", "==") and a[0] != "c" and a != A and self.le(a, B, depth - 1):
                    return True
        return False

    def lt(self, A, B, depth=2):
        """facts |= A < B"""
        A, B = strip(A), strip(B)
        if A[0] == "c" and isinstance(A[1], int):
            return self.lb(B) > A[1]
        if A[0] == "bin" and A[1] == "Sub" and A[3][0] == "c" and isinstance(A[3][1], int) and A[3][1] >= 1 and self.le(A[2], B, depth):
            # X - k < B when X <= B and the subtraction did not underflow (k >= 1)
            return True
        for rel, a, b_ in self.facts():
            if a == A and b_ == B and rel == "<":
                return True
            if a == B and b_ == A and rel == ">":
                return True
        if depth > 0:
            for rel, a, b_ in self.facts():
                if a == A and rel == "<" and self.le(b_, B, depth - 1):
                    return True
                if b_ == A and rel == ">" and self.le(a, B, depth - 1):
                    return True
                if a == A and rel in ("<=", "==") and b_[0] != "c" and b_ != A and self.lt(b_, B, depth - 1):
                    return True
        return False

    def nonzero(self, X):
        return self.lb(X) >= 1

    def is_variant(self, X, ok_discr, at=None):
        """Option is Some (ok_discr=1) / Result is Ok (ok_discr=0)"""
        Xs = strip(X)
        if Xs[0] == "agg" and Xs[1].endswith(("option::Option", "result::Result")):
            return Xs[2] in ("Some", "Ok")
        for rel, a, b_ in self.facts():
            if a == ("discr", Xs) and b_[0] == "c":
                if rel == "==" and b_[1] == ok_discr:
                    return True
                if rel == "!=" and b_[1] == 1 - ok_discr:
                    return True
        return False
