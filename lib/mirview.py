"""Inlined views over MIR bodies: what a function does *including* the code a maintainer may have moved into its closures or into
small helper functions of the same crate. Rules that ask "does fn F build aggregate X / mention parser P / call combinator C" should ask
the view of F, not only F's own body, so that `extract helper` / `wrap in closure` refactorings do not move the evidence out of sight.

    V = View(bodies, fn, stop=pred)   # bodies: CallGraph.bodies; stop(body) -> True for callees that are NOT part of F's own code
    V.bodies                          # [Body] F itself, its closures, helpers (depth <= 2), the helpers' closures
    V.calls() / V.aggs()              # like Body.calls()/aggs() over all of them: (body, block, record)
    V.mentioned()                     # union of Body.mentioned_fns()
    V.variants(adt_suffix)            # enum variants of an ADT constructed anywhere in the view: aggregates AND constructor fn items
                                      # used as values (`map(p, Enum::Variant)`, `.map(Enum::Variant)`)
"""
import re
from lib.facts import fns_in_type


def closures_of(bodies, fn):
    pre = fn + "::{closure#"
    return [b for k, b in bodies.items() if k.startswith(pre)]


class View:
    def __init__(self, bodies, fn, stop=None, depth=2, crate_prefix=None):
        self.B = bodies
        self.fn = fn
        self.stop = stop or (lambda b: False)
        self.crate = crate_prefix or (fn.split("::")[0] + "::")
        self.bodies = []
        self.helpers = []
        seen = set()

        def add(name, d):
            if name in seen or name not in bodies:
                return
            seen.add(name)
            b = bodies[name]
            self.bodies.append(b)
            if name != fn and "{closure#" not in name:
                self.helpers.append(name)
            for c in closures_of(bodies, name):
                add(c.fn, d)
            if d <= 0:
                return
            for _, t in b.calls():
                c = t.get("f") or t["tf"]
                if c == fn or c in seen or not c.startswith(self.crate) or c not in bodies:
                    continue
                if "{closure#" in c or self.stop(bodies[c]):
                    continue
                add(c, d - 1)
        add(fn, depth)

    def calls(self):
        for b in self.bodies:
            for i, t in b.calls():
                yield b, i, t

    def aggs(self):
        for b in self.bodies:
            for i, s in b.aggs():
                yield b, i, s

    def mentioned(self):
        out = set()
        for b in self.bodies:
            out |= b.mentioned_fns()
        return out

    def variants(self, adt_suffix):
        out = set()
        for b, i, s in self.aggs():
            if s["adt"].endswith(adt_suffix):
                out.add(s["var"])
        # tuple-variant constructors used as function values: `...::Adt::Variant` (optionally `::{constructor#0}`)
        rx = re.compile(re.escape(adt_suffix) + r"::(\w+)(?:::\{constructor#\d+\})?$")
        for m in self.mentioned():
            mm = rx.search(m)
            if mm:
                out.add(mm.group(1))
        return out


def callee(t):
    return t.get("f") or t["tf"]
