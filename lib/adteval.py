"""Concrete evaluation of small CLOSED predicates over algebraic values (enum variants with payloads, boxes, vectors, options, tuples).

Purpose: finite truth tables.  A function such as `fn compatible(expected: &Kind, actual: &Kind) -> bool` is a total function of its arguments and
of nothing else; whatever its spelling (a `match` on a tuple with guards, nested `if let`, guard clauses with early `return`, `matches!`, a private
or nested helper, `std::mem::discriminant`, iterator adaptors over a payload vector), running the compiler's own expansion of it on every member of
a finite universe of argument values gives its truth table, and the table - not the spelling - is compared with what the property states.

Nothing of mech is built or run: the interpreter below walks the JSON AST of the function (tools/mechsyn) and knows only the Rust core
vocabulary listed in `_mcall` / `_call`.  Anything outside it raises NoEval, which a rule must turn into an `undecided` note, never into a verdict.

    values   Adt(enum, variant, fields)   enum value; references, Box, Rc are transparent
             VecV(tuple)                  Vec / slice / array
             tuple, int, bool, str        as in Rust
             Option / Result              Adt("Option", "Some", (x,)) ...
    Evaluator(enums, resolve)            enums: {enum name: {variant name: arity}} (how a bare `Variant` / `Enum::Variant` path is told from a binding);
                                          resolve(path) -> syn fn item | None for free functions of the crate the predicate may call
    Evaluator.call_fn(item, args)         value returned by the function for these arguments (NoEval / Panic propagate)
"""
from lib.facts import is_node

OPTION = {"Some": 1, "None": 0}
RESULT = {"Ok": 1, "Err": 1}


class NoEval(Exception):
    """the construct is outside the modelled vocabulary: no verdict"""


class Panic(Exception):
    """the evaluated code panics for this input"""


class _Return(Exception):
    def __init__(self, value):
        self.value = value


class _Break(Exception):
    def __init__(self, value=None):
        self.value = value


class _Continue(Exception):
    pass


class Adt:
    __slots__ = ("enum", "variant", "fields")

    def __init__(self, enum, variant, fields=()):
        self.enum, self.variant, self.fields = enum, variant, tuple(fields)

    def __eq__(self, o):
        return isinstance(o, Adt) and (self.enum, self.variant, self.fields) == (o.enum, o.variant, o.fields)

    def __ne__(self, o):
        return not self.__eq__(o)

    def __hash__(self):
        return hash((self.enum, self.variant, self.fields))

    def __repr__(self):
        if not self.fields:
            return self.variant
        return "%s(%s)" % (self.variant, ", ".join(repr(f) for f in self.fields))


class VecV(tuple):
    def __repr__(self):
        return "[%s]" % ", ".join(repr(x) for x in self)


class Closure:
    def __init__(self, params, body, scope):
        self.params, self.body, self.scope = params, body, scope


class Discr:
    """std::mem::discriminant(x)"""
    def __init__(self, enum, variant):
        self.k = (enum, variant)

    def __eq__(self, o):
        return isinstance(o, Discr) and self.k == o.k

    def __hash__(self):
        return hash(self.k)


def some(x):
    return Adt("Option", "Some", (x,))


NONE = Adt("Option", "None")


class Scope:
    """lexical scope: variables and (hoisted) nested fn items; a `barrier` scope is the top of a function body - variable lookups stop there
    (a nested fn cannot capture locals), function lookups go on to the scopes in which the function was written"""

    def __init__(self, parent=None, barrier=False):
        self.vars, self.fns, self.parent, self.barrier = {}, {}, parent, barrier

    def lookup(self, name):
        s = self
        while s is not None:
            if name in s.vars:
                return True, s.vars[name]
            if s.barrier:
                break
            s = s.parent
        return False, None

    def assign(self, name, val):
        s = self
        while s is not None:
            if name in s.vars:
                s.vars[name] = val
                return True
            if s.barrier:
                break
            s = s.parent
        return False

    def fn(self, name):
        s = self
        while s is not None:
            if name in s.fns:
                return s.fns[name], s
            s = s.parent
        return None, None


IDENTITY_METHODS = {"as_ref", "as_mut", "as_deref", "as_deref_mut", "deref", "deref_mut", "clone", "cloned", "copied", "borrow", "borrow_mut", "to_owned",
                    "as_slice", "as_mut_slice", "iter", "iter_mut", "into_iter", "to_vec", "into", "as_str", "by_ref", "into_boxed_slice", "into_vec", "peekable"}
IDENTITY_CALLS = {"new": ("Box", "Rc", "Arc", "Ref", "RefCell", "Cell"), "from": ("Box", "Rc", "Arc", "Vec"), "into_vec": None, "clone": ("Clone",), "as_ref": ("AsRef",),
                  "deref": ("Deref",), "borrow": ("Borrow",), "identity": None}


class Evaluator:
    def __init__(self, enums=None, resolve=None, fuel=200000, max_depth=40):
        self.enums = dict(enums or {})
        self.enums.setdefault("Option", OPTION)
        self.enums.setdefault("Result", RESULT)
        self.resolve = resolve or (lambda path: None)
        self.fuel0 = fuel
        self.fuel = fuel
        self.max_depth = max_depth
        self.depth = 0

    # ------------------------------------------------------------------ entry
    def call_fn(self, item, args, defscope=None, reset=True):
        if reset:
            self.fuel = self.fuel0
            self.depth = 0
        params = item["sig"]["inputs"]
        if len(params) != len(args) or any(p and p[0] == "self" for p in params):
            raise NoEval("signature of %s" % item.get("name"))
        self.depth += 1
        if self.depth > self.max_depth:
            raise NoEval("recursion depth")
        sc = Scope(defscope, barrier=True)
        for (pat, _ty), v in zip(params, args):
            if not self.match_pat(pat, v, sc):
                raise NoEval("refutable parameter pattern")
        try:
            return self.block(item["body"], sc, new_scope=False)
        except _Return as r:
            return r.value
        finally:
            self.depth -= 1

    def tick(self):
        self.fuel -= 1
        if self.fuel < 0:
            raise NoEval("fuel")

    # ------------------------------------------------------------------ variants
    def variant_of(self, path):
        """(enum, variant, arity) if the path names a variant of a known enum"""
        segs = [s for s in str(path).replace(" ", "").split("::") if s]
        if not segs:
            return None
        last = segs[-1]
        if len(segs) >= 2:
            en = segs[-2].split("<")[0]
            if en in self.enums and last in self.enums[en]:
                return en, last, self.enums[en][last]
            if en == "Self":
                hits = [(e, last, vs[last]) for e, vs in self.enums.items() if last in vs]
                return hits[0] if len(hits) == 1 else None
            # an alias of the enum (`use Kind as K`) or a module path in front of a re-exported variant
            hits = [(e, last, vs[last]) for e, vs in self.enums.items() if last in vs and e not in ("Option", "Result")]
            return hits[0] if len(hits) == 1 and last[:1].isupper() else None
        if last in OPTION:
            return "Option", last, OPTION[last]
        if last in RESULT:
            return "Result", last, RESULT[last]
        hits = [(e, last, vs[last]) for e, vs in self.enums.items() if last in vs and e not in ("Option", "Result")]
        return hits[0] if len(hits) == 1 and last[:1].isupper() else None

    # ------------------------------------------------------------------ patterns
    def match_pat(self, p, v, sc):
        t = p[0]
        if t == "pwild" or t == "prest":
            return True
        if t == "ptype":
            return self.match_pat(p[1], v, sc)
        if t == "pref":
            return self.match_pat(p[2], v, sc)
        if t == "pident":
            name, sub = p[1], p[4]
            if sub is None and isinstance(v, Adt) and name in self.enums.get(v.enum, {}) and self.enums[v.enum][name] == 0:
                return v.variant == name            # `None`, or a unit variant brought in by `use Enum::*`
            if sub is not None and not self.match_pat(sub, v, sc):
                return False
            sc.vars[name] = v
            return True
        if t == "ppath":
            vr = self.variant_of(p[1])
            if vr is None or not isinstance(v, Adt):
                raise NoEval("path pattern " + str(p[1])[:40])
            return v.variant == vr[1]
        if t == "pts":
            vr = self.variant_of(p[1])
            if vr is None or not isinstance(v, Adt):
                raise NoEval("tuple-struct pattern " + str(p[1])[:40])
            if v.variant != vr[1]:
                return False
            return self.match_seq(p[2], v.fields, sc)
        if t == "ptuple":
            if not isinstance(v, tuple) or isinstance(v, VecV):
                raise NoEval("tuple pattern on a non-tuple")
            return self.match_seq(p[1], v, sc)
        if t == "pslice":
            if not isinstance(v, VecV):
                raise NoEval("slice pattern on a non-sequence")
            return self.match_seq(p[1], v, sc, seq=True)
        if t == "por":
            for alt in p[1]:
                trial = Scope(sc)
                if self.match_pat(alt, v, trial):
                    sc.vars.update(trial.vars)
                    return True
            return False
        if t == "plit":
            return self.E(p[1], sc) == v
        raise NoEval("pattern " + t)

    def match_seq(self, pats, vals, sc, seq=False):
        rest = [i for i, q in enumerate(pats) if q[0] == "prest" or (q[0] == "pident" and q[4] is not None and q[4][0] == "prest")]
        if not rest:
            if len(pats) != len(vals):
                if seq:
                    return False
                raise NoEval("arity of a pattern")
            return all(self.match_pat(q, x, sc) for q, x in zip(pats, vals))
        if len(rest) > 1:
            raise NoEval("two rest patterns")
        k = rest[0]
        head, tail = pats[:k], pats[k + 1:]
        if len(vals) < len(head) + len(tail):
            return False
        if not all(self.match_pat(q, x, sc) for q, x in zip(head, vals[:len(head)])):
            return False
        if tail and not all(self.match_pat(q, x, sc) for q, x in zip(tail, vals[len(vals) - len(tail):])):
            return False
        if pats[k][0] == "pident":
            sc.vars[pats[k][1]] = VecV(vals[len(head):len(vals) - len(tail)])
        return True

    # ------------------------------------------------------------------ conditions (let chains)
    def cond(self, e, sc):
        if is_node(e) and e[0] == "letc":
            return self.match_pat(e[1], self.E(e[2], sc), sc)
        if is_node(e) and e[0] == "bin" and e[1] == "&&":
            return self.cond(e[2], sc) and self.cond(e[3], sc)
        v = self.E(e, sc)
        if not isinstance(v, bool):
            raise NoEval("condition is not a bool")
        return v

    # ------------------------------------------------------------------ expressions
    def E(self, e, sc):
        self.tick()
        if not is_node(e):
            raise NoEval("expression " + str(e)[:30])
        t = e[0]
        if t == "path":
            name = e[1]
            hit, v = sc.lookup(name)
            if hit:
                return v
            vr = self.variant_of(name)
            if vr is not None and vr[2] == 0:
                return Adt(vr[0], vr[1])
            raise NoEval("name " + str(name)[:40])
        if t == "bool":
            return bool(e[1])
        if t == "int":
            return int(e[1])
        if t in ("str", "char"):
            return e[1]
        if t in ("ref", "rawaddr"):
            return self.E(e[2], sc)
        if t == "cast":
            v = self.E(e[1], sc)
            if isinstance(v, bool):
                return int(v)
            if isinstance(v, int):
                return v
            raise NoEval("cast")
        if t == "tuple":
            return tuple(self.E(x, sc) for x in e[1])
        if t == "array":
            return VecV(self.E(x, sc) for x in e[1])
        if t in ("block", "unsafe"):
            return self.block(e[1], sc)
        if t == "un":
            v = self.E(e[2], sc)
            if e[1] == "*":
                return v
            if e[1] == "!" and isinstance(v, bool):
                return not v
            if e[1] == "-" and isinstance(v, int) and not isinstance(v, bool):
                return -v
            raise NoEval("unary " + e[1])
        if t == "bin":
            return self._bin(e, sc)
        if t == "assign":
            lhs = e[1]
            while is_node(lhs) and lhs[0] == "un" and lhs[1] == "*":
                lhs = lhs[2]
            if lhs[0] != "path" or not sc.assign(lhs[1], self.E(e[2], sc)):
                raise NoEval("assignment target")
            return ()
        if t == "if":
            inner = Scope(sc)
            if self.cond(e[1], inner):
                return self.block(e[2], inner)
            if e[3] is None:
                return ()
            return self.E(e[3], sc)
        if t == "match":
            v = self.E(e[1], sc)
            for pat, guard, body, _line in e[2]:
                inner = Scope(sc)
                if self.match_pat(pat, v, inner) and (guard is None or self.cond(guard, inner)):
                    return self.E(body, inner)
            raise Panic("no match arm applies")
        if t == "ret":
            raise _Return(self.E(e[1], sc) if e[1] is not None else ())
        if t == "break":
            raise _Break(self.E(e[1], sc) if e[1] is not None else None)
        if t == "continue":
            raise _Continue()
        if t == "closure":
            return Closure(e[1], e[2], sc)
        if t == "field":
            v = self.E(e[1], sc)
            m = str(e[2])
            if m.isdigit() and isinstance(v, tuple) and not isinstance(v, VecV) and int(m) < len(v):
                return v[int(m)]
            raise NoEval("field ." + m)
        if t == "index":
            v, i = self.E(e[1], sc), self.E(e[2], sc)
            if isinstance(v, VecV) and isinstance(i, int) and not isinstance(i, bool):
                if not (0 <= i < len(v)):
                    raise Panic("index out of bounds")
                return v[i]
            raise NoEval("index")
        if t == "range":
            lo = self.E(e[1], sc) if e[1] is not None else 0
            if e[2] is None:
                raise NoEval("open range")
            hi = self.E(e[2], sc)
            if not all(isinstance(x, int) and not isinstance(x, bool) for x in (lo, hi)):
                raise NoEval("range bounds")
            return VecV(range(lo, hi + 1 if e[3] else hi))
        if t == "try":
            v = self.E(e[1], sc)
            if isinstance(v, Adt) and v.enum in ("Option", "Result"):
                if v.variant in ("Some", "Ok"):
                    return v.fields[0]
                raise _Return(v)
            raise NoEval("?")
        if t == "for":
            it = self.E(e[2], sc)
            if not isinstance(it, VecV):
                raise NoEval("for over a non-sequence")
            for x in it:
                self.tick()
                inner = Scope(sc)
                if not self.match_pat(e[1], x, inner):
                    raise NoEval("refutable for pattern")
                try:
                    self.block(e[3], inner, new_scope=False)
                except _Break:
                    break
                except _Continue:
                    continue
            return ()
        if t in ("while", "loop"):
            while True:
                self.tick()
                inner = Scope(sc)
                if t == "while" and not self.cond(e[1], inner):
                    return ()
                try:
                    self.block(e[2] if t == "while" else e[1], inner)
                except _Break as b:
                    return b.value if b.value is not None else ()
                except _Continue:
                    continue
        if t == "call":
            return self._call(e, sc)
        if t == "mcall":
            return self._mcall(e, sc)
        if t == "macro":
            nm = str(e[1]).split("::")[-1]
            if nm in ("panic", "unreachable", "todo", "unimplemented"):
                raise Panic(nm)
            raise NoEval("macro " + nm)
        raise NoEval("expression kind " + t)

    def _bin(self, e, sc):
        op = e[1]
        if op == "&&":
            return self.cond(e[2], sc) and self.cond(e[3], sc)
        if op == "||":
            return self.cond(e[2], sc) or self.cond(e[3], sc)
        a = self.E(e[2], sc)
        if op.endswith("=") and op not in ("==", "!=", "<=", ">="):
            b = self.E(e[3], sc)
            val = self._arith(op[:-1], a, b)
            lhs = e[2]
            while is_node(lhs) and lhs[0] == "un" and lhs[1] == "*":
                lhs = lhs[2]
            if lhs[0] != "path" or not sc.assign(lhs[1], val):
                raise NoEval("assignment target")
            return ()
        b = self.E(e[3], sc)
        if op == "==":
            return self._eq(a, b)
        if op == "!=":
            return not self._eq(a, b)
        return self._arith(op, a, b)

    def _eq(self, a, b):
        if isinstance(a, Closure) or isinstance(b, Closure):
            raise NoEval("comparison of closures")
        if isinstance(a, bool) != isinstance(b, bool):
            raise NoEval("comparison of different types")
        return a == b

    def _arith(self, op, a, b):
        ints = all(isinstance(x, int) and not isinstance(x, bool) for x in (a, b))
        bools = all(isinstance(x, bool) for x in (a, b))
        try:
            if op in ("<", ">", "<=", ">=") and (ints or all(isinstance(x, str) for x in (a, b))):
                return {"<": a < b, ">": a > b, "<=": a <= b, ">=": a >= b}[op]
            if ints and op in ("+", "-", "*", "/", "%"):
                if op in ("/", "%") and b == 0:
                    raise Panic("division by zero")
                r = {"+": a + b, "-": a - b, "*": a * b, "/": a // b if b else 0, "%": a % b if b else 0}[op]
                if r < 0:
                    raise Panic("unsigned underflow")
                return r
            if bools and op in ("&", "|", "^"):
                return {"&": a and b, "|": a or b, "^": a != b}[op]
        except TypeError:
            pass
        raise NoEval("operator " + op)

    # ------------------------------------------------------------------ calls
    def apply(self, f, args):
        if isinstance(f, Closure):
            if len(f.params) != len(args):
                raise NoEval("closure arity")
            inner = Scope(f.scope)
            for p, v in zip(f.params, args):
                if not self.match_pat(p, v, inner):
                    raise NoEval("refutable closure parameter")
            self.depth += 1
            if self.depth > self.max_depth:
                raise NoEval("recursion depth")
            try:
                return self.E(f.body, inner)
            except _Return as r:
                return r.value
            finally:
                self.depth -= 1
        if isinstance(f, tuple) and len(f) == 3 and f[0] == "fn":
            return self.call_fn(f[1], args, f[2], reset=False)
        raise NoEval("call of a non-function")

    def fn_value(self, path, sc):
        """a path used as a function: nested fn item, free function of the crate"""
        segs = [s for s in str(path).split("::") if s]
        if len(segs) == 1 or segs[0] in ("self", "Self") and len(segs) == 2:
            item, where = sc.fn(segs[-1])
            if item is not None:
                return ("fn", item, where)
        item = self.resolve(str(path))
        if item is not None:
            return ("fn", item, None)
        return None

    def _call(self, e, sc):
        f = e[1]
        if not (is_node(f) and f[0] == "path"):
            fv = self.E(f, sc)
            return self.apply(fv, [self.E(a, sc) for a in e[2]])
        path = str(f[1])
        hit, v = sc.lookup(path)
        if hit:
            return self.apply(v, [self.E(a, sc) for a in e[2]])
        fv = self.fn_value(path, sc)
        if fv is not None:
            return self.apply(fv, [self.E(a, sc) for a in e[2]])
        vr = self.variant_of(path)
        if vr is not None and vr[2] == len(e[2]) and vr[2] > 0:
            return Adt(vr[0], vr[1], [self.E(a, sc) for a in e[2]])
        segs = [s.split("<")[0] for s in path.replace(" ", "").split("::") if s]
        last = segs[-1]
        owner = segs[-2] if len(segs) > 1 else ""
        args = [self.E(a, sc) for a in e[2]]
        if last in IDENTITY_CALLS and len(args) == 1 and (IDENTITY_CALLS[last] is None or owner in IDENTITY_CALLS[last]):
            return args[0]
        if last == "new" and owner == "Vec" and not args:
            return VecV()
        if last in ("eq", "ne") and len(args) == 2:
            r = self._eq(args[0], args[1])
            return r if last == "eq" else not r
        if last in ("discriminant", "discriminant_value") and len(args) == 1 and isinstance(args[0], Adt):
            return Discr(args[0].enum, args[0].variant)
        if last in ("panic", "panic_fmt", "unreachable", "panic_explicit", "unreachable_display", "begin_panic"):
            raise Panic(last)
        raise NoEval("call " + path[:60])

    def _mcall(self, e, sc):
        m = e[2]
        v = self.E(e[1], sc)
        args = [self.E(a, sc) for a in e[4]]
        n = len(args)
        if m in IDENTITY_METHODS and n == 0:
            return v
        if m in ("eq", "ne") and n == 1:
            r = self._eq(v, args[0])
            return r if m == "eq" else not r
        if isinstance(v, (VecV, str)):
            if m == "is_empty" and n == 0:
                return len(v) == 0
            if m in ("len", "count") and n == 0:
                return len(v)
        if isinstance(v, VecV):
            if m in ("all", "any") and n == 1:
                for x in v:
                    r = self.apply(args[0], [x])
                    if not isinstance(r, bool):
                        raise NoEval("predicate result")
                    if r != (m == "all"):
                        return m == "any"
                return m == "all"
            if m == "zip" and n == 1 and isinstance(args[0], VecV):
                return VecV(zip(v, args[0]))
            if m in ("product", "sum") and n == 0 and all(isinstance(x, int) and not isinstance(x, bool) for x in v):
                r = 1 if m == "product" else 0
                for x in v:
                    r = r * x if m == "product" else r + x
                return r
            if m == "enumerate" and n == 0:
                return VecV(enumerate(v))
            if m == "rev" and n == 0:
                return VecV(reversed(v))
            if m == "map" and n == 1:
                return VecV(self.apply(args[0], [x]) for x in v)
            if m == "filter" and n == 1:
                return VecV(x for x in v if self.apply(args[0], [x]) is True)
            if m in ("collect", "chain") and n == 0:
                return v
            if m == "contains" and n == 1:
                return any(self._eq(x, args[0]) for x in v)
            if m in ("first", "last", "next") and n == 0:
                return some(v[0] if m != "last" else v[-1]) if v else NONE
            if m == "get" and n == 1 and isinstance(args[0], int):
                return some(v[args[0]]) if 0 <= args[0] < len(v) else NONE
            if m in ("skip", "take") and n == 1 and isinstance(args[0], int):
                return VecV(v[args[0]:] if m == "skip" else v[:args[0]])
            if m == "position" and n == 1:
                for i, x in enumerate(v):
                    if self.apply(args[0], [x]) is True:
                        return some(i)
                return NONE
            if m in ("starts_with", "ends_with") and n == 1 and isinstance(args[0], VecV):
                k = len(args[0])
                return (v[:k] if m == "starts_with" else v[len(v) - k:] if k else VecV()) == args[0] and k <= len(v)
        if isinstance(v, Adt) and v.enum == "Option":
            is_some = v.variant == "Some"
            if m in ("is_some", "is_none") and n == 0:
                return is_some == (m == "is_some")
            if m in ("unwrap", "expect"):
                if not is_some:
                    raise Panic("unwrap on None")
                return v.fields[0]
            if m in ("unwrap_or",) and n == 1:
                return v.fields[0] if is_some else args[0]
            if m in ("unwrap_or_default",):
                raise NoEval("unwrap_or_default")
            if m == "unwrap_or_else" and n == 1:
                return v.fields[0] if is_some else self.apply(args[0], [])
            if m == "map" and n == 1:
                return some(self.apply(args[0], [v.fields[0]])) if is_some else NONE
            if m == "and_then" and n == 1:
                return self.apply(args[0], [v.fields[0]]) if is_some else NONE
            if m == "map_or" and n == 2:
                return self.apply(args[1], [v.fields[0]]) if is_some else args[0]
            if m == "map_or_else" and n == 2:
                return self.apply(args[1], [v.fields[0]]) if is_some else self.apply(args[0], [])
            if m in ("is_some_and", "is_none_or") and n == 1:
                if not is_some:
                    return m == "is_none_or"
                return self.apply(args[0], [v.fields[0]])
            if m == "filter" and n == 1:
                return v if is_some and self.apply(args[0], [v.fields[0]]) is True else NONE
            if m in ("or",) and n == 1:
                return v if is_some else args[0]
            if m == "zip" and n == 1 and isinstance(args[0], Adt) and args[0].enum == "Option":
                return some((v.fields[0], args[0].fields[0])) if is_some and args[0].variant == "Some" else NONE
        if isinstance(v, int) and not isinstance(v, bool) and n == 1 and isinstance(args[0], int):
            if m in ("min", "max"):
                return min(v, args[0]) if m == "min" else max(v, args[0])
            if m == "saturating_sub":
                return max(0, v - args[0])
        raise NoEval("method " + str(m))

    # ------------------------------------------------------------------ statements
    def block(self, stmts, sc, new_scope=True):
        if new_scope:
            sc = Scope(sc)
        for st in stmts:
            if st[0] == "item":
                for it in st[1]:
                    if isinstance(it, dict) and it.get("k") == "fn":
                        sc.fns[it["name"]] = it
        last = ()
        for st in stmts:
            self.tick()
            k = st[0]
            if k == "item":
                last = ()
            elif k == "let":
                if st[2] is None:
                    raise NoEval("let without initialiser")
                v = self.E(st[2], sc)
                trial = Scope(sc)
                if self.match_pat(st[1], v, trial):
                    sc.vars.update(trial.vars)
                elif st[3] is not None:
                    self.E(st[3], sc)
                    raise NoEval("let-else block does not diverge")
                else:
                    raise NoEval("refutable let")
                last = ()
            elif k == "expr":
                v = self.E(st[1], sc)
                last = () if (len(st) > 2 and st[2]) else v
            else:
                raise NoEval("statement " + str(k))
        return last


def enum_table(adts, name):
    """{variant: arity} of the enum `name` (full def path) from the ADT facts, or None"""
    for a in adts:
        if a["name"] == name and a.get("enum"):
            return {v["name"]: len(v["fields"]) for v in a["variants"]}
    return None
