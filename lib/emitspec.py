"""Variant-specialised emitter templates and their concrete texts.

lib/emit.py reads a formatter method as a template over the FIELDS of its node; a `match` whose arms are all literals (an operator / flag
table `LogicOp::Xor => "⊻"`) collapses there into one field hole.  This module keeps the table apart:

  SpecEmitter(it, node_param, choose)   evaluates the same string-building code, but a `match` whose scrutinee is the node path p with
                                        p in `choose` takes ONLY the arm of the chosen variant and wraps its text in
                                        ("site", p, "Enum::Variant", parts); every match over node paths seen on the way is recorded
                                        in `.seen` (path -> [(Enum, Variant)] in arm order), which is how the tables are ENUMERATED.
  concretize(parts, picks, focus)       template -> (text, [(Enum::Variant, slot, start, end)]): literals as written, operand fields as
                                        the sentinel, the chosen tables as their literal, child emitters by `picks[slot]`; optional
                                        groups and lists are present (one element) only when they contain the slot in `focus`.
Nothing here depends on the spelling of a local: paths are field paths of the node (`rhs[].0`, `increment.0`, `op`).
"""
import re
from lib.facts import is_node, last_seg, walk, path_of
from lib.emit import Emitter, parse_format, split_format

OPERAND = "§"


def pat_variants(pat):
    """[(Enum, Variant)] named by a match-arm pattern; ("*", "*") for a catch-all"""
    if not is_node(pat):
        return []
    k = pat[0]
    if k == "por":
        out = []
        for a in pat[1]:
            out += pat_variants(a)
        return out
    if k in ("pref",):
        return pat_variants(pat[2])
    if k in ("ptype", "paren"):
        return pat_variants(pat[1])
    if k in ("ppath", "pts", "pstruct"):
        segs = re.sub(r"<.*>", "", pat[1]).split("::")
        head = (segs[-2], segs[-1]) if len(segs) >= 2 else ("", segs[-1])
        if k == "pts" and len(pat[2]) == 1:
            # `FormulaOperator::Logic(LogicOp::Xor)`: the payload variant is part of the arm's identity
            sub = [v for v in pat_variants(pat[2][0]) if v != ("*", "*") and v[0] != "" and len(v) == 2]
            if sub:
                return [head + (v,) for v in sub]
        return [head]
    if k == "pwild":
        return [("*", "*")]
    if k == "pident":
        if pat[1][:1].isupper():
            return [("", pat[1])]
        return [("*", "*")]
    return []


def variant_name(v):
    """`Enum::Variant` of a variant key; for a nested key (`FormulaOperator::Logic(LogicOp::Xor)`) the innermost one"""
    return "%s::%s" % (v[2] if len(v) == 3 else v[:2])


class SpecEmitter(Emitter):
    def __init__(self, it, node_param, choose=None):
        self.choose = dict(choose or {})
        self.seen = {}
        super().__init__(it, node_param)

    consts = {}         # name -> value AST of the string constants of the crate (set by the caller): `Self::XOR` is its text

    def ev_tokens(self, txt, depth):
        m = re.match(r"^\s*(?:Self|\w+)\s*::\s*(\w+)\s*$", txt or "")
        if m and m.group(1) in self.consts:
            return self.ev(self.consts[m.group(1)], depth)
        m = re.match(r'^\s*(\w+)\s*\.\s*(concat|join)\s*\(\s*(?:"((?:[^"\\]|\\.)*)")?\s*\)\s*$', txt or "")
        if m and m.group(1) in self.env:
            return self.ev(["mcall", ["path", m.group(1)], m.group(2), None, [["str", m.group(3) or ""]] if m.group(2) == "join" else []], depth)
        return super().ev_tokens(txt, depth)

    # ---- two idioms the base reader does not model (kept here: the base class is shared with R7/R8)
    def run_block(self, stmts, nested=False):
        # `let s: &str = ...` == `let s = ...`
        norm = []
        for st in stmts or []:
            if st[0] == "let" and is_node(st[1]) and st[1][0] == "ptype" and is_node(st[1][1]):
                st = [st[0], st[1][1]] + list(st[2:])
            norm.append(st)
        return super().run_block(norm, nested)

    def _acc_update(self, st):
        """(accumulator name, value expression, is_append) of `acc = EXPR` / `acc.push_str(EXPR)` / `acc += EXPR` statements"""
        if st[0] != "expr" or not is_node(st[1]):
            return None
        e = st[1]
        if e[0] == "assign" and is_node(e[1]) and e[1][0] == "path":
            return (e[1][1], e[2], False)
        if e[0] == "mcall" and e[2] in ("push_str", "push") and is_node(e[1]) and e[1][0] == "path" and e[4]:
            return (e[1][1], e[4][0], True)
        if e[0] == "bin" and e[1] == "+=" and is_node(e[2]) and e[2][0] == "path":
            return (e[2][1], e[3], True)
        return None

    def run_for(self, f):
        """several updates of ONE accumulator written one after the other in the loop body (`s.push_str(a); s.push_str(b);`) are one
        element text `a b`; the base reader keeps only the first.  Anything else is left to the base reader."""
        pat, it_, body = f[1], f[2], f[3]
        ups = [self._acc_update(st) for st in body]
        direct = [u for u in ups if u is not None]
        every = sum(1 for x in walk(body) if x[0] == "assign" or (x[0] == "bin" and x[1] == "+=") or (x[0] == "mcall" and x[2] in ("push_str", "push") and is_node(x[1]) and x[1][0] == "path"))
        p = self.ref_of(it_)
        simple = all(st[0] == "let" or (st[0] == "expr" and self._acc_update(st) is not None) for st in body)
        if p is None or len(direct) < 2 or every != len(direct) or len({u[0] for u in direct}) != 1 or not simple:
            return super().run_for(f)
        from lib.facts import render
        saved_ref = dict(self.ref)
        if "enumerate" in render(it_) and pat[0] == "ptuple" and len(pat[1]) == 2:
            self.bind_pattern(pat[1][1], p + "[]")
        else:
            self.bind_pattern(pat, p + "[]")
        acc = direct[0][0]
        before = list(self.env.get(acc, []))
        cur = [("ACC",)]
        for st in body:
            u = self._acc_update(st)
            if u is None:
                if st[2] is not None:
                    r = self.ref_of(st[2])
                    if r is not None and not (is_node(st[2]) and st[2][0] == "mcall" and st[2][2] == "to_string"):
                        self.bind_pattern(st[1], r)
                    elif is_node(st[1]) and st[1][0] == "pident":
                        self.env[st[1][1]] = self.ev(st[2])
                        self.ref.pop(st[1][1], None)
                continue
            saved = self.env.get(acc)
            self.env[acc] = cur
            val = self.ev(u[1])
            self.env[acc] = saved if saved is not None else []
            cur = (cur + val) if u[2] else val
        self.ref = saved_ref
        if not any(x[0] == "ACC" for x in cur):
            self.env[acc] = before + [("list", p, [], cur)]
            return
        k = [i for i, x in enumerate(cur) if x[0] == "ACC"][0]
        self.env[acc] = before + [("list", p, [], cur[:k] + cur[k + 1:])]

    def ev(self, e, depth=0):
        if is_node(e) and e[0] == "char":
            return [("lit", e[1])]
        if is_node(e) and e[0] == "macro" and last_seg(e[1]) in ("format_args", "format"):
            fmt, args = parse_format(e[3] if len(e) > 3 else e[2])
            if fmt is not None and any(k == "named" for k, _ in split_format(fmt)):
                # `format!(" {f} ")`: an inline named argument is the local of that name
                out = []
                for kind, v in split_format(fmt):
                    if kind == "lit":
                        out.append(("lit", v))
                    elif kind == "hole" and v < len(args):
                        out += self.ev_tokens(args[v], depth + 1)
                    elif kind == "named":
                        named = [a.split("=", 1)[1] for a in args if re.match(r"^\s*%s\s*=[^=]" % re.escape(v), a)]
                        out += self.ev_tokens(named[0], depth + 1) if named else self.ev(["path", v], depth + 1)
                    else:
                        out.append(("unk", "hole"))
                return out
        if is_node(e) and e[0] == "mcall" and e[2] in ("join", "concat") and is_node(e[1]) and e[1][0] == "path" and e[1][1] in self.env:
            # `let parts: Vec<String> = xs.iter().map(..).collect(); .. parts.join(SEP)`: the list was read at the `let`, the separator comes now
            val = self.env[e[1][1]]
            if len(val) == 1 and val[0][0] == "list" and not val[0][2]:
                sep = self.ev(e[4][0], depth + 1) if e[2] == "join" and e[4] else []
                return [("list", val[0][1], sep, val[0][3])]
        if is_node(e) and e[0] == "mcall" and e[2] == "collect" and is_node(e[1]) and e[1][0] == "mcall" and e[1][2] == "map":
            r = super().ev(["mcall", e, "join", None, [["str", ""]]], depth + 1)
            if len(r) == 1 and r[0][0] == "list":
                return r
        if is_node(e) and e[0] == "mcall" and e[2] == "concat" and not e[4]:
            # `[a, b, c].concat()` / `parts.concat()` == join("")
            recv = e[1]
            while is_node(recv) and recv[0] in ("ref", "paren"):
                recv = recv[2] if recv[0] == "ref" else recv[1]
            if is_node(recv) and recv[0] == "array":
                out = []
                for x in recv[1]:
                    out += self.ev(x, depth + 1)
                return out
            return self.ev(["mcall", e[1], "join", None, [["str", ""]]], depth + 1)
        if is_node(e) and e[0] == "call":
            # the base reader GUESSES that an unknown function given a part of the node renders that part; here the text must be known exactly
            f = path_of(e[1]) or ""
            known = f.endswith("must_use") or f.endswith("fmt::format") or last_seg(f) in ("String::from", "from", "new", "format") or f in ("String::new",) or f in getattr(self, "closures", {})
            if not known and any(self.ref_of(a) is not None for a in e[2]):
                return [("unk", "call of %s" % last_seg(f))]
        if is_node(e) and e[0] == "path" and e[1] not in self.env and self.ref.get(e[1]) is None and last_seg(e[1]) in self.consts:
            return self.ev(self.consts[last_seg(e[1])], depth + 1)
        if is_node(e) and e[0] == "match":
            p = self.ref_of(e[1])
            if p is not None:
                vs = []
                for a in e[2]:
                    vs += [v for v in pat_variants(a[0])]
                self.seen.setdefault(p, [])
                for v in vs:
                    if v not in self.seen[p]:
                        self.seen[p].append(v)
                if p in self.choose:
                    want = self.choose[p]

                    def fits(v):
                        if v[1] != want[1] or v[0] not in ("", want[0]):
                            return False
                        return len(v) == 2 or (len(want) == 3 and v[2] == want[2])
                    arm = None
                    for a in e[2]:
                        if any(fits(v) for v in pat_variants(a[0])):
                            arm = a
                            break
                    if arm is None:
                        for a in e[2]:
                            if ("*", "*") in pat_variants(a[0]):
                                arm = a
                                break
                    if arm is None:
                        return [("unk", "no arm for %s::%s" % want[:2])]
                    saved = (dict(self.env), dict(self.ref))
                    self.bind_pattern(arm[0], p)
                    out = self.ev(arm[2], depth + 1)
                    self.env, self.ref = saved
                    return [("site", p, variant_name(want), out)]
        return super().ev(e, depth)


def contains(parts, focus):
    for p in parts:
        k = p[0]
        if k == "site":
            if p[1] == focus or contains(p[3], focus):
                return True
        elif k == "fld":
            if p[1] == focus and len(p) > 2:
                return True
        elif k == "opt":
            if contains(p[2], focus):
                return True
        elif k == "list":
            if contains(p[3], focus) or contains(p[2], focus):
                return True
        elif k == "alt":
            if any(isinstance(br, list) and contains(br, focus) for br in p[1:]):
                return True
    return False


def free_groups(parts, focus):
    """optional groups and lists that do not contain the focus slot (their presence is a free choice of node shape), outermost first"""
    out = []
    for p in parts:
        k = p[0]
        if k == "site":
            out += free_groups(p[3], focus)
        elif k in ("opt", "list"):
            inner = p[2] if k == "opt" else p[3]
            if contains(inner, focus):
                out += free_groups(inner, focus)
            else:
                out.append(p)
                out += free_groups(inner, focus)
        elif k == "alt":
            for br in p[1:]:
                if isinstance(br, list) and contains(br, focus):
                    out += free_groups(br, focus)
    return out


def concretize(parts, picks, focus, operand=OPERAND, present=()):
    """-> (text, sites) or None when a part cannot be decided.  sites: [(Enum::Variant, slot, start, end)] in text order.
    Groups containing the focus slot are present (lists: one element); other groups only if their id() is in `present`."""
    text = ""
    sites = []

    def add(inner):
        nonlocal text, sites
        sites += [(v, sl, a + len(text), b + len(text)) for v, sl, a, b in inner[1]]
        text += inner[0]

    for p in parts:
        k = p[0]
        if k == "lit":
            text += p[1]
        elif k == "site":
            inner = concretize(p[3], picks, focus, operand, present)
            if inner is None:
                return None
            t2, s2 = inner
            if s2:
                sites += [(v, sl, a + len(text), b + len(text)) for v, sl, a, b in s2]
            else:
                sites.append((p[2], p[1], len(text), len(text) + len(t2)))
            text += t2
        elif k == "fld":
            if len(p) > 2 and p[1] in picks:
                t2, s2 = picks[p[1]]
                sites += [(v, p[1], a + len(text), b + len(text)) for v, sl, a, b in s2]
                text += t2
            else:
                text += operand
        elif k in ("opt", "list"):
            inner_parts = p[2] if k == "opt" else p[3]
            if contains(inner_parts, focus) or id(p) in present:
                inner = concretize(inner_parts, picks, focus, operand, present)
                if inner is None:
                    return None
                add(inner)
        elif k == "alt":
            brs = [br for br in p[1:] if isinstance(br, list) and contains(br, focus)]
            if len(brs) != 1:
                return None
            inner = concretize(brs[0], picks, focus, operand, present)
            if inner is None:
                return None
            add(inner)
        else:
            return None
    return text, sites
