"""Guards that moved out of the function they protect: named constants and inter-procedural guard summaries over MIR.

A refactoring may turn an inline bound check `if <bound violated> { return Err(..) }` into a private helper that is called with `?`
(or matched, or unwrapped), or into a `bool` predicate the caller branches on.  The dominating-comparison discharge of a taint rule must
then see the comparison THROUGH the call:

  summary(h)      which parameters of `h` (possibly through a field path of a parameter) have been compared on every path that reaches
                  an `Ok` return of `h` (Result helpers), resp. which parameters the predicate tests (bool helpers);
  call_tests(b)   for a caller body `b`: one Test per comparison switch of `b` and one per call of a summarised helper, bound to the
                  caller's argument places; Test.dominates(target) is block dominance for an inline comparison and EDGE dominance of the
                  success edge (`?` Continue edge / `Ok` arm / fall-through of unwrap) for a helper call.

Constants: an operand `{"c": "crate::module::NAME"}` is resolved to its integer value through the crate's `const` items (Consts).
Nothing here looks at the spelling of a local, a helper or a constant.
"""
import re
from collections import defaultdict
from lib.mirq import edge_dominates, result_exits, switch_on_call_result
from lib.minieval import ev, NoEval

CMP_OPS = ("Lt", "Le", "Gt", "Ge", "Eq", "Ne")


# ---------------------------------------------------------------- constants

class Consts:
    """integer values of the `const` items of a crate, by full path (`crate::mod::NAME`) and by (unique) name"""

    def __init__(self, F, crate):
        self.by_path = {}
        self.by_name = defaultdict(list)
        self._val = {}
        cname = crate.split(".")[0]
        for it in F.syn(crate):
            if it["k"] not in ("const", "iconst") or it.get("val") is None:
                continue
            segs = [cname] + [s for s in (it.get("mod") or "").split("::") if s]
            if it["k"] == "iconst" and it.get("self"):
                segs.append(re.sub(r"<.*$", "", str(it["self"])))
            segs.append(it["name"])
            self.by_path["::".join(segs)] = it
            self.by_name[it["name"]].append(it)

    def _item(self, path, mod=None):
        if path in self.by_path:
            return self.by_path[path]
        name = path.split("::")[-1]
        cands = self.by_name.get(name, [])
        if mod is not None:
            same = [c for c in cands if (c.get("mod") or "") == mod]
            if len(same) == 1:
                return same[0]
        # associated constants are printed as `<impl at ..>::NAME` / `Type::NAME`: fall back to a unique name
        if len(cands) == 1:
            return cands[0]
        vals = {self._eval(c) for c in cands}
        if cands and len(vals) == 1:
            return cands[0]
        return None

    def _eval(self, it, depth=0):
        k = id(it)
        if k in self._val:
            return self._val[k]
        self._val[k] = None
        if depth > 8:
            return None
        outer = self

        class Env(dict):
            def __contains__(s, name):
                return outer._lookup(name, it.get("mod"), depth + 1) is not None

            def __getitem__(s, name):
                return outer._lookup(name, it.get("mod"), depth + 1)
        try:
            v = ev(it["val"], Env())
        except (NoEval, RecursionError):
            v = None
        if isinstance(v, bool) or not isinstance(v, int):
            v = None
        self._val[k] = v
        return v

    def _lookup(self, name, mod=None, depth=0):
        it = self._item(name, mod)
        return self._eval(it, depth) if it is not None else None

    def value(self, path, mod=None):
        """integer value of the constant named by `path` (full path, `Type::NAME` or bare name), else None"""
        return self._lookup(path, mod)

    def operand_int(self, o):
        """integer value of a MIR constant operand (literal or named constant), else None"""
        if not isinstance(o, dict) or "c" not in o:
            return None
        txt = str(o["c"]).strip()
        m = re.match(r"^(?:const )?(-?\d+)(?:_?[iu](?:8|16|32|64|128|size))?$", txt)
        if m:
            return int(m.group(1))
        if re.match(r"^[A-Za-z_<]", txt) and not txt.startswith('"'):
            return self.value(txt)
        return None

    def syn_int(self, e, mod=None, env=None):
        """integer value of a syn expression built from literals, named constants and + - * / (else None)"""
        outer = self
        base = env or {}

        class Env(dict):
            def __contains__(s, name):
                return name in base or outer._lookup(name, mod) is not None

            def __getitem__(s, name):
                return base[name] if name in base else outer._lookup(name, mod)
        try:
            v = ev(e, Env())
        except (NoEval, RecursionError):
            return None
        return v if isinstance(v, int) and not isinstance(v, bool) else None


# ---------------------------------------------------------------- value origins

def _stmt_defs(b):
    d = getattr(b, "_gs_defs", None)
    if d is None:
        d = defaultdict(list)
        for blk in b.blocks:
            for s in blk["s"]:
                d[s["d"][0]].append(s)
        b._gs_defs = d
    return d


def origins(b, local, depth=0):
    """places (local, projection) that `local` is a plain copy / integer cast of.  A chain that ends in a projected place yields that
    place; a chain that ends in an argument of the body yields (arg, "")."""
    out = set()
    if depth > 8:
        return out
    ds = _stmt_defs(b).get(local, [])
    if not ds:
        if 1 <= local <= b.nargs:
            out.add((local, ""))
        return out
    if len(ds) != 1:
        return out
    s = ds[0]
    if s.get("rk") in ("use", "cast") and s.get("src") and isinstance(s["src"][0], list):
        o = s["src"][0]
        if o[1]:
            out.add((o[0], o[1]))
        else:
            out |= origins(b, o[0], depth + 1)
    return out


def ref_target(b, local, depth=0):
    """(place local, projection) a reference-typed temporary points to: `_t = &(_h.f)` -> (_h, ".f"); through copies of the reference"""
    if depth > 6:
        return None
    ds = _stmt_defs(b).get(local, [])
    if len(ds) != 1:
        return None
    s = ds[0]
    if s.get("rk") == "ref" and s.get("src") and isinstance(s["src"][0], list):
        o = s["src"][0]
        if o[1].startswith("*"):
            inner = ref_target(b, o[0], depth + 1)
            if inner is None:
                return None
            return (inner[0], inner[1] + o[1][1:])
        return (o[0], o[1])
    if s.get("rk") in ("use",) and s.get("src") and isinstance(s["src"][0], list) and not s["src"][0][1]:
        return ref_target(b, s["src"][0][0], depth + 1)
    return None


# ---------------------------------------------------------------- tests (comparisons that dominate)

class Test:
    """a comparison the body performs on some values: `locals` are the compared temporaries, `places` the places they copy"""
    __slots__ = ("body", "blk", "locals", "places", "edge", "via", "fail", "tail")

    def __init__(self, body, blk, locs, places, edge=None, via=None, fail=None, tail=False):
        self.body = body
        self.blk = blk          # the block whose terminator branches on the comparison
        self.locals = set(locs)
        self.places = set(places)
        self.edge = edge        # (switch block, success target) for a summarised call, None for an inline comparison
        self.via = via          # callee of a summarised call
        self.fail = fail        # successor(s) taken when the test fails, when known
        self.tail = tail        # a summarised helper whose Result is returned as it is (`helper(..)` in tail position)

    def dominates(self, target):
        if self.tail:
            return False            # nothing of the body runs after it; it only counts for the Ok return it produces itself
        if self.edge is None:
            return self.blk != target and self.body.dominates(self.blk, target)
        sw, tgt = self.edge
        if target == sw:
            return False
        if tgt is None:
            # a bool predicate the caller branches on: the branching block is the test (the inline comparison discharge is not
            # direction aware either)
            return self.body.dominates(sw, target)
        return self.body.dominates(sw, target) and edge_dominates(self.body, sw, tgt, target)


def inline_tests(b, consts=None):
    """one Test per switch on the result of an integer comparison of the body (a comparison with the constant 0 says nothing about an
    upper bound: it contributes its locals only, as before)"""
    out = []
    defs = _stmt_defs(b)
    for i, blk in enumerate(b.blocks):
        term = blk["t"]
        if term["k"] != "switch" or not isinstance(term["on"], list):
            continue
        for s in defs.get(term["on"][0], []):
            if s.get("rk") == "bin" and s.get("op") in CMP_OPS:
                ls = {o[0] for o in s["src"] if isinstance(o, list)}
                zero = False
                for o in s["src"]:
                    if isinstance(o, dict):
                        v = consts.operand_int(o) if consts is not None else None
                        if v is None and str(o.get("c", "")).split("_")[0] in ("0", "const 0"):
                            v = 0
                        if v == 0:
                            zero = True
                pl = set()
                if not zero:
                    for o in s["src"]:
                        if isinstance(o, list):
                            pl |= origins(b, o[0])
                out.append(Test(b, i, ls, pl, fail=[x[1] for x in term["targets"]] + [term["else"]]))
    return out


def _is_result(ty):
    return ty.startswith("core::result::Result<")


class Summaries:
    """guard summaries of the bodies of a call graph (computed on demand, recursion cut at `depth` helper levels)"""

    def __init__(self, cg, consts=None, depth=3):
        self.cg = cg
        self.consts = consts
        self.depth = depth
        self._sum = {}

    # -- what a helper guarantees about its parameters
    def summary(self, fn, depth=None):
        """None, or {"kind": "result"|"bool", "places": {(param local, projection)}}"""
        depth = self.depth if depth is None else depth
        key = (fn, depth)
        if key in self._sum:
            return self._sum[key]
        self._sum[key] = None          # recursion guard
        b = self.cg.bodies.get(fn)
        res = None
        if b is not None and b.nargs >= 1 and depth > 0:
            rty = b.locals[0]
            if _is_result(rty):
                res = self._result_summary(b, depth)
            elif rty == "bool":
                res = self._bool_summary(b)
        self._sum[key] = res
        return res

    def _param_places(self, b, test):
        out = set()
        for (l, p) in test.places:
            if 1 <= l <= b.nargs:
                out.add((l, p))
        return out

    def _result_summary(self, b, depth):
        ok, err = result_exits(b)
        # every other write of the return place may produce Ok as well (`helper(..)` in tail position, a moved Result)
        for i, blk in enumerate(b.blocks):
            if blk["cl"] or i in err:
                continue
            if any(s["d"][0] == 0 for s in blk["s"]) or (blk["t"]["k"] == "call" and blk["t"]["d"][0] == 0):
                ok.add(i)
        if not ok or not err and not any(t.tail for t in self.tests(b, depth - 1)):
            return None
        places = set()
        for t in self.tests(b, depth - 1):
            pp = self._param_places(b, t)
            if not pp:
                continue
            # every Ok return has passed the test ...
            if not all(t.dominates(o) or (t.tail and t.blk == o) for o in ok):
                continue
            # ... and one outcome of the test leaves through Err only
            if t.edge is None and not t.tail:
                succ = b.succ(t.blk)
                if not any(not (b.reachable_from([s]) & ok) for s in succ):
                    continue
            places |= pp
        return {"kind": "result", "places": places} if places else None

    def _bool_summary(self, b):
        """a predicate: returns bool, no loop, calls nothing but arithmetic helpers, and its comparisons are over its parameters"""
        for i, t in b.calls():
            cal = t.get("f") or t["tf"]
            if not re.search(r"^core::num::|::(checked|saturating|wrapping|overflowing)_\w+$|::is_power_of_two$|::len$|::is_empty$", cal):
                return None
        for i in range(len(b.blocks)):
            if b.blocks[i]["cl"]:
                continue
            if any(b.dominates(s, i) for s in b.succ(i)):
                return None          # back edge: a loop
        # only ORDER comparisons make a bound predicate (a derived `PartialEq::eq` compares fields too, but bounds nothing)
        places = set()
        for i, s in b.stmts():
            if s.get("rk") == "bin" and s.get("op") in ("Lt", "Le", "Gt", "Ge"):
                zero = any(isinstance(o, dict) and ((self.consts.operand_int(o) if self.consts else None) == 0 or str(o.get("c", "")) == "0") for o in s["src"])
                if zero:
                    continue
                for o in s["src"]:
                    if isinstance(o, list):
                        for (l, p) in origins(b, o[0]):
                            if 1 <= l <= b.nargs:
                                places.add((l, p))
        return {"kind": "bool", "places": places} if places else None

    # -- what a caller learns from calling summarised helpers
    def tests(self, b, depth=None):
        depth = self.depth if depth is None else depth
        out = inline_tests(b, self.consts)
        if depth <= 0:
            return out
        for i, t in b.calls():
            cal = t.get("f") or t["tf"]
            if cal not in self.cg.bodies or cal == b.fn:
                continue
            sm = self.summary(cal, depth)
            if not sm:
                continue
            locs, places = set(), set()
            for (p, proj) in sm["places"]:
                if p - 1 >= len(t["args"]):
                    continue
                a = t["args"][p - 1]
                if not isinstance(a, list):
                    continue
                if proj == "":
                    if a[1]:
                        places.add((a[0], a[1]))
                    else:
                        locs.add(a[0])
                        places |= origins(b, a[0])
                elif proj.startswith("*"):
                    tgt = ref_target(b, a[0]) if not a[1] else None
                    if tgt is not None:
                        places.add((tgt[0], tgt[1] + proj[1:]))
                else:
                    for (l, q) in (origins(b, a[0]) if not a[1] else {(a[0], a[1])}):
                        places.add((l, q + proj))
                    if not a[1]:
                        places.add((a[0], proj))
            if not locs and not places:
                continue
            edges = self.success_edges(b, i, t, sm["kind"])
            for edge in edges:
                out.append(Test(b, i, locs, places, edge=edge, via=cal))
            if not edges and sm["kind"] == "result" and t["d"][0] == 0 and not t["d"][1]:
                out.append(Test(b, i, locs, places, via=cal, tail=True))
        return out

    def success_edges(self, b, blk, term, kind="result"):
        """[(branching block, target taken when the call succeeded)] for a call that returns a Result: the Continue edge of `?`, the `Ok`
        arm of a match / if-let on the result, the fall-through of unwrap/expect; for a bool predicate: [(block that branches on it, None)]"""
        out = []
        if kind == "bool":
            sw = switch_on_call_result(b, blk, term)
            return [(sw[0], None)] if sw else []
        d = term["d"][0]
        alias = {d}
        # moves of the result into another temporary before it is consumed
        for _ in range(3):
            for i, s in b.stmts():
                if s.get("rk") == "use" and s.get("src") and isinstance(s["src"][0], list) and s["src"][0][0] in alias and not s["src"][0][1]:
                    alias.add(s["d"][0])
        for i, t in b.calls():
            cal = t.get("f") or t["tf"]
            if not any(isinstance(a, list) and a[0] in alias and not a[1] for a in t["args"][:1]):
                continue
            nb = t.get("t")
            if nb is None:
                continue
            if cal.endswith("Try>::branch") or cal.endswith("Try::branch"):
                sw = b.blocks[nb]["t"]
                if sw["k"] == "switch":
                    cont = [tg for v, tg in sw["targets"] if v == 0]
                    if cont:
                        out.append((nb, cont[0]))
                    elif [v for v, tg in sw["targets"]] == [1]:
                        out.append((nb, sw["else"]))
            elif re.search(r"result::Result<T, E>>?::(unwrap|expect)$", cal):
                out.append((i, nb))
        # `match helper(..) { Ok(..) => .., Err(e) => return Err(e) }`: a switch on the discriminant of the result itself
        for i, blk_ in enumerate(b.blocks):
            sw = blk_["t"]
            if sw["k"] != "switch" or not isinstance(sw["on"], list):
                continue
            for s in _stmt_defs(b).get(sw["on"][0], []):
                if s.get("rk") == "discr" and isinstance(s["src"][0], list) and s["src"][0][0] in alias and not s["src"][0][1]:
                    okt = [tg for v, tg in sw["targets"] if v == 0]
                    if okt:
                        out.append((i, okt[0]))
                    elif [v for v, tg in sw["targets"]] == [1]:
                        out.append((i, sw["else"]))      # `if let Err(e) = r { .. }`: only the Err discriminant is named
        return out
