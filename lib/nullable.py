"""Nullability of parser functions (can a parser succeed without consuming input?) over the expanded syntax of mech_syntax.

classify(expr) -> "C" (every success consumes at least one grapheme), "N" (may succeed without consuming), "?" (unknown).
A function is C when its success spine (top-level `?`-propagated parser applications and diverging matches) contains a C parser.
The least fixpoint starts from "not proven consuming" for every function, so "C" is only ever concluded from a derivation."""
import re
from lib.facts import find, walk, is_node, path_of, render, render_stmt, render_pat

ALWAYS_N = {"many0", "opt", "many0_count", "separated_list0", "is_not", "peek", "not", "success", "many_till0", "skip_nil", "eof", "cond", "fold_many0"}
SAME_AS_ARG0 = {"many1", "cut", "range", "null", "map", "value", "recognize", "verify", "label_without_recovery", "consumed", "context", "complete", "all_consuming",
                "many1_count", "fold_many1", "map_res", "map_opt", "into", "Box::new"}
SEQ = {"tuple", "nom_tuple", "pair", "preceded", "terminated", "delimited", "separated_pair"}
CONSUMING_METHODS = re.compile(r"^consume_\w+$")


def as_match(n):
    """`if let PAT = E { A } else { B }` seen as `match E { PAT => A, _ => B }` (the two are interchangeable for a maintainer)"""
    if is_node(n) and n[0] == "if" and is_node(n[1]) and n[1][0] == "letc":
        els = n[3] if n[3] is not None else ["block", []]
        return ["match", n[1][2], [[n[1][1], None, ["block", n[2]], 0], [["pwild"], None, els, 0]]]
    return n


class Nullability:
    def __init__(self, items):
        self.fns = {}
        for it in items:
            if it["k"] == "fn":
                self.fns.setdefault(it["name"], it)
        self.cons = set()     # functions proven consuming
        self.fn_inits = None  # single-assignment locals of the function that encloses the loop under analysis (set by the caller)
        self.why = {}
        self.fix()

    def fix(self):
        changed = True
        rounds = 0
        while changed and rounds < 40:
            changed = False
            rounds += 1
            for name, it in self.fns.items():
                if name in self.cons:
                    continue
                w = self.fn_consuming(it)
                if w:
                    self.cons.add(name)
                    self.why[name] = w
                    changed = True

    # ---- parser-valued expressions
    def classify(self, e, env=None):
        env = env or {}
        if not is_node(e):
            return "?"
        t = e[0]
        if t in ("ref", "paren"):
            return self.classify(e[2], env)
        if t == "path":
            n = e[1].split("::")[-1]
            if e[1] in env:
                return env[e[1]]
            if n in self.cons:
                return "C"
            if n in self.fns:
                return "N"
            if n in ALWAYS_N:
                return "N"
            return "?"
        if t == "call":
            f = path_of(e[1])
            if f is None:
                return "?"
            n = f.split("::")[-1]
            args = e[2]
            if n == "tag" or n == "tag_no_case":
                if args and args[0][0] == "str":
                    return "C" if len(args[0][1]) > 0 else "N"
                return "?"
            if n in ("char", "one_of", "none_of", "anychar", "take_while1", "take_till1", "is_a", "satisfy"):
                return "C"
            if n in ALWAYS_N:
                return "N"
            if n in SAME_AS_ARG0:
                return self.classify(args[0], env) if args else "?"
            if n == "label_with_recovery":
                a = self.classify(args[0], env)
                b = self.classify(args[1], env) if len(args) > 1 else "?"
                if a == "C" and b == "C":
                    return "C"
                if a == "N" or b == "N":
                    return "N"
                return "?"
            if n == "alt":
                inner = args[0][1] if args and args[0][0] == "tuple" else args
                cs = [self.classify(x, env) for x in inner]
                if all(c == "C" for c in cs) and cs:
                    return "C"
                if any(c == "N" for c in cs):
                    return "N"
                return "?"
            if n in SEQ:
                inner = args[0][1] if len(args) == 1 and args[0][0] == "tuple" else args
                cs = [self.classify(x, env) for x in inner]
                if any(c == "C" for c in cs):
                    return "C"
                if all(c == "N" for c in cs) and cs:
                    return "N"
                return "?"
            if n in ("separated_list1", "many_till", "many_m_n"):
                # separated_list1(sep, p) ~ p ; many_till(p, end) ~ end
                idx = 1 if n == "separated_list1" else (1 if n == "many_till" else 2)
                return self.classify(args[idx], env) if len(args) > idx else "?"
            if n in self.fns and args:
                # a local combinator-returning function applied to parsers: unknown
                return "?"
            return "?"
        if t == "macro" and False:
            return "?"
        if t == "closure":
            # |i| p(i) / |i| p(i).map(..)
            body = e[2]
            apps = self.applications(body)
            cs = [self.classify(a, env) for a in apps]
            if cs and cs[0] == "C":
                # the first application inside the closure is what consumes (`|i| p(i).map(..)`)
                return "C"
            if cs and all(c == "N" for c in cs):
                return "N"
            return "?"
        if t == "macro":
            return "?"
        if t == "block" and e[1]:
            last = e[1][-1]
            if last[0] == "expr":
                return self.classify(last[1], env)
        return "?"

    def applications(self, node):
        """parser applications `P(input...)` inside node: call nodes whose callee is itself a call/path/closure and whose
        single argument mentions an input variable"""
        out = []
        for c in find(node, "call"):
            if self.is_application(c):
                out.append(c[1])
        return out

    def is_parser_fn(self, name):
        """a crate function with the signature of a grammar parser: fn(ParseString, ..) -> ParseResult<_>"""
        it = self.fns.get(name)
        if not it:
            return False
        ins = it["sig"].get("inputs") or []
        first = ins[0][1] if ins and isinstance(ins[0], list) and len(ins[0]) == 2 else ""
        return str(first).replace(" ", "").startswith("ParseString") and "ParseResult" in (it["sig"].get("ret") or "")

    def is_application(self, c):
        """`c` (a call node) applies a parser to an input: `COMBINATOR(..)(x)` (a curried call with one argument) or `p(x, ..)` with p a
        parser function of the crate.  Decided by the callee, not by what the argument is called."""
        if not (is_node(c) and c[0] == "call" and len(c[2]) >= 1):
            return False
        f = c[1]
        if is_node(f) and f[0] == "call":
            return len(c[2]) == 1 and not (path_of(f[1]) or "").endswith("Box::new")
        return is_node(f) and f[0] == "path" and self.is_parser_fn(f[1].split("::")[-1])

    def stmt_consuming(self, st, env):
        """does every normal continuation after this top-level statement imply a consuming parser succeeded?"""
        init = None
        if st[0] == "let":
            init = st[2]
        elif st[0] == "expr":
            init = st[1]
        if init is None or not is_node(init):
            return None
        # alt_best(input, &parsers)? with a local vector of boxed parser closures
        e = init
        if e[0] == "try" and is_node(e[1]) and e[1][0] == "call" and (path_of(e[1][1]) or "").endswith("alt_best") and len(e[1][2]) == 2:
            v = e[1][2][1]
            while is_node(v) and v[0] == "ref":
                v = v[2]
            if path_of(v) in env and env[path_of(v)] == "C":
                return "alt_best(%s)" % path_of(v)
        if e[0] == "try" and is_node(e[1]) and e[1][0] == "call":
            c = e[1]
            f = c[1]
            if is_node(f) and (f[0] in ("call", "closure") or (f[0] == "path")):
                cl = self.classify(f, env) if f[0] != "path" else self.classify(f, env)
                if f[0] == "path" and f[1].split("::")[-1] not in self.fns and f[1] not in env:
                    return None
                if cl == "C":
                    return render(f)[:60]
        # match P(input) { Ok((i, x)) => (i, x), Err(e) => return Err(..) }  (diverging error arms)
        w = self._match_consuming(e, env)
        if w:
            return w
        # consuming method on the input itself
        for mc in find(init, "mcall"):
            if CONSUMING_METHODS.match(mc[2]) and init[0] == "try":
                return "." + mc[2]
        return None

    def _match_consuming(self, e, env, depth=0):
        """`match P(x) { Ok(..) => .., other arms }` with P consuming, where every other arm either yields nothing to the continuation
        (diverges / evaluates to Err) or is again such a match (`_ => match Q(x) { Ok(..) => .., Err(e) => return Err(e) }`): whatever
        continues after it, a consuming parser has succeeded.  An arm that recovers and yields an input (e.g. through a skip-ahead
        parser that may consume nothing) does not qualify."""
        while is_node(e) and e[0] in ("block", "unsafe") and len(e[1]) == 1 and e[1][0][0] == "expr":
            e = e[1][0][1]
        if not is_node(e) or depth > 12:
            return None
        e = as_match(e)
        if depth > 0 and e[0] in ("block", "unsafe"):
            # an arm `{ let (i, x) = P(i)?; Ok((i, ..)) }`: a consuming statement on the spine of the arm's block
            for st in e[1]:
                w = self.stmt_consuming(st, env)
                if w:
                    return w
            return None
        if e[0] == "match" and is_node(e[1]) and e[1][0] == "call":
            f = e[1][1]
            if is_node(f) and self.classify(f, env) == "C":
                for arm in e[2]:
                    p = arm[0]
                    if p[0] == "pts" and p[1] == "Ok":
                        continue
                    if not (self._arm_fails(arm[2]) or self._match_consuming(arm[2], env, depth + 1)):
                        return None
                return render(f)[:60]
        if depth > 0 and e[0] == "call" and self.is_application(e) and self.classify(e[1], env) == "C":
            return render(e[1])[:60]
        if depth > 0 and e[0] == "try" and is_node(e[1]) and e[1][0] == "call" and self.is_application(e[1]) and self.classify(e[1][1], env) == "C":
            return render(e[1][1])[:60]
        return None

    def _arm_fails(self, e):
        """the arm never yields a value to the continuation: it diverges (return / break / continue / panic) or its value is `Err(..)`"""
        from lib import guards as G
        while is_node(e) and e[0] in ("block", "unsafe") and e[1]:
            if G.diverges(e[1], panics=True):
                return True
            last = e[1][-1]
            if last[0] != "expr" or (len(last) > 2 and last[2]):
                return False
            e = last[1]
        if not is_node(e):
            return False
        if G.diverges([["expr", e, False]], panics=True):
            return True
        if e[0] == "call" and (path_of(e[1]) or "").split("::")[-1] == "Err":
            return True
        if e[0] == "match":
            return all(self._arm_fails(a[2]) for a in e[2])
        if e[0] == "if" and e[3] is not None:
            return self._arm_fails(["block", e[2]]) and self._arm_fails(e[3])
        return False

    def guarded_by_consume(self, body):
        """every `Ok(..)` the body can return sits in the success branch of `if let Some(_) = input.consume_*()` /
        `match input.consume_*() { Some(..) => .. }`"""
        oks = [c for c in find(body, "call") if path_of(c[1]) == "Ok"]
        if not oks:
            return None
        guarded = []
        for n in walk(body):
            if n[0] == "if" and is_node(n[1]) and n[1][0] == "letc" and render_pat(n[1][1]).startswith("Some("):
                ms = [m for m in find(n[1][2], "mcall") if CONSUMING_METHODS.match(m[2])]
                if ms:
                    guarded += [c for c in find(n[2], "call") if path_of(c[1]) == "Ok"]
            if n[0] == "match" and is_node(n[1]):
                ms = [m for m in find(n[1], "mcall") if CONSUMING_METHODS.match(m[2])]
                if ms:
                    for arm in n[2]:
                        if render_pat(arm[0]).startswith("Some("):
                            guarded += [c for c in find(arm[2], "call") if path_of(c[1]) == "Ok"]
        if all(any(o is g for g in guarded) for o in oks):
            return "consume_* guards every Ok"
        return None

    def fn_consuming(self, it):
        w0 = self.guarded_by_consume(it["body"])
        if w0:
            return w0
        env = {}
        for st in it["body"]:
            w = self.stmt_consuming(st, env)
            if w:
                return w
            # local parser bindings: let p = alt((..));
            if st[0] == "let" and st[2] is not None and is_node(st[1]) and (st[1][0] == "pident" or (st[1][0] == "ptype" and st[1][1][0] == "pident")):
                nm = st[1][1] if st[1][0] == "pident" else st[1][1][1]
                c = self.classify(st[2], env)
                if c == "?":
                    # a vector of (label, Box::new(closure)) alternatives
                    clos = []
                    for tp in find(st[2], "tuple"):
                        if len(tp[1]) == 2 and is_node(tp[1][0]) and tp[1][0][0] == "str" and is_node(tp[1][1]) and tp[1][1][0] == "call" and path_of(tp[1][1][1]) == "Box::new" and tp[1][1][2]:
                            clos.append(tp[1][1][2][0])
                    if clos:
                        cs = [self.classify(x, env) for x in clos]
                        c = "C" if all(y == "C" for y in cs) else ("N" if any(y == "N" for y in cs) else "?")
                if c in ("C", "N"):
                    env[nm] = c
        # tail expression is a parser application: P(input)
        if it["body"]:
            last = it["body"][-1]
            if last[0] == "expr" and not last[2] and is_node(last[1]):
                e = last[1]
                if e[0] == "call" and (path_of(e[1]) or "").endswith("alt_best") and len(e[2]) == 2:
                    v = e[2][1]
                    while is_node(v) and v[0] == "ref":
                        v = v[2]
                    if env.get(path_of(v)) == "C":
                        return "alt_best(%s)" % path_of(v)
                if e[0] == "call" and is_node(e[1]) and e[1][0] in ("call", "path", "closure"):
                    if self.classify(e[1], env) == "C":
                        return render(e[1])[:60]
                if e[0] == "mcall" and e[2] in ("map", "map_err", "and_then") and is_node(e[1]) and e[1][0] == "call":
                    if self.classify(e[1][1], env) == "C":
                        return render(e[1][1])[:60]
        return None


    # ---- hand-written loops
    def loop_progress(self, loop, fn_env=None):
        """evidence that every iteration that continues consumes input. returns (kind, text) or None"""
        kind = loop[0]
        body = loop[1] if kind == "loop" else loop[2]
        env = dict(fn_env or {})
        txt = " ".join(render_stmt(s) for s in body)
        cond = render(loop[1]) if kind == "while" else ""
        # (d) counter loops
        if kind == "while":
            cvars = {x[1] for x in find(loop[1], "path")}
            for st in body:
                if st[0] == "expr" and is_node(st[1]) and st[1][0] == "bin" and st[1][1] == "+=" and path_of(st[1][2]) and render(st[1][3]) in ("1", "1usize"):
                    # the counter feeds the condition (directly or through a re-evaluated local)
                    return ("counter", "%s += 1" % path_of(st[1][2]))
            # while P(input.clone()).is_err() { consuming spine }
        # (a) explicit progress comparison between two cursors / lengths of different inputs
        from lib.locals import local_inits, through_locals
        inits = dict(self.fn_inits or {})
        inits.update(local_inits(body))
        for b in find(body, "bin"):
            if b[1] in ("==", "!=", "<=", ">=", "<", ">"):
                # either side may be a named snapshot (`let before = rest.cursor; .. if next.cursor <= before`)
                l, r = render(through_locals(b[2], inits)), render(through_locals(b[3], inits))
                if re.search(r"\.cursor$|\.len\(\)$", l) and re.search(r"\.cursor$|\.len\(\)$", r) and l.split(".")[0] != r.split(".")[0]:
                    return ("progress-comparison", "%s %s %s" % (l, b[1], r))
        # (b) a consuming parser on the spine of the loop body
        for st in body:
            w = self.stmt_consuming(st, env)
            if w:
                return ("consuming-spine", w)
            if st[0] == "let" and st[2] is not None and is_node(st[1]) and st[1][0] == "pident":
                c = self.classify(st[2], env)
                if c in ("C", "N"):
                    env[st[1][1]] = c
        # (c) every statement that rebinds the loop input takes it from a consuming parser's Ok result
        rebinds = []
        nodes = list(walk(body))
        if kind == "while" and is_node(loop[1]) and loop[1][0] == "letc":
            # `while let Ok((rest, x)) = p(cur.clone()) { cur = rest; }` == loop { match p(..) { Ok(..) => {..}, _ => break } }
            nodes.append(["match", loop[1][2], [[loop[1][1], None, ["block", body], 0], [["pwild"], None, ["break"], 0]]])
        for n in nodes:
            n = as_match(n)
            if n[0] == "match" and is_node(n[1]) and n[1][0] == "call":
                f = n[1][1]
                for arm in n[2]:
                    if arm[0][0] == "pts" and arm[0][1] == "Ok":
                        # the Ok arm stores the rest of the input back into the variable the parser was applied to (`p(x.clone())` ..
                        # `x = rest`): found by that data flow, whatever the variable is called
                        fed = {x[1] for a in n[1][2] for x in find(a, "path")}
                        assigns = [a for a in find(arm[2], "assign") if path_of(a[1]) in fed]
                        if assigns:
                            rebinds.append((render(f)[:50], self.classify(f, env) if is_node(f) else "?"))
        # the same rebinding written on the spine: `let (rest, x) = match p(cur.clone()) { Ok(v) => v, .. };` / `= p(cur.clone())?;` followed
        # by `cur = rest` (the loop variable is fed to p and then overwritten with what p left)
        seen_r = {r for r, _ in rebinds}
        for st in find(body, "let"):
            if len(st) < 3 or st[2] is None or not is_node(st[1]):
                continue
            bound = [q[1] for q in find(st[1], "pident")]
            if not bound:
                continue
            apps = [c for c in find(st[2], "call") if self.is_application(c)]
            for c in apps:
                fed = {x[1] for a in c[2] for x in find(a, "path")}
                for a in find(body, "assign"):
                    if path_of(a[1]) in fed and path_of(a[2]) in bound and path_of(a[1]) not in bound:
                        key = render(c[1])[:50]
                        if key not in seen_r:
                            seen_r.add(key)
                            rebinds.append((key, self.classify(c[1], env) if is_node(c[1]) else "?"))
        if rebinds and all(c == "C" for _, c in rebinds):
            # plain `let (input, _) = p(input)?` rebinding on the spine with nullable p is fine: it never loops without a C rebind
            return ("consuming-rebinds", ", ".join(r for r, _ in rebinds))
        self.last_rebinds = rebinds
        return None


    # ---- definite nullability (under-approximation): there is a success path that consumes nothing
    def definitely_nullable_set(self):
        dn = set()
        changed = True
        while changed:
            changed = False
            for name, it in self.fns.items():
                if name in dn or name in self.cons:
                    continue
                if self.fn_definitely_nullable(it, dn):
                    dn.add(name)
                    changed = True
        return dn

    def dn_expr(self, e, dn):
        if not is_node(e):
            return False
        if e[0] in ("ref", "paren"):
            return self.dn_expr(e[2], dn)
        if e[0] == "path":
            n = e[1].split("::")[-1]
            return n in dn or n in ("skip_nil", "success")
        if e[0] == "call":
            f = path_of(e[1])
            if not f:
                return False
            n = f.split("::")[-1]
            a = e[2]
            if n in ("many0", "opt", "is_not", "peek", "not", "many0_count", "separated_list0"):
                return True
            if n in SAME_AS_ARG0:
                return bool(a) and self.dn_expr(a[0], dn)
            if n == "alt":
                inner = a[0][1] if a and a[0][0] == "tuple" else a
                return any(self.dn_expr(x, dn) for x in inner)
            if n in SEQ:
                inner = a[0][1] if len(a) == 1 and a[0][0] == "tuple" else a
                return bool(inner) and all(self.dn_expr(x, dn) for x in inner)
            if n == "label_with_recovery":
                return self.dn_expr(a[0], dn)
        return False

    def fn_definitely_nullable(self, it, dn):
        body = it["body"]
        if not body:
            return False
        for st in body:
            init = st[2] if st[0] == "let" else (st[1] if st[0] == "expr" else None)
            if init is None or not is_node(init):
                continue
            if init[0] == "try" and is_node(init[1]) and init[1][0] == "call" and is_node(init[1][1]) and init[1][1][0] in ("call", "path") and init[1][2] and (
                    self.is_application(init[1]) or (init[1][1][0] == "path" and "::" not in init[1][1][1] and init[1][1][1] not in self.fns and len(init[1][2]) == 1)):
                # (second alternative: a callable that is a local / parameter, applied to one argument and `?`-propagated: a parser handed in)
                f = init[1][1]
                if f[0] == "path" and f[1].split("::")[-1] not in self.fns:
                    return False
                if not self.dn_expr(f, dn):
                    return False
            elif init[0] in ("loop", "while"):
                lb = init[1] if init[0] == "loop" else init[2]
                # an exit (break) guarded only by look-ahead tests, before any rebinding parser application
                ok = False
                for s2 in lb:
                    if s2[0] == "expr" and is_node(s2[1]) and s2[1][0] == "if" and any(True for _ in find(s2[1][2], "break")) and not any(True for _ in find(s2[1][1], "try")):
                        ok = True
                        break
                    if s2[0] == "let" or (s2[0] == "expr" and is_node(s2[1]) and s2[1][0] == "match"):
                        break
                if not ok:
                    return False
            elif init[0] == "match" or init[0] == "if":
                # branching spine: give up (not proven)
                if any(True for _ in find(init, "try")) or self.applications(init):
                    return False
        last = body[-1]
        return last[0] == "expr" and not last[2] and is_node(last[1]) and last[1][0] == "call" and path_of(last[1][1]) == "Ok"
