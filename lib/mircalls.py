"""MIR sites seen through private helpers: "block b of body B plays role R" holds when b itself does (a `direct` predicate over the block) or when b calls a
private helper of B's module whose body contains a block playing R (one or two levels).  A rule formulated over such sites keeps following a mechanism that a
maintainer moved from a function into a helper of that function."""
import re
from lib.mirq import Slice, result_exits
from lib.facts import fns_in_type, op_fn


def callee_name(t):
    return t.get("f") or t.get("tf") or ""


def module_of(fn):
    """module path of a def path: `a::b::f` -> `a::b`; `a::b::T::m` -> `a::b`; `<a::b::T as Tr>::m` -> `a::b`"""
    m = re.match(r"^<([^ >]+)", fn)
    if m:
        fn = m.group(1) + "::_"
    parts = [x for x in re.sub(r"<[^<>]*>", "", re.sub(r"<[^<>]*>", "", fn)).split("::") if x]
    parts = parts[:-1]
    while parts and re.match(r"^[A-Z]", parts[-1]):
        parts.pop()
    return "::".join(parts)


class Through:
    def __init__(self, cg, anchor, depth=2, helper_ok=None):
        self.cg = cg
        self.anchor = anchor
        self.depth = depth
        self.mod = module_of(anchor.fn)
        self.helper_ok = helper_ok
        self._memo = {}

    def helpers(self, body, t):
        """the bodies a call terminator hands control to that belong to the anchor: the private same-module helper it calls, and the closures of `body`
        it passes along (`xs.iter().find(|x| ..)`: the closure is a separate MIR body).  Public entry points, other modules and recursion are not followed."""
        if t.get("k") != "call":
            return []
        out = []
        name = callee_name(t)
        h = self.cg.bodies.get(name)
        if h is None:
            h = self.cg.bodies.get(re.sub(r"::<[^>]*>", "", name))
        if h is not None and h is not body and h is not self.anchor:
            if self.helper_ok is not None:
                if self.helper_ok(h):
                    out.append(h)
            elif not h.pub and module_of(h.fn) == self.mod:
                out.append(h)
        texts = list(t.get("ga", []))
        for a in t.get("args", []):
            f = op_fn(a)
            if f:
                texts.append(f)
        for g in texts:
            for f in fns_in_type(g):
                if f.startswith(body.fn + "::{closure") and f in self.cg.bodies and self.cg.bodies[f] is not body:
                    out.append(self.cg.bodies[f])
        return out

    def contains(self, body, direct, depth=None, _stack=()):
        depth = self.depth if depth is None else depth
        key = (body.fn, id(direct), depth)
        if key in self._memo:
            return self._memo[key]
        r = False
        for i, blk in enumerate(body.blocks):
            if blk["cl"]:
                continue
            if direct(body, i, blk):
                r = True
                break
            if depth > 0:
                if any(h.fn not in _stack and self.contains(h, direct, depth - 1, _stack + (body.fn,)) for h in self.helpers(body, blk["t"])):
                    r = True
                    break
        self._memo[key] = r
        return r

    def nodes(self, body, direct, depth=None):
        """[(block, helper body or None)]: blocks of `body` playing the role directly (None) or through the helper they call"""
        depth = self.depth if depth is None else depth
        out = []
        for i, blk in enumerate(body.blocks):
            if blk["cl"]:
                continue
            if direct(body, i, blk):
                out.append((i, None))
            elif depth > 0:
                for h in self.helpers(body, blk["t"]):
                    if self.contains(h, direct, depth - 1, (body.fn,)):
                        out.append((i, h))
                        break
        return out


def error_exits_fed_by(body, call_block):
    """the Err exits of `body` whose error value derives from the result of the call ending `call_block` (`helper(..)?`, or `match helper(..) { Err(e) => return Err(e) }`)"""
    t = body.blocks[call_block]["t"]
    name = callee_name(t)
    sl = Slice(body)
    out = []
    _, errs = result_exits(body)
    reach = body.reachable_from([call_block])
    for e in errs:
        if e not in reach:
            continue
        blk = body.blocks[e]
        ops = []
        if blk["t"]["k"] == "call" and blk["t"]["d"][0] == 0:
            ops += list(blk["t"]["args"])
        for s in blk["s"]:
            if s["d"][0] == 0 and s.get("rk") == "agg":
                ops += list(s.get("src", []))
        for o in ops:
            if any(r[0] == "call" and r[1] == name and r[2] == call_block for r in sl.roots(o)):
                out.append(e)
                break
    return out
