"""Finite-model evaluation of function bodies over a closed model of Mech's container values.

The syntax trees the compiler produced (macro-expanded, `F.syn(crate)`) are evaluated by a small interpreter of the Rust
subset the table code is written in, over a CLOSED MODEL of the values involved: integers / booleans / strings, `Ref<T>`
cells (shared, interior-mutable), `Vec` / `DVector` (one class), insertion-ordered maps and sets, tuples, enum values
(`Value::Table(..)`, `Some(..)`, `Matrix::DVector(..)`), structs (`MechTable`, `MechRecord`, the function structs),
closures and iterator pipelines.  Nothing of mech is built or run: a rule hands the machine a function ITEM and model
arguments drawn from a finite table of inputs and compares the model result with what the property defines.

Only three families of names carry a built-in meaning, all of them external to the code under analysis or its storage
interface: std / indexmap / nalgebra container and iterator methods, the `Ref<T>` cell protocol (`new / borrow /
borrow_mut / as_ptr / as_mut_ptr / clone`), and the `Matrix<T>` storage interface (`index1d` 1-based read,
`set_index1d` 0-based write, `resize_vertically`, `len`).  Every other function or method - `empty_table`,
`get_record`, private helpers, `solve`, `out`, `compile` - is evaluated from ITS OWN BODY, looked up by (self type, name)
or (free function name), so a helper extracted or inlined by a refactoring changes nothing.

Three outcomes: a value; `Panic` (the evaluated code panics on this input: `unwrap()` of None, index out of range,
`panic!`); `NoEval` (a construct outside the model - the caller records `undecided`, never a violation).
"""
import itertools
import re
from lib.facts import is_node


class NoEval(Exception):
    pass


class Panic(Exception):
    pass


class _Return(Exception):
    def __init__(self, value):
        self.value = value


class _Break(Exception):
    def __init__(self, value=None):
        self.value = value


class _Continue(Exception):
    pass


# ---------------------------------------------------------------- values
class Cell:
    """Ref<T> / Rc<RefCell<T>>: a shared mutable cell (clone = alias)"""
    __slots__ = ("v",)

    def __init__(self, v):
        self.v = v

    def __eq__(self, o):
        return isinstance(o, Cell) and eq(self.v, o.v)

    def __hash__(self):
        return id(self)

    def __repr__(self):
        return "Ref(%r)" % (self.v,)


class Ptr:
    """a reference to a place: `cell.borrow()`, `&mut local`, an element handed out by iter_mut / get_mut"""
    __slots__ = ("get", "set")

    def __init__(self, get, set_=None):
        self.get, self.set = get, set_

    def __repr__(self):
        return "&%r" % (self.get(),)


def cell_ptr(c):
    def s(v):
        c.v = v
    return Ptr(lambda: c.v, s)


def D(v):
    """auto-deref: the value behind any chain of references"""
    while isinstance(v, Ptr):
        v = v.get()
    return v


class Vec:
    """Vec<T>, slices, arrays, VecDeque, nalgebra DVector<T> / RowDVector<T>"""
    __slots__ = ("items",)

    def __init__(self, items=None):
        self.items = list(items or [])

    def __repr__(self):
        return "%r" % (self.items,)


class IMap:
    """IndexMap / HashMap / BTreeMap: a map that keeps insertion order (the order is only observable for IndexMap)"""
    __slots__ = ("d",)

    def __init__(self, d=None):
        self.d = dict(d or {})

    def __repr__(self):
        return "%r" % (self.d,)


class ISet:
    __slots__ = ("s",)

    def __init__(self, s=None):
        self.s = []
        for x in s or []:
            self.add(x)

    def add(self, x):
        k = hkey(x)
        if any(hkey(y) == k for y in self.s):
            return False
        self.s.append(x)
        return True

    def has(self, x):
        k = hkey(x)
        return any(hkey(y) == k for y in self.s)

    def __repr__(self):
        return "{%s}" % ", ".join(repr(x) for x in self.s)


class Struct:
    __slots__ = ("name", "f")

    def __init__(self, name, fields):
        self.name, self.f = name, dict(fields)

    def __repr__(self):
        return "%s%r" % (self.name, self.f)


class Enum:
    """an enum value `Type::Variant(args)`; also Some / None / Ok / Err"""
    __slots__ = ("name", "args")

    def __init__(self, name, args=()):
        self.name, self.args = name, list(args)

    def __repr__(self):
        return self.name + ("(%s)" % ", ".join(repr(a) for a in self.args) if self.args else "")


class Opaque:
    """a value the model does not look into (error payloads, formatted text, kinds of other values)"""
    __slots__ = ("tag",)

    def __init__(self, tag):
        self.tag = tag

    def __repr__(self):
        return "<%s>" % self.tag


class Closure:
    __slots__ = ("params", "body", "env", "machine_self")

    def __init__(self, params, body, env):
        self.params, self.body, self.env = params, body, env


class It:
    """an iterator (a python iterator; adaptors are generators, i.e. lazy)"""
    __slots__ = ("it",)

    def __init__(self, items):
        self.it = iter(items)


NONE = Enum("None")
UNIT = ()


def some(v):
    return Enum("Some", [v])


def vseg(name, n=2):
    return "::".join(name.replace(" ", "").split("::")[-n:])


def same_variant(a, b):
    """`Value::Table` == `mech_core::Value::Table` == (imported) `Table`: compared on the segments both sides spell"""
    sa, sb = a.replace(" ", "").split("::"), b.replace(" ", "").split("::")
    sa = [re.sub(r"<.*$", "", x) for x in sa if x]
    sb = [re.sub(r"<.*$", "", x) for x in sb if x]
    n = min(len(sa), len(sb), 2)
    return sa[-n:] == sb[-n:]


def hkey(v):
    """a hashable identity for map keys / set members"""
    v = D(v)
    if isinstance(v, (bool, int, str)):
        return (type(v).__name__, v)
    if isinstance(v, tuple):
        return ("t",) + tuple(hkey(x) for x in v)
    if isinstance(v, Enum):
        return ("e", vseg(v.name)) + tuple(hkey(x) for x in v.args)
    if isinstance(v, Cell):
        return ("c", hkey(v.v))
    if isinstance(v, Vec):
        return ("v",) + tuple(hkey(x) for x in v.items)
    raise NoEval("key of %s" % type(v).__name__)


def eq(a, b):
    a, b = D(a), D(b)
    if isinstance(a, Cell) and isinstance(b, Cell):
        return eq(a.v, b.v)
    if isinstance(a, Enum) and isinstance(b, Enum):
        return same_variant(a.name, b.name) and len(a.args) == len(b.args) and all(eq(x, y) for x, y in zip(a.args, b.args))
    if isinstance(a, Vec) and isinstance(b, Vec):
        return len(a.items) == len(b.items) and all(eq(x, y) for x, y in zip(a.items, b.items))
    if isinstance(a, tuple) and isinstance(b, tuple):
        return len(a) == len(b) and all(eq(x, y) for x, y in zip(a, b))
    if isinstance(a, Struct) and isinstance(b, Struct):
        return a.name == b.name and set(a.f) == set(b.f) and all(eq(a.f[k], b.f[k]) for k in a.f)
    if isinstance(a, IMap) and isinstance(b, IMap):
        return set(a.d) == set(b.d) and all(eq(a.d[k][1], b.d[k][1]) for k in a.d)
    if isinstance(a, ISet) and isinstance(b, ISet):
        return {hkey(x) for x in a.s} == {hkey(x) for x in b.s}
    if isinstance(a, (Opaque, Closure, It)) or isinstance(b, (Opaque, Closure, It)):
        raise NoEval("comparison of opaque values")
    if type(a) is not type(b) and not (isinstance(a, int) and isinstance(b, int) and not isinstance(a, bool) and not isinstance(b, bool)):
        return False
    return a == b


def clone(v):
    """Clone::clone - deep, except that a Ref<T> clone is another handle on the same cell"""
    v = D(v)
    if isinstance(v, Vec):
        return Vec([clone(x) for x in v.items])
    if isinstance(v, IMap):
        return IMap({k: (kk, clone(x)) for k, (kk, x) in v.d.items()})
    if isinstance(v, ISet):
        return ISet(v.s)
    if isinstance(v, Struct):
        return Struct(v.name, {k: clone(x) for k, x in v.f.items()})
    if isinstance(v, Enum):
        return Enum(v.name, [clone(x) for x in v.args])
    if isinstance(v, tuple):
        return tuple(clone(x) for x in v)
    return v


class Env:
    __slots__ = ("vars", "up", "types")

    def __init__(self, up=None):
        self.vars, self.up, self.types = {}, up, {}

    def type_of(self, n):
        e = self
        while e is not None:
            if n in e.vars or n in e.types:
                return e.types.get(n)
            e = e.up
        return None

    def find(self, n):
        e = self
        while e is not None:
            if n in e.vars:
                return e
            e = e.up
        return None


def is_matrix(v):
    return isinstance(v, Enum) and vseg(v.name).startswith("Matrix::") and len(v.args) == 1 and isinstance(D(v.args[0]), Cell) and isinstance(D(v.args[0]).v, Vec)


def _int_of(tok):
    m = re.match(r"^\d[\d_]*", str(tok))
    if not m:
        raise NoEval("integer literal %s" % tok)
    return int(m.group(0).replace("_", ""))


MAP_T = re.compile(r"\b(IndexMap|HashMap|BTreeMap)\b")
SET_T = re.compile(r"\b(IndexSet|HashSet|BTreeSet)\b")
VEC_T = re.compile(r"^&?(mut)?(Vec|VecDeque|DVector|RowDVector|Box<\[)|^&?(mut)?\[")


def generic_args(ty):
    """`Vec<HashMap<u64,Value>>` -> ("Vec", ["HashMap<u64,Value>"]); references and `mut` are dropped"""
    ty = re.sub(r"^&(mut)?", "", (ty or "").replace(" ", ""))
    ty = re.sub(r"^mut(?=[A-Z&])", "", ty)
    i = ty.find("<")
    if i < 0 or not ty.endswith(">"):
        return ty, []
    head, inner = ty[:i], ty[i + 1:-1]
    out, depth, cur = [], 0, ""
    for ch in inner:
        if ch in "<([":
            depth += 1
        elif ch in ">)]":
            depth -= 1
        if ch == "," and depth == 0:
            out.append(cur)
            cur = ""
        else:
            cur += ch
    if cur:
        out.append(cur)
    return head, out


def inner_type(ty, heads):
    """the first type argument of ty when its head (last path segment) is one of `heads`, else None"""
    if not ty:
        return None
    head, args = generic_args(ty)
    if head.split("::")[-1] in heads and args:
        return args[0]
    return None


_INDEX = {}


def _index(item_lists):
    """(self type, method name) -> [item], free function name -> [item]; built once per set of fact lists"""
    key = tuple(id(x) for x in item_lists)
    if key not in _INDEX:
        methods, fns, variants, sfields = {}, {}, {}, {}
        for items in item_lists:
            for it in items:
                if it.get("k") == "method" and it.get("body") is not None:
                    st = re.sub(r"<.*$", "", (it.get("self") or "").replace(" ", ""))
                    methods.setdefault((st, it["name"]), []).append(it)
                elif it.get("k") == "fn" and it.get("body") is not None:
                    fns.setdefault(it["name"], []).append(it)
                elif it.get("k") == "enum":
                    for v in it.get("variants") or []:
                        variants.setdefault(v["name"], set()).add(it["name"])
                elif it.get("k") == "struct":
                    sfields.setdefault(it["name"], {}).update({f[0]: (f[1] or "").replace(" ", "") for f in it.get("fields") or [] if f[0]})
        _INDEX[key] = (methods, fns, item_lists, variants, sfields)      # the lists are kept alive so that their ids stay unique
    return _INDEX[key][0], _INDEX[key][1], _INDEX[key][3], _INDEX[key][4]


class Machine:
    """evaluates function items of the given crates' syn facts over the model"""

    def __init__(self, item_lists, fuel=400000, prims=None):
        self.fuel = fuel
        self.methods = {}          # (self type, name) -> [item]
        self.fns = {}              # name -> [item]
        self.struct_hits = []      # id() of every struct-literal node evaluated, in order
        self.prims = prims or {}   # free-function name -> python callable (interface functions given a model by the rule)
        self.depth = 0
        self.methods, self.fns, self.variants, self.sfields = _index(item_lists)
        self.cur_ret = None
        self.signed = False     # set as soon as the evaluated code computes with a signed integer

    # ------------------------------------------------------------ calling items
    def call_item(self, it, self_val, args):
        env = Env()
        params = [p for p in it["sig"]["inputs"]]
        k = 0
        for p in params:
            if p and p[0] == "self":
                env.vars["self"] = self_val
                continue
            if k >= len(args):
                raise NoEval("arity of %s" % it["name"])
            if not self.match(p[0], args[k], env):
                raise NoEval("parameter pattern of %s" % it["name"])
            if p[0][0] == "pident":
                env.types[p[0][1]] = (p[1] or "").replace(" ", "")
            k += 1
        if k != len(args):
            raise NoEval("arity of %s" % it["name"])
        self.depth += 1
        if self.depth > 40:
            raise NoEval("call depth")
        saved = getattr(self, "cur_self", None)
        saved_ret = self.cur_ret
        self.cur_self = re.sub(r"<.*$", "", (it.get("self") or "").replace(" ", "")) or saved
        self.cur_ret = (it["sig"].get("ret") or "").replace(" ", "")
        try:
            return self.block(it["body"], Env(env), want=self.cur_ret)
        except _Return as r:
            return r.value
        finally:
            self.depth -= 1
            self.cur_self = saved
            self.cur_ret = saved_ret

    def find_method(self, tyname, name, nargs):
        c = [it for it in self.methods.get((tyname, name), []) if len([p for p in it["sig"]["inputs"] if not (p and p[0] == "self")]) == nargs]
        if len(c) == 1:
            return c[0]
        if len(c) > 1:
            # the same method generated for several cfg / trait contexts: identical bodies are one method
            import json
            if len({json.dumps(x["body"]) for x in c}) == 1:
                return c[0]
            raise NoEval("ambiguous method %s::%s" % (tyname, name))
        return None

    def call_closure(self, f, args):
        f = D(f)
        if isinstance(f, Closure):
            env = Env(f.env)
            if len(f.params) != len(args):
                raise NoEval("closure arity")
            for p, a in zip(f.params, args):
                if not self.match(p, a, env):
                    raise NoEval("closure parameter pattern")
            saved_ret = self.cur_ret
            self.cur_ret = None
            try:
                return self.E(f.body, env)
            except _Return as r:
                return r.value
            finally:
                self.cur_ret = saved_ret
        if isinstance(f, tuple) and len(f) == 2 and f[0] == "fnref":
            return self.call_path(f[1], list(args), None)
        if isinstance(f, tuple) and len(f) == 2 and f[0] == "fnitem":
            return self.call_item(f[1], None, list(args))
        raise NoEval("call of a non-closure")

    # ------------------------------------------------------------ patterns
    def match(self, p, v, env):
        t = p[0]
        if t == "pwild" or t == "prest":
            return True
        if t == "ptype":
            return self.match(p[1], v, env)
        if t == "pref":
            return self.match(p[2], v, env)
        if t == "pident":
            if p[4] is None and not p[2] and not p[3] and p[1][:1].isupper() and (p[1] in self.variants or p[1] == "None") and env.find(p[1]) is None:
                dv = D(v)
                if isinstance(dv, Enum):
                    return same_variant(p[1], dv.name) and not dv.args
                if isinstance(dv, Opaque):
                    raise NoEval("pattern against an opaque value")
                return False
            if p[4] is not None and not self.match(p[4], v, env):
                return False
            # a binding that is not `ref` / `ref mut` of a by-value scalar holds the value itself
            env.vars[p[1]] = v
            return True
        v = D(v)
        if t == "ptuple":
            if not isinstance(v, tuple):
                raise NoEval("tuple pattern against %s" % type(v).__name__)
            return self.match_seq(p[1], list(v), env)
        if t == "pslice":
            if not isinstance(v, Vec):
                raise NoEval("slice pattern against %s" % type(v).__name__)
            return self.match_seq(p[1], v.items, env)
        if t == "pts":
            if isinstance(v, Enum):
                if not same_variant(p[1], v.name):
                    return False
                return self.match_seq(p[2], v.args, env)
            if isinstance(v, Struct) and same_variant(p[1], v.name):
                return self.match_seq(p[2], [v.f[str(i)] for i in range(len(v.f))], env)
            if isinstance(v, Opaque):
                raise NoEval("pattern against an opaque value")
            return False
        if t == "ppath":
            if isinstance(v, Enum):
                return same_variant(p[1], v.name) and not v.args
            if isinstance(v, Opaque):
                raise NoEval("pattern against an opaque value")
            if isinstance(v, (int, str, bool)):
                raise NoEval("constant pattern %s" % p[1])
            return False
        if t == "plit":
            return eq(self.E(p[1], env), v)
        if t == "por":
            for q in p[1]:
                e2 = Env(env)
                if self.match(q, v, e2):
                    env.vars.update(e2.vars)
                    return True
            return False
        if t == "pstruct":
            if isinstance(v, Struct) and same_variant(p[1], v.name):
                for fname, fp in p[2]:
                    if fname not in v.f or not self.match(fp, v.f[fname], env):
                        return False
                return True
            if isinstance(v, Opaque):
                raise NoEval("pattern against an opaque value")
            return False
        if t == "prange":
            m = re.match(r"^(\d+)?(\.\.=?)(\d+)?$", str(p[1]).replace(" ", ""))
            if not m or not isinstance(v, int) or isinstance(v, bool):
                raise NoEval("range pattern")
            lo = int(m.group(1)) if m.group(1) else None
            hi = int(m.group(3)) if m.group(3) else None
            if lo is not None and v < lo:
                return False
            if hi is not None and (v > hi if m.group(2) == "..=" else v >= hi):
                return False
            return True
        raise NoEval("pattern %s" % t)

    def match_seq(self, pats, vals, env):
        rest = [i for i, q in enumerate(pats) if q[0] == "prest" or (q[0] == "pident" and q[4] is not None and q[4][0] == "prest")]
        if not rest:
            return len(pats) == len(vals) and all(self.match(q, x, env) for q, x in zip(pats, vals))
        i = rest[0]
        before, after = pats[:i], pats[i + 1:]
        if len(vals) < len(before) + len(after):
            return False
        if pats[i][0] == "pident":
            env.vars[pats[i][1]] = Vec(vals[len(before):len(vals) - len(after)])
        return all(self.match(q, x, env) for q, x in zip(before, vals)) and all(self.match(q, x, env) for q, x in zip(after, vals[len(vals) - len(after):]))

    # ------------------------------------------------------------ statements
    def block(self, stmts, env, want=None):
        last = UNIT
        n = len(stmts)
        for i, st in enumerate(stmts):
            self.fuel -= 1
            if self.fuel < 0:
                raise NoEval("fuel")
            k = st[0]
            if k == "let":
                if st[2] is None:
                    for b in _idents(st[1]):
                        env.vars[b] = None
                    last = UNIT
                    continue
                ty = st[1][2] if st[1][0] == "ptype" else None
                if ty and st[1][1][0] == "pident":
                    env.types[st[1][1][1]] = str(ty).replace(" ", "")
                if ty and re.search(r"\bi(8|16|32|64|128|size)\b", str(ty)):
                    self.signed = True
                v = self.E(st[2], env, want=ty)
                if not self.match(st[1], v, env):
                    if len(st) > 3 and st[3] is not None:
                        self.E(st[3], env)
                        raise NoEval("let-else that does not diverge")
                    raise NoEval("refutable let")
                last = UNIT
            elif k == "expr":
                v = self.E(st[1], env, want=want if (i == n - 1 and not st[2]) else None)
                last = UNIT if st[2] else v
            elif k == "item":
                # a function declared inside the body: callable by its name from here on
                for sub in st[1] if isinstance(st[1], list) else []:
                    if isinstance(sub, dict) and sub.get("k") == "fn" and sub.get("body") is not None:
                        env.vars[sub["name"]] = ("fnitem", sub)
                last = UNIT
            else:
                raise NoEval("statement %s" % k)
        return last

    # ------------------------------------------------------------ expressions
    def truth(self, v):
        v = D(v)
        if not isinstance(v, bool):
            raise NoEval("condition is not a bool (%s)" % type(v).__name__)
        return v

    def cond(self, c, env):
        """a condition, possibly an `if let` / let-chain: binds into env"""
        if is_node(c) and c[0] == "letc":
            return self.match(c[1], self.E(c[2], env), env)
        if is_node(c) and c[0] == "bin" and c[1] == "&&":
            return self.cond(c[2], env) and self.cond(c[3], env)
        return self.truth(self.E(c, env))

    def E(self, e, env, want=None):
        self.fuel -= 1
        if self.fuel < 0:
            raise NoEval("fuel")
        if e is None:
            return UNIT
        if not is_node(e):
            raise NoEval("expression %s" % str(e)[:30])
        t = e[0]
        if t == "path":
            return self.path(e[1], env)
        if t == "int":
            if len(e) > 2 and str(e[2] or "").startswith("i"):
                self.signed = True
            return _int_of(e[1])
        if t == "bool":
            return bool(e[1])
        if t in ("str", "char"):
            return e[1]
        if t == "lit":
            raise NoEval("literal %s" % str(e[1])[:20])
        if t == "ref" or t == "rawaddr":
            inner = e[2]
            if e[1] and is_node(inner) and inner[0] == "path" and "::" not in inner[1]:
                # `&mut local`: a reference to the local itself
                sc = env.find(inner[1])
                if sc is not None and not isinstance(sc.vars[inner[1]], (Ptr, Vec, IMap, ISet, Struct, Cell)):
                    name = inner[1]

                    def s(v, sc=sc, name=name):
                        sc.vars[name] = v
                    return Ptr(lambda sc=sc, name=name: sc.vars[name], s)
            return self.E(inner, env, want)
        if t == "un":
            if e[1] == "*":
                v = self.E(e[2], env)
                return v.get() if isinstance(v, Ptr) else v
            v = D(self.E(e[2], env))
            if e[1] == "!":
                if isinstance(v, bool):
                    return not v
                raise NoEval("! of %s" % type(v).__name__)
            if e[1] == "-" and isinstance(v, int):
                self.signed = True
                return -v
            raise NoEval("unary %s" % e[1])
        if t == "cast":
            v = D(self.E(e[1], env))
            ty = str(e[2]).replace(" ", "")
            if isinstance(v, bool) and re.match(r"^[ui](8|16|32|64|128|size)$", ty):
                return int(v)
            if isinstance(v, int) and re.match(r"^[ui](8|16|32|64|128|size)$", ty):
                if ty[0] == "i":
                    self.signed = True
                if v < 0 and ty[0] == "u":
                    raise NoEval("cast of a negative number")
                return v
            raise NoEval("cast to %s" % ty)
        if t in ("block", "unsafe"):
            return self.block(e[1], Env(env), want)
        if t == "tuple":
            return tuple(self.E(x, env) for x in e[1])
        if t == "array":
            return Vec([self.E(x, env) for x in e[1]])
        if t == "repeat":
            n = D(self.E(e[2], env))
            v = self.E(e[1], env)
            return Vec([clone(v) for _ in range(n)])
        if t == "field":
            b = D(self.E(e[1], env))
            f = str(e[2])
            if isinstance(b, Struct):
                if f in b.f:
                    return b.f[f]
                raise NoEval("field %s of %s" % (f, b.name))
            if isinstance(b, tuple) and f.isdigit() and int(f) < len(b):
                return b[int(f)]
            if isinstance(b, Enum) and f.isdigit() and int(f) < len(b.args):
                return b.args[int(f)]
            raise NoEval("field .%s of %s" % (f, type(b).__name__))
        if t == "index":
            b = D(self.E(e[1], env))
            i = D(self.E(e[2], env))
            return self.index(b, i)
        if t == "range":
            lo = D(self.E(e[1], env)) if e[1] is not None else None
            hi = D(self.E(e[2], env)) if e[2] is not None else None
            return ("range", lo, hi, bool(e[3]))
        if t == "bin":
            return self.binop(e, env)
        if t == "assign":
            # `x = it.collect()`: the container type is the one x already has
            hint = None
            if is_node(e[2]) and e[2][0] == "mcall" and e[2][2] == "collect" and not e[2][3] and e[1][0] in ("path", "field"):
                try:
                    cur = D(self.E(e[1], env))
                    hint = "IndexMap" if isinstance(cur, IMap) else "HashSet" if isinstance(cur, ISet) else "Vec" if isinstance(cur, Vec) else None
                except NoEval:
                    hint = None
            self.assign(e[1], self.E(e[2], env, want=hint), env)
            return UNIT
        if t == "if":
            env2 = Env(env)
            if self.cond(e[1], env2):
                return self.block(e[2], env2, want)
            if e[3] is not None:
                return self.E(e[3], env, want)
            return UNIT
        if t == "letc":
            return self.match(e[1], self.E(e[2], env), env)
        if t == "match":
            s = self.E(e[1], env)
            for arm in e[2]:
                env2 = Env(env)
                if self.match(arm[0], s, env2) and (arm[1] is None or self.cond(arm[1], env2)):
                    return self.E(arm[2], env2, want)
            raise Panic("no match arm applies")
        if t == "for":
            src = self.iterate(self.E(e[2], env))
            for x in src:
                env2 = Env(env)
                if not self.match(e[1], x, env2):
                    raise NoEval("for pattern")
                try:
                    self.block(e[3], env2)
                except _Continue:
                    continue
                except _Break:
                    break
            return UNIT
        if t == "while":
            while True:
                env2 = Env(env)
                if not self.cond(e[1], env2):
                    break
                self.fuel -= 1
                if self.fuel < 0:
                    raise NoEval("fuel")
                try:
                    self.block(e[2], env2)
                except _Continue:
                    continue
                except _Break:
                    break
            return UNIT
        if t == "loop":
            while True:
                self.fuel -= 1
                if self.fuel < 0:
                    raise NoEval("fuel")
                try:
                    self.block(e[1], Env(env))
                except _Continue:
                    continue
                except _Break as b:
                    return b.value if b.value is not None else UNIT
        if t == "break":
            raise _Break(self.E(e[1], env) if len(e) > 1 and e[1] is not None else None)
        if t == "continue":
            raise _Continue()
        if t == "ret":
            raise _Return(self.E(e[1], env, want=self.cur_ret) if e[1] is not None else UNIT)
        if t == "try":
            v = D(self.E(e[1], env))
            if isinstance(v, Enum):
                n = vseg(v.name, 1)
                if n in ("Ok", "Some"):
                    return v.args[0]
                if n in ("Err", "None"):
                    raise _Return(v)
            raise NoEval("? on %s" % type(v).__name__)
        if t == "closure":
            return Closure(e[1], e[2], env)
        if t == "struct":
            self.struct_hits.append(id(e))
            fields = {}
            if len(e) > 3 and e[3] is not None:
                base = D(self.E(e[3], env))
                if not isinstance(base, Struct):
                    raise NoEval("struct update base")
                fields.update({k: clone(v) for k, v in base.f.items()})
            name = e[1].replace(" ", "")
            if name == "Self" or name.startswith("Self::"):
                name = (getattr(self, "cur_self", None) or "Self") + name[4:]
            ftypes = self.sfields.get(re.sub(r"<.*$", "", name).split("::")[-1], {})
            for f in e[2]:
                fields[str(f[0])] = D_keep(self.E(f[1], env, want=ftypes.get(str(f[0]))))
            return Struct(re.sub(r"<.*$", "", name).split("::")[-1], fields)
        if t == "call":
            return self.call(e, env, want)
        if t == "mcall":
            return self.mcall(e, env, want)
        if t == "macro":
            n = e[1].split("::")[-1]
            if n in ("panic", "unreachable", "todo", "unimplemented"):
                raise Panic(n + "!")
            if n in ("format_args", "format", "println", "print", "eprintln", "eprint", "write", "writeln", "trace", "debug", "info", "warn", "error"):
                return Opaque("text")
            raise NoEval("macro %s!" % n)
        raise NoEval("expression %s" % t)

    # ---- names
    def path(self, p, env):
        p = p.replace(" ", "")
        if "::" not in p:
            sc = env.find(p)
            if sc is not None:
                return sc.vars[p]
            if p == "None":
                return NONE
            if p in self.fns:
                return ("fnref", p)
            if p[:1].isupper() and len(self.variants.get(p, ())) == 1:
                # a unit variant imported by `use Enum::*`
                return Enum("%s::%s" % (next(iter(self.variants[p])), p))
            raise NoEval("name %s" % p)
        segs = p.split("::")
        if segs[-1].isupper() and len(segs[-1]) > 1:
            # an associated / module-level constant: its value is not part of the model
            raise NoEval("constant %s" % p)
        if segs[-1][:1].isupper():
            # a unit variant spelled Type::Name
            return Enum(p)
        return ("fnref", p)

    # ---- arithmetic
    def binop(self, e, env):
        op = e[1]
        if op == "&&":
            return self.truth(self.E(e[2], env)) and self.truth(self.E(e[3], env))
        if op == "||":
            return self.truth(self.E(e[2], env)) or self.truth(self.E(e[3], env))
        if op.endswith("=") and op not in ("==", "!=", "<=", ">="):
            cur = D(self.E(e[2], env))
            val = self.arith(op[:-1], cur, D(self.E(e[3], env)))
            self.assign(e[2], val, env)
            return UNIT
        return self.arith(op, D(self.E(e[2], env)), D(self.E(e[3], env)))

    def arith(self, op, a, b):
        if op == "==":
            return eq(a, b)
        if op == "!=":
            return not eq(a, b)
        if isinstance(a, bool) and isinstance(b, bool) and op in ("&", "|", "^"):
            return {"&": a and b, "|": a or b, "^": a != b}[op]
        if isinstance(a, str) and isinstance(b, str) and op in ("<", ">", "<=", ">="):
            return {"<": a < b, ">": a > b, "<=": a <= b, ">=": a >= b}[op]
        if not (isinstance(a, int) and isinstance(b, int)) or isinstance(a, bool) or isinstance(b, bool):
            raise NoEval("operator %s on %s, %s" % (op, type(a).__name__, type(b).__name__))
        if op == "+":
            return a + b
        if op == "-":
            if a - b < 0:
                if self.signed:
                    # signed arithmetic was seen in this run: the model does not track which integers are signed
                    raise NoEval("a negative difference after signed arithmetic")
                # every integer computed with so far is an unsigned size / index: the subtraction overflows (a panic in the analysed debug build)
                raise Panic("attempt to subtract with overflow (%d - %d)" % (a, b))
            return a - b
        if op == "*":
            return a * b
        if op in ("/", "%"):
            if b == 0:
                raise Panic("division by zero")
            return a // b if op == "/" else a % b
        if op in ("<", ">", "<=", ">="):
            return {"<": a < b, ">": a > b, "<=": a <= b, ">=": a >= b}[op]
        raise NoEval("operator %s" % op)

    # ---- places
    def assign(self, lhs, val, env):
        val = D_keep(val)
        t = lhs[0]
        if t == "path" and "::" not in lhs[1]:
            sc = env.find(lhs[1])
            if sc is None:
                raise NoEval("assignment to %s" % lhs[1])
            sc.vars[lhs[1]] = val
            return
        if t == "un" and lhs[1] == "*":
            tgt = self.E(lhs[2], env)
            if isinstance(tgt, Ptr) and tgt.set is not None:
                # `*r = v` through a reference to a reference writes the innermost place
                while isinstance(tgt.get(), Ptr) and tgt.get().set is not None:
                    tgt = tgt.get()
                tgt.set(val)
                return
            raise NoEval("store through a value that is not a modelled reference")
        if t == "field":
            b = D(self.E(lhs[1], env))
            if isinstance(b, Struct) and str(lhs[2]) in b.f:
                b.f[str(lhs[2])] = val
                return
            raise NoEval("store to field .%s of %s" % (lhs[2], type(b).__name__))
        if t == "index":
            b = D(self.E(lhs[1], env))
            i = D(self.E(lhs[2], env))
            if isinstance(b, Vec) and isinstance(i, int) and not isinstance(i, bool):
                if not (0 <= i < len(b.items)):
                    raise Panic("index out of bounds: the len is %d but the index is %d" % (len(b.items), i))
                b.items[i] = val
                return
            if is_matrix(b) and isinstance(i, int):
                return self.assign_vec(D(b.args[0]).v, i, val)
            if isinstance(b, IMap):
                k = hkey(i)
                if k not in b.d:
                    raise Panic("key not found")
                b.d[k] = (b.d[k][0], val)
                return
            raise NoEval("indexed store into %s" % type(b).__name__)
        if t in ("paren",):
            return self.assign(lhs[1], val, env)
        raise NoEval("assignment target %s" % t)

    def assign_vec(self, vec, i, val):
        if not (0 <= i < len(vec.items)):
            raise Panic("index out of bounds: the len is %d but the index is %d" % (len(vec.items), i))
        vec.items[i] = val

    def index(self, b, i):
        if isinstance(b, Cell):
            b = b.v
        if isinstance(b, Vec):
            if isinstance(i, tuple) and len(i) == 4 and i[0] == "range":
                lo = i[1] or 0
                hi = len(b.items) if i[2] is None else i[2] + (1 if i[3] else 0)
                if not (0 <= lo <= hi <= len(b.items)):
                    raise Panic("slice index out of range")
                return Vec(b.items[lo:hi])
            if isinstance(i, tuple) and len(i) == 2 and all(isinstance(x, int) for x in i):
                # nalgebra (row, col) on a column vector
                if i[1] != 0:
                    raise Panic("matrix index out of bounds")
                i = i[0]
            if isinstance(i, int) and not isinstance(i, bool):
                if not (0 <= i < len(b.items)):
                    raise Panic("index out of bounds: the len is %d but the index is %d" % (len(b.items), i))
                return b.items[i]
        if isinstance(b, IMap):
            k = hkey(i)
            if k not in b.d:
                raise Panic("key not found")
            return b.d[k][1]
        raise NoEval("index into %s" % type(b).__name__)

    # ---- iteration
    def iterate(self, v):
        v = D(v)
        if isinstance(v, It):
            return v.it
        if isinstance(v, Vec):
            return list(v.items)
        if isinstance(v, IMap):
            return [(kk, x) for kk, x in v.d.values()]
        if isinstance(v, ISet):
            return list(v.s)
        if isinstance(v, tuple) and len(v) == 4 and v[0] == "range":
            if v[1] is None or v[2] is None:
                raise NoEval("unbounded range")
            return list(range(v[1], v[2] + (1 if v[3] else 0)))
        if isinstance(v, Enum) and vseg(v.name, 1) in ("Some", "None"):
            return list(v.args)
        if isinstance(v, Cell):
            return self.iterate(v.v)
        if is_matrix(v):
            return list(D(v.args[0]).v.items)
        raise NoEval("iteration over %s" % type(v).__name__)

    # ---- calls
    def call(self, e, env, want):
        f = e[1]
        if not (is_node(f) and f[0] == "path"):
            fv = self.E(f, env)
            return self.call_closure(fv, [self.E(a, env) for a in e[2]])
        p = f[1].replace(" ", "")
        if "::" not in p:
            sc = env.find(p)
            if sc is not None:
                return self.call_closure(sc.vars[p], [self.E(a, env) for a in e[2]])
        last = p.split("::")[-1]
        if last == "Err" and len(e[2]) == 1:
            try:
                return Enum("Err", [self.E(e[2][0], env)])
            except NoEval:
                return Enum("Err", [Opaque("error")])
        wants = self.arg_wants(p, len(e[2]), want)
        return self.call_path(p, [self.E(a, env, want=w) for a, w in zip(e[2], wants)], want)

    def arg_wants(self, p, n, want):
        """the declared types the arguments of a call are evaluated against (only `collect()` looks at them)"""
        segs = p.split("::")
        last = re.sub(r"<.*$", "", segs[-1])
        own = re.sub(r"<.*$", "", segs[-2]) if len(segs) > 1 else ""
        if n == 1 and last in ("Some", "Ok") and len(segs) <= 2:
            return [inner_type(want, ("Option", "Result", "MResult"))]
        if n == 1 and own in ("Box", "Rc", "Arc", "Ref", "RefCell") and last == "new":
            return [inner_type(want, (own,)) or want]
        cands = []
        if own and own[:1].isupper():
            ty = (getattr(self, "cur_self", None) or "") if own == "Self" else own
            cands = self.methods.get((ty, last), [])
        elif len(segs) == 1 or segs[-2] in ("self", "super", "crate") or segs[-2][:1].islower():
            cands = self.fns.get(last, [])
        for it in cands:
            ins = [q for q in it["sig"]["inputs"]]
            if len(ins) == n and not any(q and q[0] == "self" for q in ins):
                return [(q[1] or "").replace(" ", "") for q in ins]
            if len(ins) == n and ins and ins[0][0] == "self":
                return [None] + [(q[1] or "").replace(" ", "") for q in ins[1:]]
        return [None] * n

    def call_path(self, p, args, want):
        segs = p.split("::")
        last = re.sub(r"<.*$", "", segs[-1])
        own = re.sub(r"<.*$", "", segs[-2]) if len(segs) > 1 else ""
        if "panicking" in segs or last in ("panic_fmt", "begin_panic", "assert_failed", "unreachable_unchecked"):
            raise Panic("explicit panic")
        if last in ("Some", "Ok") and len(args) == 1 and len(segs) <= 2:
            return Enum(last, [D_keep(args[0])])
        if last in self.prims and len(segs) <= 2:
            return self.prims[last](*[D(a) for a in args])
        if own in ("Box", "Rc", "Arc", "Cow") and last in ("new", "from", "pin"):
            return args[0]
        if own in ("Ref", "RefCell", "Cell", "Mutex", "RwLock") and last == "new" and len(args) == 1:
            if own == "Ref" or own == "RefCell":
                return Cell(D(args[0]))
        if last in ("new", "with_capacity", "default") and own in ("Vec", "VecDeque"):
            return Vec()
        if last in ("new", "with_capacity", "default") and MAP_T.search(own):
            return IMap()
        if last in ("new", "with_capacity", "default") and SET_T.search(own):
            return ISet()
        if own == "String" and last in ("new", "from", "default"):
            return D(args[0]) if args else ""
        if last == "from_elem" and "vec" in segs and len(args) == 2:
            return Vec([clone(args[0]) for _ in range(D(args[1]))])
        if last == "into_vec" and len(args) == 1:
            return D(args[0])
        # the expansion of `vec![a, b, ..]` on the analysis toolchain: box_assume_init_into_vec_unsafe(write_box_via_move(Box::new_uninit(), [a, b, ..]))
        if last == "box_assume_init_into_vec_unsafe" and len(args) == 1:
            return D(args[0])
        if last == "write_box_via_move" and len(args) == 2:
            return args[1]
        if own == "Box" and last in ("new_uninit",) and not args:
            return UNIT
        if last == "box_new" and len(args) == 1:
            return args[0]
        if own in ("DVector", "RowDVector") and last in ("from_vec", "from_row_slice", "from_column_slice", "from_iterator") and args:
            src = args[-1]
            return Vec(self.iterate(src))
        if own in ("DVector", "RowDVector") and last == "from_element" and len(args) == 2:
            return Vec([clone(args[1]) for _ in range(D(args[0]))])
        if own in ("DVector", "RowDVector") and last == "zeros" and len(args) == 1:
            raise NoEval("zeros of an unknown element kind")
        if last == "drop" and len(args) == 1:
            return UNIT
        if last in ("min", "max") and len(args) == 2 and all(isinstance(D(a), int) for a in args):
            a, b = D(args[0]), D(args[1])
            return min(a, b) if last == "min" else max(a, b)
        if own in ("mem",) and last == "take" and len(args) == 1:
            raise NoEval("mem::take")
        if last in ("must_use", "identity") and len(args) == 1:
            return args[0]
        if last == "format" and "fmt" in segs:
            return Opaque("text")
        if last in ("from", "into") and len(args) == 1 and own in ("usize", "u64", "u32", "i64", "From", "Into"):
            v = D(args[0])
            return int(v) if isinstance(v, bool) else args[0]
        if last == "try_from" and len(args) == 1 and own in ("usize", "u64", "u32", "u16", "u8", "i64", "isize") and isinstance(D(args[0]), int):
            v = D(args[0])
            return Enum("Ok", [v]) if (v >= 0 or own[0] == "i") else Enum("Err", [Opaque("error")])
        if last == "clone" and own == "Clone" and len(args) == 1:
            return clone(args[0])
        # an enum tuple-variant constructor `Type::Variant(args)`
        if last[:1].isupper() and len(segs) >= 2:
            return Enum(p, [D_keep(a) for a in args])
        # an associated function / method called by path: Type::f(..), Self::f(..), <T as Trait>::f(..)
        ty = own
        if ty == "Self":
            ty = getattr(self, "cur_self", None) or ""
        if ty and ty[:1].isupper():
            for n_recv in (0, 1):
                it = None
                if n_recv == 0:
                    c = [x for x in self.methods.get((ty, last), []) if not any(pp and pp[0] == "self" for pp in x["sig"]["inputs"])]
                    c = [x for x in c if len(x["sig"]["inputs"]) == len(args)]
                    it = c[0] if len(c) == 1 else None
                    if it is not None:
                        return self.call_item(it, None, args)
                elif args:
                    it = self.find_method(ty, last, len(args) - 1)
                    if it is not None and any(pp and pp[0] == "self" for pp in it["sig"]["inputs"]):
                        return self.call_item(it, args[0], args[1:])
            raise NoEval("function %s" % p)
        # a free function of the analysed crates
        cands = [x for x in self.fns.get(last, []) if len(x["sig"]["inputs"]) == len(args)]
        if len(cands) > 1:
            import json
            if len({json.dumps(x["body"]) for x in cands}) == 1:
                cands = cands[:1]
        if len(cands) == 1 and (len(segs) == 1 or segs[-2] in ("self", "super", "crate") or segs[-2][:1].islower()):
            return self.call_item(cands[0], None, args)
        raise NoEval("function %s" % p)

    def mcall(self, e, env, want):
        m = e[2]
        recv_raw = self.E(e[1], env)
        # ---- the Ref<T> cell protocol (before auto-deref: these are methods OF the handle)
        rc = D(recv_raw)
        if isinstance(rc, Cell):
            if m in ("borrow", "borrow_mut", "as_ptr", "as_mut_ptr", "get_mut", "lock", "read", "write") and not e[4]:
                return cell_ptr(rc)
            if m == "clone" and not e[4]:
                return rc
            if m in ("as_ref", "as_mut", "deref", "deref_mut") and not e[4]:
                return cell_ptr(rc)
            if m in ("addr", "id") and not e[4]:
                return id(rc)
            if m in ("replace", "set") and len(e[4]) == 1:
                old = rc.v
                rc.v = D(self.E(e[4][0], env))
                return old
            rc = rc.v         # other methods auto-deref through Rc<RefCell<..>> only for Deref-able handles: treat as the content
        recv = rc
        # closures are evaluated lazily by the adaptor that takes them; all other arguments now
        wants = [None] * len(e[4])
        if m in ("push", "push_back", "push_front") and len(e[4]) == 1:
            base = e[1]
            while is_node(base) and (base[0] == "ref" or (base[0] == "un" and base[1] == "*")):
                base = base[2]
            rty = None
            if is_node(base) and base[0] == "path" and "::" not in base[1]:
                rty = env.type_of(base[1])
            elif is_node(base) and base[0] == "field" and is_node(base[1]) and base[1][0] == "path":
                owner = D(env.find(base[1][1]).vars[base[1][1]]) if env.find(base[1][1]) is not None else None
                if isinstance(owner, Struct):
                    rty = self.sfields.get(owner.name, {}).get(str(base[2]))
            wants = [inner_type(rty, ("Vec", "VecDeque"))]
        elif isinstance(recv, Struct):
            it0 = self.methods.get((recv.name.split("::")[-1], m), [])
            for it in it0:
                ins = [q for q in it["sig"]["inputs"] if not (q and q[0] == "self")]
                if len(ins) == len(e[4]):
                    wants = [(q[1] or "").replace(" ", "") for q in ins]
                    break
        args = [self.E(a, env, want=w) for a, w in zip(e[4], wants)]
        tf = (e[3] or "").replace(" ", "") if e[3] else ""
        # ---- source-defined methods of structs come first
        if isinstance(recv, Struct):
            it = self.find_method(recv.name.split("::")[-1], m, len(args))
            if it is not None and any(pp and pp[0] == "self" for pp in it["sig"]["inputs"]):
                return self.call_item(it, recv_raw if isinstance(recv_raw, Ptr) else recv, args)
            if m == "clone" and not args:
                return clone(recv)
            raise NoEval("method %s of %s" % (m, recv.name))
        return self.builtin(recv, recv_raw, m, args, want, tf)

    # ---- container / iterator protocol
    def builtin(self, recv, recv_raw, m, args, want, tf):
        A = [D(a) for a in args]
        if m in ("clone", "cloned", "to_owned") and not args and not isinstance(recv, It):
            if isinstance(recv, Enum) and vseg(recv.name, 1) in ("Some", "None"):
                return Enum(recv.name, [clone(x) for x in recv.args])
            return clone(recv)
        if m in ("copied",) and not args and not isinstance(recv, It):
            return clone(recv)
        if m in ("into", "as_ref", "as_mut", "borrow", "borrow_mut", "deref", "deref_mut", "as_deref", "by_ref", "to_vec", "as_slice", "as_mut_slice", "into_boxed_slice", "into_vec") and not args:
            if m == "to_vec":
                return clone(recv)
            return recv_raw if isinstance(recv_raw, Ptr) and isinstance(recv, (int, bool, str)) else recv
        if isinstance(recv, bool):
            if m == "not" and not args:
                return not recv
            if m == "then" and len(args) == 1:
                return some(self.call_closure(args[0], [])) if recv else NONE
            if m == "then_some" and len(args) == 1:
                return some(args[0]) if recv else NONE
        if isinstance(recv, int) and not isinstance(recv, bool):
            if m in ("min", "max") and len(A) == 1:
                return min(recv, A[0]) if m == "min" else max(recv, A[0])
            if m == "saturating_sub" and len(A) == 1:
                return max(0, recv - A[0])
            if m in ("saturating_add", "wrapping_add") and len(A) == 1:
                return recv + A[0]
            if m == "checked_sub" and len(A) == 1:
                return some(recv - A[0]) if recv >= A[0] else NONE
            if m == "checked_add" and len(A) == 1:
                return some(recv + A[0])
            if m == "abs_diff" and len(A) == 1:
                return abs(recv - A[0])
            if m == "pow" and len(A) == 1:
                return recv ** A[0]
            if m == "to_string" and not A:
                return str(recv)
            if m in ("eq", "ne", "lt", "le", "gt", "ge") and len(A) == 1:
                return {"eq": recv == A[0], "ne": recv != A[0], "lt": recv < A[0], "le": recv <= A[0], "gt": recv > A[0], "ge": recv >= A[0]}[m]
            if m in ("try_into", "try_from") and not A:
                return Enum("Ok", [recv])
            if m == "is_zero" and not A:
                return recv == 0
        if isinstance(recv, str):
            if m in ("to_string", "as_str", "to_owned", "into_string") and not A:
                return recv
            if m == "len" and not A:
                return len(recv.encode())
            if m == "is_empty" and not A:
                return recv == ""
            if m in ("eq", "ne") and len(A) == 1:
                return (recv == A[0]) == (m == "eq")
        if isinstance(recv, Opaque):
            return Opaque(recv.tag)
        if isinstance(recv, Enum):
            n = vseg(recv.name, 1)
            if n in ("Some", "None") and len(recv.name.split("::")) <= 3:
                return self.option(recv, n == "Some", m, args, A)
            if n in ("Ok", "Err") and len(recv.name.split("::")) <= 3:
                return self.result(recv, n == "Ok", m, args, A)
            if is_matrix(recv):
                return self.matrix(recv, m, A)
            segs_ = [re.sub(r"<.*$", "", x) for x in recv.name.replace(" ", "").split("::") if x]
            tys = [segs_[-2]] if len(segs_) >= 2 else sorted(self.variants.get(segs_[-1], ()))
            descr = m in ("kind", "to_string", "pretty_print", "to_html") and not A
            if len(tys) == 1:
                try:
                    it = self.find_method(tys[0], m, len(args))
                    if it is not None and any(pp and pp[0] == "self" for pp in it["sig"]["inputs"]):
                        return self.call_item(it, recv, args)
                except NoEval:
                    # a descriptor of a value (its kind, its text) that the model cannot compute stays opaque; anything else is outside the model
                    if not descr:
                        raise
            if descr:
                return Opaque(m)
            if m in ("eq", "ne") and len(A) == 1:
                return eq(recv, A[0]) == (m == "eq")
            raise NoEval("method %s of the enum value %s" % (m, vseg(recv.name)))
        if isinstance(recv, tuple) and len(recv) == 4 and recv[0] == "range":
            if m == "zip" and recv[2] is None and recv[1] is not None and len(A) == 1:
                return It((recv[1] + i, b) for i, b in enumerate(self.iterate(A[0])))
            if m in ("rev", "map", "filter", "filter_map", "collect", "step_by", "zip", "enumerate", "for_each", "count", "sum", "any", "all", "find", "position", "fold", "into_iter", "skip", "take", "flat_map", "chain", "last", "min", "max"):
                return self.iterator(It(self.iterate(recv)), m, args, A, want, tf)
            if m == "contains" and len(A) == 1:
                x = A[0]
                return (recv[1] is None or x >= recv[1]) and (recv[2] is None or (x <= recv[2] if recv[3] else x < recv[2]))
            if m == "len" and not A:
                return len(list(self.iterate(recv)))
            if m == "is_empty" and not A:
                return not list(self.iterate(recv))
        if isinstance(recv, It):
            return self.iterator(recv, m, args, A, want, tf)
        if isinstance(recv, Vec):
            return self.vec(recv, m, args, A, want, tf)
        if isinstance(recv, IMap):
            return self.imap(recv, m, args, A, want, tf)
        if isinstance(recv, ISet):
            return self.iset(recv, m, args, A, want, tf)
        if isinstance(recv, tuple):
            if m in ("eq", "ne") and len(A) == 1:
                return eq(recv, A[0]) == (m == "eq")
        if isinstance(recv, Closure):
            raise NoEval("method %s of a closure" % m)
        raise NoEval("method %s of %s" % (m, type(recv).__name__))

    def option(self, recv, is_some, m, args, A):
        x = recv.args[0] if is_some else None
        if m == "unwrap" or m == "expect":
            if not is_some:
                raise Panic("called `Option::unwrap()` on a `None` value")
            return x
        if m == "is_some":
            return is_some
        if m == "is_none":
            return not is_some
        if m == "unwrap_or" and len(args) == 1:
            return x if is_some else args[0]
        if m == "unwrap_or_else" and len(args) == 1:
            return x if is_some else self.call_closure(args[0], [])
        if m == "unwrap_or_default":
            if is_some:
                return x
            raise NoEval("default of an unknown type")
        if m == "map" and len(args) == 1:
            return some(D_keep(self.call_closure(args[0], [x]))) if is_some else NONE
        if m == "and_then" and len(args) == 1:
            return D(self.call_closure(args[0], [x])) if is_some else NONE
        if m == "filter" and len(args) == 1:
            return recv if is_some and self.truth(self.call_closure(args[0], [x])) else NONE
        if m == "or" and len(args) == 1:
            return recv if is_some else A[0]
        if m == "or_else" and len(args) == 1:
            return recv if is_some else D(self.call_closure(args[0], []))
        if m == "map_or" and len(args) == 2:
            return self.call_closure(args[1], [x]) if is_some else args[0]
        if m == "map_or_else" and len(args) == 2:
            return self.call_closure(args[1], [x]) if is_some else self.call_closure(args[0], [])
        if m in ("is_some_and",) and len(args) == 1:
            return is_some and self.truth(self.call_closure(args[0], [x]))
        if m in ("is_none_or",) and len(args) == 1:
            return (not is_some) or self.truth(self.call_closure(args[0], [x]))
        if m in ("ok_or", "ok_or_else") and len(args) == 1:
            if is_some:
                return Enum("Ok", [x])
            try:
                return Enum("Err", [args[0] if m == "ok_or" else self.call_closure(args[0], [])])
            except NoEval:
                return Enum("Err", [Opaque("error")])
        if m in ("cloned", "copied", "clone"):
            return Enum(recv.name, [clone(a) for a in recv.args])
        if m in ("as_ref", "as_mut", "as_deref", "iter", "into_iter", "take") and not args:
            if m in ("iter", "into_iter"):
                return It(recv.args)
            if m == "take":
                raise NoEval("Option::take")
            return recv
        if m in ("eq", "ne") and len(A) == 1:
            return eq(recv, A[0]) == (m == "eq")
        if m == "contains" and len(A) == 1:
            return is_some and eq(x, A[0])
        raise NoEval("Option::%s" % m)

    def result(self, recv, is_ok, m, args, A):
        x = recv.args[0]
        if m in ("unwrap", "expect"):
            if not is_ok:
                raise Panic("called `Result::unwrap()` on an `Err` value")
            return x
        if m in ("unwrap_err", "expect_err"):
            if is_ok:
                raise Panic("unwrap_err on Ok")
            return x
        if m == "is_ok":
            return is_ok
        if m == "is_err":
            return not is_ok
        if m == "ok":
            return some(x) if is_ok else NONE
        if m == "err":
            return NONE if is_ok else some(x)
        if m == "map" and len(args) == 1:
            return Enum("Ok", [D_keep(self.call_closure(args[0], [x]))]) if is_ok else recv
        if m == "map_err" and len(args) == 1:
            if is_ok:
                return recv
            try:
                return Enum("Err", [self.call_closure(args[0], [x])])
            except NoEval:
                return Enum("Err", [Opaque("error")])
        if m == "and_then" and len(args) == 1:
            return D(self.call_closure(args[0], [x])) if is_ok else recv
        if m == "unwrap_or" and len(args) == 1:
            return x if is_ok else args[0]
        if m == "unwrap_or_else" and len(args) == 1:
            return x if is_ok else self.call_closure(args[0], [x])
        if m in ("as_ref", "as_mut") and not args:
            return recv
        raise NoEval("Result::%s" % m)

    def matrix(self, recv, m, A):
        """the Matrix<T> storage interface over its vector variants"""
        vec = D(recv.args[0]).v
        n = len(vec.items)
        if m == "index1d" and len(A) == 1:
            i = A[0]
            if not isinstance(i, int) or isinstance(i, bool):
                raise NoEval("index1d argument")
            if not (1 <= i <= n):
                raise Panic("index1d(%d) on a column of %d elements (1-based)" % (i, n))
            return clone(vec.items[i - 1])
        if m == "set_index1d" and len(A) == 2:
            i = A[0]
            if not isinstance(i, int) or isinstance(i, bool):
                raise NoEval("set_index1d argument")
            if not (0 <= i < n):
                raise Panic("set_index1d(%d) on a column of %d elements (0-based)" % (i, n))
            vec.items[i] = A[1]
            return UNIT
        if m == "resize_vertically" and len(A) == 2:
            k = A[0]
            if not isinstance(k, int) or isinstance(k, bool):
                raise NoEval("resize_vertically argument")
            if vseg(recv.name, 1) not in ("DVector", "RowDVector"):
                return Enum("Err", [Opaque("error")])
            vec.items[:] = vec.items[:k] + [clone(A[1]) for _ in range(max(0, k - n))]
            return Enum("Ok", [UNIT])
        if m in ("len", "size") and not A:
            return n
        if m in ("rows", "nrows") and not A:
            return n if vseg(recv.name, 1) != "RowDVector" else 1
        if m in ("cols", "ncols") and not A:
            return 1 if vseg(recv.name, 1) != "RowDVector" else n
        if m == "shape" and not A:
            return Vec([n, 1] if vseg(recv.name, 1) != "RowDVector" else [1, n])
        if m == "as_vec" and not A:
            return Vec([clone(x) for x in vec.items])
        if m in ("kind", "to_value", "to_string", "pretty_print") and not A:
            return Opaque(m)
        raise NoEval("Matrix::%s" % m)

    def collect(self, items, want, tf):
        ty = (tf or want or "").replace(" ", "")
        ty = re.sub(r"^::<(.*)>$", r"\1", ty)
        if MAP_T.match(ty) or re.match(r"^(std::collections::|indexmap::map::|indexmap::)?(IndexMap|HashMap|BTreeMap)\b", ty):
            out = IMap()
            for x in items:
                x = D(x)
                if not (isinstance(x, tuple) and len(x) == 2):
                    raise NoEval("collect into a map from non-pairs")
                out.d[hkey(x[0])] = (D(x[0]), D_keep(x[1]))
            return out
        if re.match(r"^(std::collections::|indexmap::set::|indexmap::)?(IndexSet|HashSet|BTreeSet)\b", ty):
            return ISet([D(x) for x in items])
        if re.match(r"^(Vec|VecDeque|DVector|RowDVector|Box<\[)", ty):
            return Vec([D_keep(x) for x in items])
        if ty == "String":
            if all(isinstance(D(x), str) for x in items):
                return "".join(D(x) for x in items)
            raise NoEval("collect into String")
        if not ty or ty == "_":
            if any(isinstance(D(x), tuple) and len(D(x)) == 2 for x in items) or not items:
                raise NoEval("collect() into a container whose type is not spelled at the call")
            return Vec([D_keep(x) for x in items])
        raise NoEval("collect into %s" % ty[:30])

    def iterator(self, it, m, args, A, want, tf):
        """iterator adaptors are LAZY (python generators): a closure runs when its element is pulled, as in Rust, so a pipeline consumed by a loop whose body
        changes what the closure reads behaves as the source does"""
        src = it.it
        call = self.call_closure
        truth = self.truth
        if m in ("iter", "into_iter", "iter_mut", "by_ref", "peekable", "fuse") and not args:
            return it
        if m == "enumerate":
            return It(enumerate(src))
        if m == "filter":
            return It(x for x in src if truth(call(args[0], [x])))
        if m == "map":
            return It(D_keep(call(args[0], [x])) for x in src)
        if m == "inspect":
            def g_inspect():
                for x in src:
                    call(args[0], [x])
                    yield x
            return It(g_inspect())
        if m == "filter_map":
            def g_fm():
                for x in src:
                    r = D(call(args[0], [x]))
                    if not isinstance(r, Enum):
                        raise NoEval("filter_map closure result")
                    if vseg(r.name, 1) == "Some":
                        yield r.args[0]
            return It(g_fm())
        if m == "flat_map":
            return It(y for x in src for y in self.iterate(call(args[0], [x])))
        if m == "flatten":
            return It(y for x in src for y in self.iterate(x))
        if m in ("cloned", "copied"):
            return It(clone(x) for x in src)
        if m == "rev":
            return It(list(src)[::-1])
        if m == "skip":
            return It(itertools.islice(src, A[0], None))
        if m == "take":
            return It(itertools.islice(src, A[0]))
        if m == "step_by":
            if A[0] <= 0:
                raise Panic("step_by(0)")
            return It(itertools.islice(src, 0, None, A[0]))
        if m == "chain":
            return It(itertools.chain(src, self.iterate(A[0])))
        if m == "zip":
            if isinstance(A[0], tuple) and len(A[0]) == 4 and A[0][0] == "range" and A[0][2] is None and A[0][1] is not None:
                return It((a, A[0][1] + i) for i, a in enumerate(src))
            return It(zip(src, self.iterate(A[0])))
        if m == "take_while":
            return It(itertools.takewhile(lambda x: truth(call(args[0], [x])), src))
        if m == "skip_while":
            return It(itertools.dropwhile(lambda x: truth(call(args[0], [x])), src))
        if m == "count":
            return sum(1 for _ in src)
        if m == "sum":
            vs = [D(x) for x in src]
            if all(isinstance(v, int) and not isinstance(v, bool) for v in vs):
                return sum(vs)
            raise NoEval("sum of non-integers")
        if m == "last":
            xs = list(src)
            return some(xs[-1]) if xs else NONE
        if m == "next":
            for x in src:
                return some(x)
            return NONE
        if m == "nth":
            for x in itertools.islice(src, A[0], None):
                return some(x)
            return NONE
        if m in ("min", "max"):
            vs = [D(x) for x in src]
            if not vs:
                return NONE
            if all(isinstance(v, int) and not isinstance(v, bool) for v in vs):
                return some(min(vs) if m == "min" else max(vs))
            raise NoEval("min/max of non-integers")
        if m in ("any", "all"):
            for x in src:
                r = truth(call(args[0], [x]))
                if m == "any" and r:
                    return True
                if m == "all" and not r:
                    return False
            return m == "all"
        if m in ("find", "position", "find_map"):
            for i, x in enumerate(src):
                r = D(call(args[0], [x]))
                if m == "find_map":
                    if isinstance(r, Enum) and vseg(r.name, 1) == "Some":
                        return r
                    continue
                if truth(r):
                    return some(x if m == "find" else i)
            return NONE
        if m == "fold":
            acc = args[0]
            for x in src:
                acc = call(args[1], [acc, x])
            return acc
        if m == "for_each":
            for x in src:
                call(args[0], [x])
            return UNIT
        if m == "collect":
            return self.collect(list(src), want, tf)
        if m == "unzip":
            raise NoEval("unzip")
        if m == "len":
            xs = list(src)
            it.it = iter(xs)
            return len(xs)
        raise NoEval("iterator adaptor %s" % m)

    def vec(self, v, m, args, A, want, tf):
        xs = v.items
        if m in ("iter", "into_iter", "drain") and (not args or m == "drain"):
            if m == "drain":
                if len(A) == 1 and isinstance(A[0], tuple) and A[0][0] == "range" and A[0][1] is None and A[0][2] is None:
                    out = list(xs)
                    xs[:] = []
                    return It(out)
                raise NoEval("drain of a sub-range")
            return It(xs)
        if m == "iter_mut" and not args:
            def mk(i):
                def s(val):
                    xs[i] = val
                return Ptr(lambda: xs[i], s)
            return It([mk(i) for i in range(len(xs))])
        if m in ("len", "nrows") and not args:
            return len(xs)
        if m == "ncols" and not args:
            return 1
        if m == "shape" and not args:
            return (len(xs), 1)
        if m == "is_empty" and not args:
            return not xs
        if m == "push" and len(args) == 1:
            xs.append(D_keep(args[0]))
            return UNIT
        if m == "push_back" and len(args) == 1:
            xs.append(D_keep(args[0]))
            return UNIT
        if m == "pop" and not args:
            return some(xs.pop()) if xs else NONE
        if m == "get" and len(A) == 1 and isinstance(A[0], int):
            return some(xs[A[0]]) if 0 <= A[0] < len(xs) else NONE
        if m == "get_mut" and len(A) == 1 and isinstance(A[0], int):
            i = A[0]
            if not (0 <= i < len(xs)):
                return NONE

            def s(val):
                xs[i] = val
            return some(Ptr(lambda: xs[i], s))
        if m in ("first", "last") and not args:
            return some(xs[0 if m == "first" else -1]) if xs else NONE
        if m == "contains" and len(A) == 1:
            return any(eq(x, A[0]) for x in xs)
        if m == "insert" and len(A) == 2:
            if not (0 <= A[0] <= len(xs)):
                raise Panic("insertion index out of range")
            xs.insert(A[0], D_keep(args[1]))
            return UNIT
        if m == "remove" and len(A) == 1:
            if not (0 <= A[0] < len(xs)):
                raise Panic("removal index out of range")
            return xs.pop(A[0])
        if m == "truncate" and len(A) == 1:
            del xs[A[0]:]
            return UNIT
        if m == "clear" and not A:
            del xs[:]
            return UNIT
        if m in ("resize", "resize_vertically_mut", "resize_horizontally_mut") and len(A) == 2:
            k = A[0]
            xs[:] = xs[:k] + [clone(A[1]) for _ in range(max(0, k - len(xs)))]
            return UNIT
        if m in ("resize_vertically", "resize_horizontally") and len(A) == 2:
            k = A[0]
            return Vec(xs[:k] + [clone(A[1]) for _ in range(max(0, k - len(xs)))])
        if m in ("extend", "extend_from_slice", "append") and len(A) == 1:
            xs.extend(self.iterate(A[0]))
            if m == "append" and isinstance(A[0], Vec):
                A[0].items[:] = []
            return UNIT
        if m == "split_off" and len(A) == 1:
            if not (0 <= A[0] <= len(xs)):
                raise Panic("split_off out of range")
            out = Vec(xs[A[0]:])
            del xs[A[0]:]
            return out
        if m == "swap" and len(A) == 2:
            xs[A[0]], xs[A[1]] = xs[A[1]], xs[A[0]]
            return UNIT
        if m == "reverse" and not A:
            xs.reverse()
            return UNIT
        if m == "fill" and len(A) == 1:
            xs[:] = [clone(A[0]) for _ in xs]
            return UNIT
        if m in ("index", "get_unchecked") and len(A) == 1:
            return self.index(v, A[0])
        if m == "set_index1d" and len(A) == 2:
            return self.assign_vec(v, A[0], A[1])
        if m in ("eq", "ne") and len(A) == 1:
            return eq(v, A[0]) == (m == "eq")
        if m in ("reserve", "shrink_to_fit", "reserve_exact"):
            return UNIT
        if m in ("capacity",):
            raise NoEval("capacity")
        if m == "retain" and len(args) == 1:
            xs[:] = [x for x in xs if self.truth(self.call_closure(args[0], [x]))]
            return UNIT
        if m in ("enumerate", "map", "filter", "zip", "rev", "count", "sum", "any", "all", "find", "position", "fold", "for_each", "collect", "skip", "take", "filter_map", "chain", "copied"):
            raise NoEval("iterator adaptor %s on a container" % m)
        raise NoEval("Vec::%s" % m)

    def imap(self, mp, m, args, A, want, tf):
        d = mp.d
        if m in ("iter", "into_iter") and not args:
            return It([(kk, x) for kk, x in d.values()])
        if m in ("iter_mut",) and not args:
            def mk(k):
                def s(val):
                    d[k] = (d[k][0], val)
                return (d[k][0], Ptr(lambda: d[k][1], s))
            return It([mk(k) for k in list(d)])
        if m in ("keys", "into_keys") and not args:
            return It([kk for kk, _ in d.values()])
        if m in ("values", "into_values") and not args:
            return It([x for _, x in d.values()])
        if m == "values_mut" and not args:
            def mk(k):
                def s(val):
                    d[k] = (d[k][0], val)
                return Ptr(lambda: d[k][1], s)
            return It([mk(k) for k in list(d)])
        if m == "len" and not args:
            return len(d)
        if m == "is_empty" and not args:
            return not d
        if m == "insert" and len(args) == 2:
            k = hkey(A[0])
            old = d.get(k)
            d[k] = (old[0] if old else A[0], D_keep(args[1]))
            return some(old[1]) if old else NONE
        if m == "get" and len(A) == 1:
            k = hkey(A[0])
            return some(d[k][1]) if k in d else NONE
        if m == "get_mut" and len(A) == 1:
            k = hkey(A[0])
            if k not in d:
                return NONE

            def s(val):
                d[k] = (d[k][0], val)
            return some(Ptr(lambda: d[k][1], s))
        if m == "get_key_value" and len(A) == 1:
            k = hkey(A[0])
            return some(d[k]) if k in d else NONE
        if m == "contains_key" and len(A) == 1:
            return hkey(A[0]) in d
        if m in ("remove", "shift_remove", "swap_remove") and len(A) == 1:
            k = hkey(A[0])
            if m == "swap_remove" and k in d and list(d)[-1] != k:
                raise NoEval("swap_remove reorders")
            return some(d.pop(k)[1]) if k in d else NONE
        if m in ("get_index",) and len(A) == 1:
            ks = list(d)
            return some(d[ks[A[0]]]) if 0 <= A[0] < len(ks) else NONE
        if m in ("first", "last") and not A:
            ks = list(d)
            return some(d[ks[0 if m == "first" else -1]]) if ks else NONE
        if m == "clear" and not A:
            d.clear()
            return UNIT
        if m == "extend" and len(A) == 1:
            for x in self.iterate(A[0]):
                x = D(x)
                d[hkey(x[0])] = (D(x[0]), D_keep(x[1]))
            return UNIT
        if m in ("eq", "ne") and len(A) == 1:
            return eq(mp, A[0]) == (m == "eq")
        if m in ("reserve", "shrink_to_fit"):
            return UNIT
        if m == "index" and len(A) == 1:
            return self.index(mp, A[0])
        raise NoEval("map method %s" % m)

    def iset(self, st, m, args, A, want, tf):
        if m in ("iter", "into_iter") and not args:
            return It(st.s)
        if m == "len" and not args:
            return len(st.s)
        if m == "is_empty" and not args:
            return not st.s
        if m == "insert" and len(A) == 1:
            return st.add(A[0])
        if m == "contains" and len(A) == 1:
            return st.has(A[0])
        if m in ("remove", "shift_remove") and len(A) == 1:
            k = hkey(A[0])
            n = len(st.s)
            st.s[:] = [y for y in st.s if hkey(y) != k]
            return len(st.s) != n
        if m == "extend" and len(A) == 1:
            for x in self.iterate(A[0]):
                st.add(D(x))
            return UNIT
        if m == "clear" and not A:
            st.s[:] = []
            return UNIT
        raise NoEval("set method %s" % m)


def D_keep(v):
    """what is stored into a container / struct field / returned: values by value, shared cells by handle"""
    v2 = D(v)
    return v2


def _idents(p):
    if not is_node(p):
        return
    if p[0] == "pident":
        yield p[1]
    for x in p[1:]:
        if isinstance(x, list):
            if is_node(x):
                yield from _idents(x)
            else:
                for y in x:
                    if is_node(y):
                        yield from _idents(y)
