"""Refactoring-robust views of a function body over the syn JSON AST (used by the C14 rules).

Three tools, all purely structural and independent of how locals happen to be spelled:

* `Crate`      index of the functions / methods / constants of one crate; `resolve_call` finds the same-crate helper a call refers to.
* `inline`     replaces every call of a same-crate helper (free fn, `Self::f`, `Type::f`, `self.f(..)`) by a block holding `let <param> = <arg>;`
               followed by the helper's body (binders alpha-renamed so that nothing is captured), one or two levels deep.  A rule that looks for a
               guard / mutation / comparison / loop "in function F" therefore also sees it when a maintainer moved it into a private helper of F.
* `Env`        the initialiser of every single-definition local of a body (`let x = e`, typed or not, tuple patterns component-wise) and the
               crate's `const` items; `expand(e)` substitutes locals by their initialisers, so a sub-expression that was given a name
               (`let n = s.set.len(); s.num_elements = n`) is seen as the expression itself, and a role is decided by provenance
               (`self.<field>` / parameter / callee) instead of by the name of a local.
"""
import re
from lib.facts import is_node, walk, find, path_of, render, last_seg

_UPPER = re.compile(r"^[A-Z]")


# ------------------------------------------------------------------ patterns
def pat_binders(p):
    """names bound by a pattern (identifier patterns that are not unit variants / constants: those start with an upper-case letter)"""
    out = []
    for n in walk(p):
        if n[0] == "pident" and not _UPPER.match(n[1]):
            out.append(n[1])
    return out


def pat_shape(p):
    """rendering of a pattern that does not depend on how its binders are spelled (`(Value::MutableReference(_), _)`)"""
    from lib.facts import render_pat

    def anon(n):
        if isinstance(n, list):
            if is_node(n) and n[0] == "pident" and not _UPPER.match(n[1]):
                return ["pident", "_", False, False, anon(n[4]) if len(n) > 4 else None]
            return [anon(x) for x in n]
        return n
    return re.sub(r"\s+", "", render_pat(anon(p)))


def hret_as_ret(n):
    """for guard-context analyses: a `return` of an inlined helper ends that helper's block just like a `return` ends a function body"""
    if isinstance(n, list):
        if is_node(n) and n[0] == "hret":
            return ["ret"] + [hret_as_ret(x) for x in n[1:]]
        return [hret_as_ret(x) for x in n]
    return n


def inlined_name(n):
    return n[2]["inlined"] if is_node(n) and n[0] == "block" and len(n) > 2 and isinstance(n[2], dict) and "inlined" in n[2] else None


def strip_ptype(p):
    while is_node(p) and p[0] == "ptype":
        p = p[1]
    return p


def pat_type(p):
    return p[2] if is_node(p) and p[0] == "ptype" else None


def peel(e):
    """strip & / &mut / * / raw-address / `as` casts / unsafe{e} / {e} / .clone() / .borrow() / .borrow_mut() / .as_ref() / .as_mut() / as_ptr() wrappers:
    the place or value an expression denotes"""
    while is_node(e):
        t = e[0]
        if t in ("ref", "rawaddr"):
            e = e[2]
        elif t == "un" and e[1] == "*":
            e = e[2]
        elif t == "cast":
            e = e[1]
        elif t in ("unsafe", "block") and len(e[1]) == 1 and e[1][0][0] == "expr":
            e = e[1][0][1]
        elif t == "mcall" and e[2] in ("clone", "borrow", "borrow_mut", "as_ref", "as_mut", "as_ptr", "as_mut_ptr", "deref", "deref_mut", "to_owned", "iter", "iter_mut", "into_iter", "as_slice", "unwrap") and not e[4]:
            e = e[1]
        else:
            break
    return e


# ------------------------------------------------------------------ crate index
class Crate:
    def __init__(self, items):
        self.items = items
        self.fns = {}
        self.methods = {}
        self.consts = {}
        for it in items:
            k = it.get("k")
            if k == "fn" and it.get("body") is not None:
                self.fns.setdefault(it["name"], []).append(it)
            elif k == "method" and it.get("body") is not None:
                self.methods.setdefault((type_head(it["self"]), it["name"]), []).append(it)
            elif k in ("const", "static"):
                self.consts.setdefault(it["name"], []).append(it)
            elif k == "iconst":
                self.consts.setdefault(it["name"], []).append(it)

    def const_value(self, name):
        c = self.consts.get(last_seg(name))
        if c and len(c) == 1:
            return c[0]["val"]
        return None

    def resolve_call(self, node, cur=None):
        """the unique same-crate item a `call` / `mcall` node refers to, or None.  Method calls are followed only on `self` (the receiver type is
        known then) - anything else could be a method of a foreign type that merely shares the name."""
        if node[0] == "call":
            p = path_of(node[1])
            if not p:
                return None
            segs = [re.sub(r"<.*$", "", s) for s in split_path(p)]
            name = segs[-1]
            if len(segs) >= 2 and (segs[-2] == "Self" or _UPPER.match(segs[-2])):
                th = type_head(cur["self"]) if (segs[-2] == "Self" and cur is not None and cur.get("self")) else segs[-2]
                c = [m for m in self.methods.get((th, name), []) if not m.get("trait")] or self.methods.get((th, name), [])
                return c[0] if len(c) == 1 else None
            c = self.fns.get(name, [])
            if len(c) > 1 and cur is not None:
                same = [f for f in c if f.get("mod") == cur.get("mod")]
                if len(same) == 1:
                    c = same
            if len(c) == 1 and len(c[0]["sig"]["inputs"]) == len(node[2]):
                return c[0]
            return None
        if node[0] == "mcall" and cur is not None and cur.get("self") and path_of(node[1]) == "self":
            c = self.methods.get((type_head(cur["self"]), node[2]), [])
            c = [m for m in c if not m.get("trait")] or c
            if len(c) == 1:
                return c[0]
        return None


def split_path(p):
    out, depth, cur = [], 0, ""
    i = 0
    while i < len(p):
        ch = p[i]
        if ch == "<":
            depth += 1
        elif ch == ">":
            depth -= 1
        if depth == 0 and p.startswith("::", i):
            out.append(cur.strip())
            cur = ""
            i += 2
            continue
        cur += ch
        i += 1
    out.append(cur.strip())
    return [s for s in out if s]


def type_head(t):
    t = re.sub(r"^&\s*(mut\s+)?", "", str(t).strip())
    t = re.sub(r"<.*$", "", t)
    return t.split("::")[-1].strip()


# ------------------------------------------------------------------ alpha renaming / inlining
def _rename(n, m):
    """copy of AST `n` with every binder / single-segment path / struct-shorthand named in `m` renamed"""
    if isinstance(n, list):
        if is_node(n):
            t = n[0]
            if t == "pident" and n[1] in m:
                return ["pident", m[n[1]]] + [_rename(x, m) for x in n[2:]]
            if t == "path" and n[1] in m:
                return ["path", m[n[1]]]
            if t == "macro":
                return n
        return [_rename(x, m) for x in n]
    if isinstance(n, dict):
        return n      # nested items keep their own scope
    return n


def _mark_returns(n, keep_err):
    """inside an inlined helper a `return` leaves the helper, not the caller: `ret` -> `hret` (the walkers still see the children).  In `?` position
    (`keep_err`) a `return Err(..)` of the helper IS an error exit of the caller and stays a `ret`."""
    if isinstance(n, list):
        if is_node(n):
            if n[0] == "closure":
                return n
            if n[0] == "ret":
                inner = _mark_returns(n[1], keep_err) if len(n) > 1 else None
                is_err = is_node(inner) and inner[0] == "call" and last_seg(path_of(inner[1]) or "") == "Err"
                return ["ret" if (keep_err and is_err) else "hret", inner]
        return [_mark_returns(x, keep_err) for x in n]
    return n


class Inliner:
    def __init__(self, crate, depth=2, only=None):
        self.crate = crate
        self.depth = depth
        self.only = only          # optional predicate on the helper item
        self.n = 0
        self.used = []            # helper items that were inlined (for bookkeeping: they need no stand-alone analysis)

    def body_of(self, it):
        return self._x(it["body"], it, self.depth, ())

    def _x(self, n, cur, depth, stack, in_try=False):
        if not isinstance(n, list):
            return n
        if is_node(n):
            t = n[0]
            if t == "macro":
                return n
            if t == "try":
                return ["try", self._x(n[1], cur, depth, stack, True)]
            if t in ("call", "mcall") and depth > 0:
                h = self.crate.resolve_call(n, cur)
                if h is not None and id(h) not in stack and h is not cur and (self.only is None or self.only(h)):
                    args = n[2] if t == "call" else n[4]
                    params = h["sig"]["inputs"]
                    recv = None
                    if params and params[0][0] == "self":
                        if t == "mcall":
                            recv, params = n[1], params[1:]
                        elif len(args) == len(params):
                            recv, params, args = args[0], params[1:], args[1:]
                    if len(params) == len(args) and all(is_node(p[0]) for p in params):
                        self.n += 1
                        self.used.append(h)
                        sfx = "@%d" % self.n
                        names = set()
                        for p in params:
                            names.update(pat_binders(p[0]))
                        for x in walk(h["body"]):
                            if x[0] == "pident" and not _UPPER.match(x[1]):
                                names.add(x[1])
                        m = {k: k + sfx for k in names}
                        if recv is not None:
                            m["self"] = "self" + sfx
                        body = _mark_returns(_rename(h["body"], m), in_try)
                        body = self._x(body, h, depth - 1, stack + (id(h),))
                        pre = []
                        if recv is not None:
                            pre.append(["let", ["pident", "self" + sfx, False, False, None], self._x(recv, cur, depth, stack), None])
                        for p, a in zip(params, args):
                            pre.append(["let", ["ptype", _rename(p[0], m), p[1]], self._x(a, cur, depth, stack), None])
                        return ["block", pre + body, {"inlined": h["name"], "pre": len(pre)}]
        return [self._x(x, cur, depth, stack) for x in n]


def inline(it, crate, depth=2, only=None):
    """(body of `it` with same-crate helper calls replaced by their bodies, list of the helper items used)"""
    inl = Inliner(crate, depth, only)
    return inl.body_of(it), inl.used


# ------------------------------------------------------------------ local definitions
class Env:
    """name -> initialiser for the locals of one body that have exactly one definition (`let`, `if let`/`while let`, match-arm and for-loop binders are
    recorded as definitions too, so that a name bound twice is never substituted)."""

    def __init__(self, body, crate=None, params=()):
        self.crate = crate
        self.init = {}
        self.types = {}
        count = {}
        for p in params:
            count[p] = count.get(p, 0) + 1

        def bind(p, init):
            ty = pat_type(p)
            q = strip_ptype(p)
            if is_node(q) and q[0] == "pident" and not _UPPER.match(q[1]) and q[4] is None:
                count[q[1]] = count.get(q[1], 0) + 1
                if init is not None:
                    self.init[q[1]] = init
                if ty:
                    self.types[q[1]] = ty
                return
            if is_node(q) and q[0] == "ptuple" and is_node(init) and init[0] == "tuple" and len(init[1]) == len(q[1]):
                for a, b in zip(q[1], init[1]):
                    bind(a, b)
                return
            for i, b in enumerate(pat_binders(q)):
                count[b] = count.get(b, 0) + 1
                if init is not None:
                    # component of a call result etc.: remember where it comes from, marked as a projection
                    self.init.setdefault(b, ["proj", init, b])

        for n in walk(body):
            t = n[0]
            if t == "let" and len(n) >= 3:
                bind(n[1], n[2])
            elif t == "letc":
                for b in pat_binders(n[1]):
                    count[b] = count.get(b, 0) + 1
                    self.init.setdefault(b, ["proj", n[2], b])
            elif t == "for":
                for b in pat_binders(n[1]):
                    count[b] = count.get(b, 0) + 1
            elif t == "match":
                for arm in n[2]:
                    for b in pat_binders(arm[0]):
                        count[b] = count.get(b, 0) + 1
            elif t == "closure":
                for p in n[1]:
                    for b in pat_binders(p):
                        count[b] = count.get(b, 0) + 1
            elif t == "assign" and is_node(n[1]) and n[1][0] == "path":
                count[n[1][1]] = count.get(n[1][1], 0) + 1      # re-assigned: not a single definition
            elif t == "bin" and re.match(r"^(\+|-|\*|/|%|\^|&|\||<<|>>)=$", n[1]) and is_node(n[2]) and n[2][0] == "path":
                count[n[2][1]] = count.get(n[2][1], 0) + 1      # `x += 1`
        for k, c in count.items():
            if c != 1:
                self.init.pop(k, None)

    def expand(self, e, depth=8):
        """`e` with single-definition locals replaced by their initialisers and crate constants by their values"""
        if not isinstance(e, list):
            return e
        if is_node(e):
            if e[0] == "path":
                if depth > 0 and e[1] in self.init:
                    return self.expand(self.init[e[1]], depth - 1)
                if depth > 0 and self.crate is not None and "::" not in e[1] and re.match(r"^[A-Z][A-Z0-9_]*$", e[1]):
                    v = self.crate.const_value(e[1])
                    if v is not None:
                        return v
                return e
            if e[0] in ("macro", "closure"):
                return e
            if e[0] == "ref" and e[1] and is_node(e[2]) and e[2][0] == "path":
                return e          # `&mut x` names the place x itself, not the value x was initialised with
            if e[0] == "struct":
                return [e[0], e[1], [[f[0], self.expand(f[1], depth)] for f in e[2]]] + [self.expand(x, depth) for x in e[3:]]
        return [self.expand(x, depth) for x in e]

    def text(self, e):
        return re.sub(r"\s+", "", render(self.expand(e)))


def self_fields(e):
    """names of the fields of `self` an (expanded) expression reads: `self.f` (also through an inlined method's `self@k`)"""
    out = set()
    for f in find(e, "field"):
        p = path_of(f[1])
        if p and re.match(r"^self(@\d+)?$", p):
            out.add(f[2])
    return out


def mentions(e, names):
    return any(x[1] in names for x in find(e, "path"))


# ------------------------------------------------------------------ iteration sites (loops in any spelling)
ADAPTERS = {"map", "for_each", "filter", "filter_map", "flat_map", "find", "find_map", "any", "all", "fold", "try_fold", "try_for_each", "position", "retain", "take_while",
            "skip_while", "map_while", "inspect", "partition", "scan"}


def iteration_sites(body):
    """every construct that runs a piece of code once per element of something:
       (node, iterated expression, binder patterns, body statements).  `for`, `while let Some(p) = it.next()`, `while`/`loop`, and closures handed to iterator
       adapters (`xs.iter().map(|x| ..)`)."""
    out = []
    for n in walk(body):
        t = n[0]
        if t == "for":
            out.append((n, n[2], [n[1]], n[3]))
        elif t == "while":
            c = n[1]
            if is_node(c) and c[0] == "letc":
                out.append((n, c[2], [c[1]], n[2]))
            else:
                out.append((n, c, [], n[2]))
        elif t == "loop":
            out.append((n, None, [], n[1]))
        elif t == "mcall" and n[2] in ADAPTERS:
            for a in n[4]:
                if is_node(a) and a[0] == "closure":
                    b = a[2]
                    stmts = b[1] if is_node(b) and b[0] in ("block", "unsafe") else [["expr", b, False]]
                    out.append((a, n[1], list(a[1]), stmts))
    return out
