"""Syntactic inlining of same-module helper functions, so that a rule that inspects `f` sees the same mechanism whether a block is written in `f`
itself or was extracted into a private helper (or a helper of a helper) - and, applied to a caller, whether an evaluator is a function of its own
or written in the arm that used to call it.

    fns = module_fns(F.syn(crate), "literals")             # {name: fn item} of one module
    it2 = inline_item(fns["scientific"], fns, depth=3)     # copy of the item; every call `helper(a, b)` to a fn of `fns` is replaced by the block
                                                           #     { let p0: T0 = a; let p1: T1 = b; <body of helper> }      (recursively, `depth` levels)
    P = Prov(it2)                                          # lib.provenance follows the parameter bindings, so roles (components of f's parameter)
                                                           # are tracked into the helper's body

The replacement block is `["block", stmts, "inlined:<helper name>"]` (the third element is ignored by every consumer that reads blocks; it lets a
rule tell an inlined body from a block of the function itself and name the helper in a message - never in a key).
`return` inside an inlined body keeps its spelling (it leaves the helper, not the caller): rules that reason about exits of the caller must not
use inlined bodies for that; rules that look for the presence / operands / guards of an operation can.
Recursion is cut (a function is never inlined into itself, directly or indirectly), `stop` names functions that stay calls."""
import copy
from lib.facts import is_node, walk, path_of

_PREFIX_OK = ("self", "super", "crate")


def module_fns(items, mod_suffix):
    """{name: item} of the free functions (with a body) of the module(s) whose path ends with mod_suffix"""
    out = {}
    for it in items:
        if it.get("k") == "fn" and (it.get("mod") or "").endswith(mod_suffix) and it.get("body") is not None:
            out.setdefault(it["name"], it)
    return out


def callee_name(call, fns, mod=""):
    """name of the fn of `fns` that a `call` node calls by a plain path (`helper`, `self::helper`, `crate::<mod>::helper`), else None"""
    p = path_of(call[1])
    if not p:
        return None
    segs = p.lstrip(":").split("::")
    name = segs[-1]
    if name not in fns:
        return None
    modsegs = set((mod or "").split("::")) | set(_PREFIX_OK)
    if any(s not in modsegs for s in segs[:-1]):
        return None
    return name


def _param_lets(item, args):
    """`let <param pattern>: <type> = <argument>;` statements; None when the parameters cannot be bound syntactically (self, arity mismatch)"""
    inputs = item["sig"]["inputs"]
    if any(not isinstance(p, list) for p in inputs) or len(inputs) != len(args):
        return None
    names = []
    for p in inputs:
        names.append({x[1] for x in walk(p[0]) if x[0] == "pident"})
    # a later argument that mentions an earlier parameter's name would be captured: bind through temporaries then
    clash = False
    seen = set()
    for i, a in enumerate(args):
        used = {x[1] for x in walk(a) if x[0] == "path" and isinstance(x[1], str)}
        for m in walk(a):
            if m[0] == "macro":
                clash = clash or bool(seen)
        if used & seen:
            clash = True
        seen |= names[i]
    lets = []
    if clash:
        tmp = ["inl__arg%d" % i for i in range(len(args))]
        for t, a in zip(tmp, args):
            lets.append(["let", ["pident", t, False, False, None], a, None])
        args = [["path", t] for t in tmp]
    for p, a in zip(inputs, args):
        pat = copy.deepcopy(p[0])
        if p[1]:
            pat = ["ptype", pat, p[1]]
        lets.append(["let", pat, a, None])
    return lets


def inline_expr(e, fns, depth=2, stop=(), mod="", stack=(), log=None):
    """copy of the AST `e` with calls to functions of `fns` replaced by their bodies (see module doc)"""
    if isinstance(e, dict):
        return {k: inline_expr(v, fns, depth, stop, mod, stack, log) for k, v in e.items()}
    if not isinstance(e, list):
        return e
    out = [inline_expr(x, fns, depth, stop, mod, stack, log) for x in e]
    if depth > 0 and is_node(out) and out[0] == "call" and len(out) >= 3:
        name = callee_name(out, fns, mod)
        if name is not None and name not in stop and name not in stack:
            h = fns[name]
            lets = _param_lets(h, out[2])
            if lets is not None:
                body = inline_expr(copy.deepcopy(h["body"]), fns, depth - 1, stop, h.get("mod") or mod, stack + (name,), log)
                if log is not None:
                    log.append(name)
                return ["block", lets + body, "inlined:%s" % name]
    return out


def _closure_lets(params, args):
    if len(params) != len(args):
        return None
    bound = set()
    for p in params:
        bound |= {x[1] for x in walk(p) if x[0] == "pident"}
    for a in args:
        if any(x[0] == "macro" or (x[0] == "path" and x[1] in bound) for x in walk(a)):
            tmp = ["inl__arg%d" % i for i in range(len(args))]
            return [["let", ["pident", t, False, False, None], a, None] for t, a in zip(tmp, args)] + \
                   [["let", copy.deepcopy(p), ["path", t], None] for p, t in zip(params, tmp)]
    return [["let", copy.deepcopy(p), a, None] for p, a in zip(params, args)]


def inline_closures(body):
    """copy of a statement list in which calls of LOCAL closures (`let f = |x| ..;  f(a)`) are replaced by `{ let x = a; <closure body> }`
    (marked `inlined:closure`).  Only closures bound once by a plain `let <name> = |..| ..` whose name is bound nowhere else in the body and
    never assigned are followed; the `let` is dropped when no other use of the closure remains."""
    body = copy.deepcopy(body)
    defs, count = {}, {}
    for n in walk(body):
        if n[0] == "pident":
            count[n[1]] = count.get(n[1], 0) + 1
        if n[0] == "let":
            pat = n[1]
            while is_node(pat) and pat[0] == "ptype":
                pat = pat[1]
            if is_node(pat) and pat[0] == "pident" and not pat[4] and is_node(n[2]) and n[2][0] == "closure":
                defs[pat[1]] = n[2]
    for n in walk(body):
        if n[0] == "assign" and is_node(n[1]) and n[1][0] == "path":
            count[n[1][1]] = count.get(n[1][1], 0) + 1
    defs = {k: v for k, v in defs.items() if count.get(k) == 1}
    if not defs:
        return body

    def sub(e, stack):
        if isinstance(e, dict):
            return {k: sub(v, stack) for k, v in e.items()}
        if not isinstance(e, list):
            return e
        out = [sub(x, stack) for x in e]
        if is_node(out) and out[0] == "call" and len(out) >= 3 and is_node(out[1]) and out[1][0] == "path" and out[1][1] in defs and out[1][1] not in stack:
            c = defs[out[1][1]]
            lets = _closure_lets(c[1], out[2])
            if lets is not None:
                cb = sub(copy.deepcopy(c[2]), stack + (out[1][1],))
                return ["block", lets + [["expr", cb, False]], "inlined:closure"]
        return out
    res = sub(body, ())
    # a closure whose every use was a call that is now inlined is dead: drop its `let` (its body would otherwise be seen once more than it runs)
    used = {n[1] for n in walk(res) if n[0] == "path" and isinstance(n[1], str)}
    dead = {k for k in defs if k not in used}

    def prune(e):
        if isinstance(e, dict):
            return {k: prune(v) for k, v in e.items()}
        if not isinstance(e, list):
            return e
        out = []
        for x in e:
            if is_node(x) and x[0] == "let":
                pat = x[1]
                while is_node(pat) and pat[0] == "ptype":
                    pat = pat[1]
                if is_node(pat) and pat[0] == "pident" and pat[1] in dead and is_node(x[2]) and x[2][0] == "closure":
                    continue
            out.append(prune(x))
        return out
    return prune(res) if dead else res


def inline_item(item, fns, depth=2, stop=(), closures=True):
    """copy of a fn item whose body has the helpers of `fns` (and, by default, its local closures) inlined; item["inlined"] lists the helpers that were"""
    log = []
    it = dict(item)
    it["body"] = inline_expr(copy.deepcopy(item["body"]), fns, depth, stop, item.get("mod") or "", (item["name"],), log)
    if closures:
        it["body"] = inline_closures(it["body"])
    it["inlined"] = sorted(set(log))
    return it


def inlined_name(block):
    """name of the helper a block is the inlined body of, else None"""
    if is_node(block) and block[0] == "block" and len(block) > 2 and isinstance(block[2], str) and block[2].startswith("inlined:"):
        return block[2][len("inlined:"):]
    return None
