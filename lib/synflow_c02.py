"""Spelling-independent helpers over the syn AST of one function (and the private helpers it calls).

    inits_of(body, name)            # initialiser expressions of every `let <name> = ..` / `let (.., <name>, ..) = ..` in the body
    peel(e, methods)                # strip `&`, `*`, `.clone()`-like copies and the given receiver-preserving methods (`.iter()` ...)
    pattern_bodies(body)            # [(pattern, scrutinee, body-expr)] for every `match` arm AND every `if let` / `let .. else`:
                                    # `match x { P => A, _ => B }` and `if let P = x { A } else { B }` look the same to a rule
    fn_item(items, name, mod)       # the free fn item called `name` (prefers module `mod`)
    bind_call(items, call, mod)     # (callee item, [param name or None per argument]) for a call of a free fn of the crate
    pat_idents(p)                   # names bound by a pattern
"""
from lib.facts import find, is_node, path_of, last_seg, walk

COPY_METHODS = {"clone", "to_owned", "borrow", "borrow_mut", "as_ref", "as_mut", "deref", "deref_mut"}
# receiver-preserving, order-preserving, complete views of a sequence
SEQ_VIEWS = {"iter", "into_iter", "iter_mut", "as_slice", "as_mut_slice", "by_ref", "cloned", "copied", "peekable", "fuse"}


def pat_idents(p):
    return [x[1] for x in find(p, "pident")]


def inits_of(body, name):
    out = []
    for st in find(body, "let"):
        if len(st) > 2 and st[2] is not None and is_node(st[1]) and name in pat_idents(st[1]):
            out.append(st[2])
    for lc in find(body, "letc"):
        if name in pat_idents(lc[1]):
            out.append(lc[2])
    return out


def peel(e, methods=()):
    """strip references, derefs, parentheses, copies and the listed no-argument methods; returns the inner expression"""
    while is_node(e):
        if e[0] == "ref" or (e[0] == "un" and e[1] == "*"):
            e = e[2]
        elif e[0] == "paren":
            e = e[1]
        elif e[0] == "mcall" and not e[4] and (e[2] in COPY_METHODS or e[2] in methods):
            e = e[1]
        elif e[0] == "try":
            e = e[1]
        else:
            break
    return e


def pattern_bodies(body):
    out = []
    for m in find(body, "match"):
        for arm in m[2]:
            out.append((arm[0], m[1], arm[2]))
    for i in find(body, "if"):
        c = i[1]
        if is_node(c) and c[0] == "letc":
            out.append((c[1], c[2], ["block", i[2]]))
    return out


def fn_item(items, name, mod=None):
    c = [it for it in items if it["k"] == "fn" and it["name"] == name]
    if mod is not None:
        same = [it for it in c if it["mod"] == mod]
        if same:
            c = same
    return c[0] if len(c) == 1 else None


def param_name(p):
    pat = p[0]
    while is_node(pat) and pat[0] in ("ptype", "pref"):
        pat = pat[1] if pat[0] == "ptype" else pat[2]
    if is_node(pat) and pat[0] == "pident":
        return pat[1]
    return None


def bind_call(items, call, mod=None):
    """call: ["call", callee-expr, args]. -> (item, [param names]) when the callee is a free fn of this crate with as many parameters"""
    p = path_of(call[1])
    if not p:
        return None, []
    it = fn_item(items, last_seg(p), mod)
    if it is None:
        return None, []
    ins = [x for x in it["sig"]["inputs"] if isinstance(x, list)]
    if len(ins) != len(call[2]):
        return None, []
    return it, [param_name(x) for x in ins]


def mentions(e, name):
    return any(x[1] == name for x in find(e, "path"))
