"""Symbolic extents on MIR (added for C12-R9..R11; reusable wherever a rule asks "which number sizes this buffer").

Everything is phrased over resolved callees, declared types, def-use chains and CFG edges - never over the spelling of a local:

  na_dims(type text)            (rows, cols) of an nalgebra matrix type, each "Dyn" or an int (`Const<k>`), None for any other type
  ctor_extents(body, term)      for a call of an nalgebra constructor of a type with dynamic dimensions: {0: row operand, 1: col operand}
  Extents(body).value(operand)  what a usize operand stands for:
        ("const", k) | ("elem", LIST, k) = element k of a shape list | ("count", LIST) = product of its elements | ("dim", "nrows"|"ncols"|"len", SRC) | ("param", i, proj)
        | ("op", name, a, b) | ("unknown", why)
     LIST identities: ("param", i, proj) a parameter (or a field of one) | ("call", callee, SRC, proj) the result of a call such as
     `x.shape()` where x is (a field / copy / borrow of) parameter SRC | ("local", l, proj) a local with several definitions | ("agg", adt, block)
     ("dim", .., SRC) likewise names the parameter whose dimension is queried
  Extents(body).facts()         CFG edges on which `elem(A, p) == elem(B, p)`, `elem(A, p) == k` or `A == B` (whole lists) is known to hold
  every_path_uses(body, edges, target)   True iff every path entry -> target runs through one of the given edges
"""
import re

from lib.mirflow import Flow, callee
from lib.mirq import Slice, _const_int

_TOK = re.compile(r"\*|\.\d+|@\w+|\[_\d+\]|\[-?\d+\]|\[\d+\.\.-?\d+\]|\?")

# calls whose result is (a reference to / a copy of) their first argument, for VALUES and for LISTS
_COPY = re.compile(r"(::deref$|::deref_mut$|::as_ref$|::as_mut$|::borrow$|::borrow_mut$|::clone$|::to_owned$|::into$|::from$|::unwrap$|::expect$|::branch$|"
                   r"::as_slice$|::as_mut_slice$|::to_vec$|::into_boxed_slice$|::into_vec$|::as_ptr$|::cloned$|::copied$)")
_INDEX = re.compile(r"ops::index::Index(Mut)?::index(_mut)?$")
_NA_DIMQ = re.compile(r"^nalgebra::base::.*::(nrows|ncols|len)$")
_NA_CTOR = re.compile(r"^nalgebra::base::construction::<impl nalgebra::base::matrix::Matrix<(.*)>>::(\w+)$")


def split_args(text):
    """top-level comma split of a generic argument list `A<B,C>,D` -> ['A<B,C>', 'D']"""
    out, depth, cur = [], 0, []
    for ch in text:
        if ch in "<([":
            depth += 1
        elif ch in ">)]":
            depth -= 1
        if ch == "," and depth == 0:
            out.append("".join(cur).strip())
            cur = []
        else:
            cur.append(ch)
    if cur:
        out.append("".join(cur).strip())
    return out


def _balanced(text, start):
    """text[start] == '<' : the substring between it and its matching '>'"""
    depth = 0
    for i in range(start, len(text)):
        if text[i] == "<":
            depth += 1
        elif text[i] == ">":
            depth -= 1
            if depth == 0:
                return text[start + 1:i]
    return None


def _dim(t):
    t = t.strip()
    if t.endswith("dimension::Dyn") or t == "Dyn":
        return "Dyn"
    m = re.search(r"(?:dimension::)?Const<(\d+)>$", t)
    if m:
        return int(m.group(1))
    m = re.search(r"(?:dimension::)?U(\d+)$", t)
    if m:
        return int(m.group(1))
    return ("?", t)


def na_dims(ty):
    """(R, C) of the first nalgebra matrix type mentioned in `ty` (looks through Ref<..>, Box<..>, &..): each "Dyn", an int or ("?", text)"""
    if not ty:
        return None
    i = ty.find("nalgebra::base::matrix::Matrix<")
    if i < 0:
        return None
    inner = _balanced(ty, i + len("nalgebra::base::matrix::Matrix"))
    if inner is None:
        return None
    a = split_args(inner)
    if len(a) < 3:
        return None
    return (_dim(a[1]), _dim(a[2]))


def na_elem(ty):
    i = (ty or "").find("nalgebra::base::matrix::Matrix<")
    if i < 0:
        return None
    inner = _balanced(ty, i + len("nalgebra::base::matrix::Matrix"))
    return split_args(inner)[0] if inner else None


def dims_text(d):
    if d is None:
        return "scalar"
    return "x".join("Dyn" if x == "Dyn" else (str(x) if isinstance(x, int) else "?") for x in d)


def ctor_extents(body, t):
    """`t` calls a constructor of an nalgebra matrix type: -> (dims of the constructed type, {position: extent operand}) where only the dynamic
    positions have operands (nalgebra's constructors take the dynamic extents first, rows before columns).  (dims, None) when the constructor
    takes its size from data (`DVector::from_vec(v)`); None when `t` is no nalgebra constructor."""
    m = _NA_CTOR.match(t.get("f") or t["tf"])
    if not m:
        return None
    a = split_args(m.group(1))
    if len(a) < 3:
        return None
    ga = list(t.get("ga") or [])
    # the impl header names the static dimensions by the generic parameters R / C, whose values follow the element type in the generic arguments
    free = ga[1:]
    dims = []
    for x in a[1:3]:
        d = _dim(x)
        if isinstance(d, tuple):
            d = _dim(free.pop(0)) if free else d
        dims.append(d)
    dyn = [p for p in (0, 1) if dims[p] == "Dyn"]
    lead = []
    for o in t["args"]:
        ty = body.locals[o[0]] if isinstance(o, list) and o[1] == "" and o[0] < len(body.locals) else (o.get("t") if isinstance(o, dict) else None)
        if ty == "usize" and len(lead) < len(dyn):
            lead.append(o)
        else:
            break
    if len(lead) != len(dyn):
        return (tuple(dims), None)
    return (tuple(dims), {p: lead[i] for i, p in enumerate(dyn)})


class Extents:
    def __init__(self, body):
        self.b = body
        self.fl = Flow(body)
        self.sl = self.fl.sl
        self._facts = None

    # ------------------------------------------------------------------ helpers
    def _toks(self, proj):
        return [t for t in _TOK.findall(proj or "") if t != "*"]

    def roots(self, op):
        """parameter indices an operand derives from"""
        if not isinstance(op, list):
            return frozenset()
        return frozenset(r[1] for r in self.sl.roots(op) if r[0] == "arg")

    def _is_param(self, l):
        return 1 <= l <= self.b.nargs and not self.fl.live_defs(l)

    def _index_const(self, tok):
        m = re.match(r"\[_(\d+)\]$", tok)
        if m:
            v = self.value([int(m.group(1)), ""])
            return v[1] if v[0] == "const" else None
        m = re.match(r"\[(\d+)\]$", tok)
        return int(m.group(1)) if m else None

    def source_of(self, op, depth=0):
        """the parameter a value is (a copy / a field / a borrow of): its 1-based index, or None - projection-aware (the second field of a tuple
        built from two parameters is the second parameter only)"""
        if not isinstance(op, list):
            return None
        L = self._list(op[0], self._toks(op[1]), depth)
        return L[1] if L[0] == "param" else None

    # ------------------------------------------------------------------ values
    def value(self, op, depth=0):
        if isinstance(op, dict):
            n = _const_int(op)
            return ("const", n) if n is not None else ("unknown", "const")
        if not isinstance(op, list):
            return ("unknown", "operand")
        return self._place(op[0], self._toks(op[1]), depth)

    def _place_op(self, op, extra, depth):
        if isinstance(op, dict):
            if not extra:
                return self.value(op)
            return ("unknown", "projection of a constant")
        return self._place(op[0], self._toks(op[1]) + list(extra), depth + 1)

    def _place(self, l, toks, depth):
        if depth > 80:
            return ("unknown", "depth")
        if toks and toks[-1].startswith("["):
            k = self._index_const(toks[-1])
            if k is None:
                return ("unknown", "index")
            return ("elem", self._list(l, toks[:-1], depth + 1), k)
        if any(t.startswith("[") for t in toks):
            return ("unknown", "index inside a projection")
        if self._is_param(l):
            return ("param", l, "".join(toks))
        ds = self.fl.live_defs(l)
        if len(ds) != 1:
            return ("unknown", "multi" if ds else "undef")
        blk, s = ds[0]
        if s.get("k") == "call":
            c = callee(s)
            args = s["args"]
            if _INDEX.search(s["tf"]) and len(args) == 2 and not toks:
                k = self.value(args[1], depth + 1)
                if k[0] == "const":
                    return ("elem", self._list_op(args[0], [], depth + 1), k[1])
                return ("unknown", "index")
            if (_COPY.search(c) or _COPY.search(s["tf"])) and args:
                return self._place_op(args[0], toks, depth)
            m = _NA_DIMQ.match(c)
            if m and args and not toks:
                return ("dim", m.group(1), self.source_of(args[0]))
            if re.search(r"iterator::Iterator::product$", s["tf"]) and args and not toks:
                return ("count", self._iter_list(args[0], depth + 1))
            return ("unknown", "call " + c.split("::")[-1])
        rk = s.get("rk")
        src = s.get("src") or []
        if s["d"][1] != "":
            return ("unknown", "partial write")
        if rk in ("use", "ref", "rawptr") and src:
            return self._place_op(src[0], toks, depth)
        if rk == "cast" and src and not toks:
            return self._place_op(src[0], toks, depth)
        if rk == "agg":
            tk = list(toks)
            if tk and tk[0].startswith("@"):
                tk = tk[1:]
            if tk and re.match(r"\.\d+$", tk[0]) and int(tk[0][1:]) < len(src):
                return self._place_op(src[int(tk[0][1:])], tk[1:], depth)
            return ("unknown", "aggregate")
        if rk == "bin" and len(src) == 2 and (not toks or (toks == [".0"] and str(s.get("op")).endswith("WithOverflow"))):
            return ("op", str(s.get("op")).replace("WithOverflow", ""), self.value(src[0], depth + 1), self.value(src[1], depth + 1))
        return ("unknown", rk or "stmt")

    def _iter_list(self, op, depth):
        """the list an iterator operand ranges over (`xs.iter()`, `.copied()`, `.cloned()`, `into_iter()`)"""
        for _ in range(6):
            if not isinstance(op, list):
                return ("unknown", "constant")
            ds = self.fl.live_defs(op[0])
            if len(ds) == 1 and ds[0][1].get("k") == "call" and re.search(r"(::iter$|::into_iter$|::copied$|::cloned$|::by_ref$)", ds[0][1]["tf"]) and ds[0][1]["args"]:
                op = ds[0][1]["args"][0]
                continue
            break
        return self._list_op(op, [], depth)

    # ------------------------------------------------------------------ lists
    def list_of(self, op):
        """identity of the list an operand (a Vec / slice / reference to one) denotes"""
        if not isinstance(op, list):
            return ("unknown", "constant")
        return self._list(op[0], self._toks(op[1]), 0)

    def _list_op(self, op, extra, depth):
        if not isinstance(op, list):
            return ("unknown", "constant")
        return self._list(op[0], self._toks(op[1]) + list(extra), depth + 1)

    def _list(self, l, toks, depth):
        if depth > 80:
            return ("unknown", "depth")
        if any(t.startswith("[") for t in toks):
            return ("unknown", "sub-list")
        if self._is_param(l):
            return ("param", l, "".join(toks))
        ds = self.fl.live_defs(l)
        if len(ds) != 1:
            return ("local", l, "".join(toks))
        blk, s = ds[0]
        if s.get("k") == "call":
            c = callee(s)
            args = s["args"]
            if args and (_COPY.search(c) or _COPY.search(s["tf"]) or (_INDEX.search(s["tf"]) and len(args) == 2 and isinstance(args[1], list)
                                                                        and "RangeFull" in (self.b.locals[args[1][0]] if args[1][0] < len(self.b.locals) else ""))):
                return self._list_op(args[0], toks, depth)
            return ("call", c, self.source_of(args[0], depth + 1) if args else None, "".join(toks))
        rk = s.get("rk")
        src = s.get("src") or []
        if s["d"][1] != "":
            return ("local", l, "".join(toks))
        if rk in ("use", "ref", "rawptr", "cast") and src:
            return self._list_op(src[0], toks, depth)
        if rk == "agg":
            tk = list(toks)
            if tk and tk[0].startswith("@"):
                tk = tk[1:]
            if tk and re.match(r"\.\d+$", tk[0]) and int(tk[0][1:]) < len(src):
                return self._list_op(src[int(tk[0][1:])], tk[1:], depth)
            return ("agg", s.get("adt", "tuple"), blk)
        return ("local", l, "".join(toks))

    # ------------------------------------------------------------------ facts established by CFG edges
    def facts(self):
        """list of (block, target, fact) where fact is ("eq", value, value) for two extents, or ("eqlist", LIST, LIST)"""
        if self._facts is not None:
            return self._facts
        out = []
        b = self.b
        for i, blk in enumerate(b.blocks):
            if blk["cl"]:
                continue
            t = blk["t"]
            if t["k"] != "switch" or not isinstance(t["on"], list):
                continue
            if t.get("ty") == "bool":
                be = self.fl.bool_edges(i)
                kind, payload, pol = self.fl.cond(be[0])
                if kind == "cmp" and payload[0] in ("Eq", "Ne"):
                    va, vb = self.value(payload[1]), self.value(payload[2])
                    holds = (payload[0] == "Eq") == pol
                    out.append((i, be[1][holds], ("eq", va, vb)))
                elif kind == "call":
                    cb, ct = payload
                    m = re.search(r"cmp::PartialEq::(eq|ne)$", ct["tf"])
                    if m and len(ct["args"]) == 2:
                        holds = (m.group(1) == "eq") == pol
                        out.append((i, be[1][holds], ("eqlist", self.list_of(ct["args"][0]), self.list_of(ct["args"][1]))))
            elif t.get("ty") in ("usize", "u64", "u32", "isize", "i64", "i32"):
                v = self.value(t["on"])
                if v[0] in ("elem", "param", "dim"):
                    for k, tgt in t["targets"]:
                        if tgt != t["else"]:
                            out.append((i, tgt, ("eq", v, ("const", k))))
        self._facts = out
        return out

    def tested_lists(self):
        """lists one of whose elements is compared with a constant by a switch (a `match` with literal patterns on shape[0] / dims[..])"""
        out = set()
        for _, _, f in self.facts():
            if f[0] == "eq" and f[1][0] == "elem" and f[2][0] == "const":
                out.add(f[1][1])
        return out


def count_of(v):
    """the list whose element count (rows * cols) the value is, or None"""
    if v[0] == "count":
        return v[1]
    if v[0] == "op" and v[1] == "Mul" and v[2][0] == "elem" and v[3][0] == "elem" and v[2][1] == v[3][1] and {v[2][2], v[3][2]} == {0, 1}:
        return v[2][1]
    return None


def every_path_uses(body, edges, target):
    """True iff every path entry -> target uses one of the CFG edges in `edges` (a set of (block, successor)); vacuously True when target is
    unreachable"""
    edges = set(edges)
    if not edges:
        return False
    seen = set()
    st = [0]
    while st:
        x = st.pop()
        if x in seen:
            continue
        seen.add(x)
        if x == target:
            return False
        for s in body.succ(x):
            if (x, s) in edges:
                continue
            st.append(s)
    return True


def show_value(v):
    if v[0] == "const":
        return str(v[1])
    if v[0] == "elem":
        return "%s[%d]" % (show_list(v[1]), v[2])
    if v[0] == "dim":
        return "%s() of the source" % v[1]
    if v[0] == "param":
        return "parameter %d%s" % (v[1], v[2])
    if v[0] == "op":
        return "(%s %s %s)" % (show_value(v[2]), v[1], show_value(v[3]))
    return "?(%s)" % (v[1] if len(v) > 1 else "")


def show_list(L):
    if L[0] == "param":
        return "<list parameter %d%s>" % (L[1], L[2])
    if L[0] == "call":
        return "<%s(..)%s>" % ("::".join(L[1].split("::")[-2:]), L[3])
    return "<%s>" % L[0]
