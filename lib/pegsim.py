"""Concrete simulation of the nom-style parser functions of mech_syntax on a SHORT, CLOSED input text (nothing of mech is run).

The parser functions are read from the syntax tree of the compiler's expansion (the same items lib/grammar.py reads).  A parser function is
a sequence of `let (input, PAT) = COMBINATOR(input)?;` steps followed by `Ok((input, VALUE))`; the combinators are nom's and mech's own
closed vocabulary (tag / alt = ORDERED choice / pair / tuple / opt / many0 / many1 / cut / is_not / is / peek / null / range / label_* ...).
`PegSim.run(name, text)` evaluates such a function on a concrete text with nom's semantics:

    ok    the parser accepts text[pos:new_pos]          err   recoverable error (an enclosing `alt` tries its next alternative,
    fail  hard failure (`cut`, label!): NOT recoverable,      `many0` / `opt` stop and succeed with what they have)
          it aborts every enclosing alt / many0 / opt   unk   a construct this reader does not model was needed to decide

so it reproduces exactly the two things the language-level reading of a grammar (lib/grammar.py `lang`) abstracts away: the ORDER of
alternatives (`<` listed before `<=` shadows the latter) and the commitment points (`cut`: once an operator of a tighter precedence level
has accepted a prefix, the failure of its right operand is final and no looser level is ever tried).

Operands are opaque: parser functions named in `stubs` accept one identifier-like operand: the sentinel character followed by any run of
characters of `glue` (the characters the grammar allows inside an identifier) - the operand that glues with a neighbouring operator most.

Everything the simulation returns is a function of (grammar, text): it is a finite evaluation of a closed recogniser, used by rules as a
truth table over the finite set of texts an emitter can write for an operator.
"""
import re
from lib.facts import find, walk, is_node, path_of, last_seg
from lib.grammar import input_vars

OK, ERR, FAIL, UNK = "ok", "err", "fail", "unk"

SEQ = {"pair", "tuple", "nom_tuple", "preceded", "terminated", "delimited", "separated_pair"}
TRANSPARENT = {"null": 0, "range": 0, "recognize": 0, "complete": 0, "map": 0, "map_res_NOT": 0, "context": 1, "value": 1, "consumed": 0, "all_consuming_NOT": 0}
HARDEN = {"cut": 0, "label_without_recovery": 0, "label": 0}
RECOVER = {"label_with_recovery": 0, "labelr": 0}


class Res:
    __slots__ = ("status", "pos", "ops", "why")

    def __init__(self, status, pos, ops=(), why=None):
        self.status, self.pos, self.ops, self.why = status, pos, tuple(ops), why

    def __repr__(self):
        return "Res(%s, %s, %s%s)" % (self.status, self.pos, list(self.ops), (", " + str(self.why)) if self.why else "")


class PegSim:
    def __init__(self, syn_items, op_enums=(), stubs=(), sentinel="§", glue=""):
        """op_enums: names of the enums whose unit variants are recorded when a parser function returns them;
        stubs: names of parser functions treated as one opaque operand"""
        self.fns = {}
        self.helpers = {}
        for it in syn_items:
            if it["k"] != "fn" or not it.get("body") or "formatter" in it.get("mod", ""):
                continue
            ins = it["sig"].get("inputs", [])
            if any(re.search(r"\bParseString\b", str(p[1])) for p in ins) and len(ins) == 1:
                self.fns.setdefault(it["name"], it)
            else:
                self.helpers.setdefault(it["name"], it)
        # named string constants (`const XOR: &str = "⊻"`): a tag of a constant is a tag of its text
        self.consts = {}
        for it in syn_items:
            if it["k"] in ("const", "static", "iconst") and "formatter" not in it.get("mod", ""):
                v = it.get("val")
                while is_node(v) and v[0] in ("ref", "paren"):
                    v = v[2] if v[0] == "ref" else v[1]
                if is_node(v) and v[0] == "str":
                    self.consts.setdefault(it["name"], v[1])
        self.opaque_helpers = False    # True: an application of a crate helper (several arguments) that cannot be evaluated stands for one operand
        self.op_enums = set(op_enums)
        self.stubs = set(stubs)
        self.sentinel = sentinel
        self.glue = set(glue)
        self.text = ""
        self.log = []           # chronological: ("leaf", fn, ops, start, end) every operator value returned (also in branches later abandoned); ("hard", fn, pos, what)
        self.stack = []
        self.entered = []       # every parser function entered, in order (with position)

    # ------------------------------------------------------------------ public
    def run(self, name, text, pos=0):
        self.text = text
        self.log = []
        self.stack = []
        self.entered = []
        return self.call_named(name, pos)

    # ------------------------------------------------------------------ values
    def ops_in(self, e):
        out = []
        if not isinstance(e, list):
            return out
        for p in find(e, "path"):
            m = re.match(r"^(?:\w+::)*(\w+)::(\w+)$", p[1])
            if m and m.group(1) in self.op_enums:
                out.append("%s::%s" % (m.group(1), m.group(2)))
        return out

    # ------------------------------------------------------------------ named parsers
    def call_named(self, name, pos, depth=0):
        if name in self.stubs:
            return self.operand(pos)
        it = self.fns.get(name)
        if it is None:
            return Res(UNK, pos, why="unknown parser `%s`" % name)
        if (name, pos) in self.stack or len(self.stack) > 80:
            return Res(UNK, pos, why="recursion through `%s`" % name)
        self.stack.append((name, pos))
        self.entered.append((name, pos))
        try:
            posmap = {v: pos for v in input_vars(it)}
            r = self.run_body(it["body"], posmap, {}, name)
        finally:
            self.stack.pop()
        return r

    def operand(self, pos):
        t = self.text
        if pos < len(t) and t[pos] == self.sentinel:
            q = pos + 1
            while q < len(t) and (t[q] == self.sentinel or t[q] in self.glue):
                q += 1
            return Res(OK, q)
        return Res(ERR, pos)

    # ------------------------------------------------------------------ statements
    def input_arg(self, a, posmap):
        while is_node(a) and a[0] == "mcall" and a[2] == "clone" and not a[4]:
            a = a[1]
        while is_node(a) and a[0] in ("ref", "paren"):
            a = a[2] if a[0] == "ref" else a[1]
        if is_node(a) and a[0] == "path" and a[1] in posmap:
            return a[1]
        return None

    def applied(self, e, posmap):
        """e == COMB(.. input ..) possibly under `?` -> (callee expr, args, index of the input argument, has_try)"""
        tried = False
        while is_node(e) and e[0] in ("try", "paren"):
            tried = tried or e[0] == "try"
            e = e[1]
        if is_node(e) and e[0] == "call":
            ix = [i for i, a in enumerate(e[2]) if self.input_arg(a, posmap) is not None]
            if len(ix) == 1:
                f = path_of(e[1])
                # constructors of error values take the input too: they are not parser applications
                if f is not None and re.search(r"(^|::)(ParseError|Err|Error|Failure|Ok|Some)(::new)?$", f):
                    return None
                return (e[1], e[2], ix[0], tried)
        return None

    def has_application(self, e, posmap):
        return any(self.applied(c, posmap) is not None for c in find(e, "call")) if isinstance(e, list) else False

    def apply(self, app, posmap, env, fn):
        callee, args, ix, _ = app
        pos = posmap[self.input_arg(args[ix], posmap)]
        if len(args) == 1:
            return self.comb(callee, pos, env, fn)
        # helper taking parsers as further arguments: f(input, next, op)
        f = path_of(callee)
        it = self.helpers.get(last_seg(f)) if f else None
        if it is None:
            return Res(UNK, pos, why="application with several arguments")
        params = [p[0][1] if is_node(p[0]) and p[0][0] == "pident" else None for p in it["sig"]["inputs"]]
        if len(params) != len(args) or None in params:
            return Res(UNK, pos, why="helper `%s` parameters" % it["name"])
        env2 = {}
        pm2 = {}
        for i, (pn, a) in enumerate(zip(params, args)):
            if i == ix:
                pm2[pn] = pos
            else:
                env2[pn] = (a, env)
        if (it["name"], pos) in self.stack or len(self.stack) > 80:
            return Res(UNK, pos, why="recursion through `%s`" % it["name"])
        self.stack.append((it["name"], pos))
        try:
            # rebinding of the input inside the helper follows the nom convention (first component of the pair)
            pm2.update({v: pos for v in self._rebinds(it, set(pm2))})
            r = self.run_body(it["body"], pm2, env2, fn)
            if r.status == UNK and self.opaque_helpers:
                return self.operand(pos)
            return r
        finally:
            self.stack.pop()

    def _rebinds(self, it, names):
        names = set(names)
        lets = [st for st in walk(it["body"]) if st[0] == "let" and len(st) == 4 and st[2] is not None and is_node(st[1]) and st[1][0] == "ptuple" and len(st[1][1]) == 2
                and st[1][1][0][0] == "pident"]
        changed = True
        while changed:
            changed = False
            for st in lets:
                x = st[1][1][0][1]
                if x not in names and self.applied(st[2], {n: 0 for n in names}) is not None:
                    names.add(x)
                    changed = True
        return names

    def is_eof_guard(self, e, posmap):
        """`if input.is_empty() { return Err(..) }` (the leaf! macros)"""
        if not (is_node(e) and e[0] == "if" and e[3] is None):
            return None
        c = e[1]
        while is_node(c) and c[0] == "paren":
            c = c[1]
        if is_node(c) and c[0] == "mcall" and c[2] == "is_empty" and self.input_arg(c[1], posmap) is not None:
            body = e[2]
            if len(body) == 1 and body[0][0] == "expr" and is_node(body[0][1]) and body[0][1][0] == "ret":
                r = body[0][1][1]
                if is_node(r) and r[0] == "call" and path_of(r[1]) == "Err":
                    return self.input_arg(c[1], posmap)
        return None

    def run_body(self, stmts, posmap, env, fn):
        ops = []
        posmap = dict(posmap)
        for idx, st in enumerate(stmts):
            last = idx == len(stmts) - 1
            if st[0] == "let":
                pat, init = st[1], st[2]
                if init is None:
                    continue
                e = init
                # `match p(input) { Ok(v) => v, Err(e) => return Err(e) }` == `p(input)?`
                if is_node(e) and e[0] == "match" and self.applied(e[1], posmap) is not None and self._is_try_match(e):
                    e = ["try", e[1]]
                app = self.applied(e, posmap)
                if app is not None:
                    if not app[3]:
                        return Res(UNK, posmap[self.input_arg(app[1][app[2]], posmap)], ops, "parser result kept as a value in `%s`" % fn)
                    r = self.apply(app, posmap, env, fn)
                    if r.status != OK:
                        return Res(r.status, r.pos, ops + list(r.ops), r.why)
                    ops += list(r.ops)
                    if is_node(pat) and pat[0] == "ptuple" and len(pat[1]) == 2:
                        first = pat[1][0]
                        if first[0] == "pident":
                            posmap[first[1]] = r.pos
                        elif first[0] == "pwild":
                            pass
                        else:
                            return Res(UNK, r.pos, ops, "input pattern in `%s`" % fn)
                    elif is_node(pat) and pat[0] == "paren" or (is_node(pat) and pat[0] == "ptuple" and len(pat[1]) == 1):
                        return Res(UNK, r.pos, ops, "pattern in `%s`" % fn)
                    else:
                        return Res(UNK, r.pos, ops, "result not destructured in `%s`" % fn)
                    continue
                if self.has_application(init, posmap):
                    return Res(UNK, 0, ops, "parser applied inside an expression in `%s`" % fn)
                # a plain value: if it shadows an input variable, that name no longer holds the input
                for p in find(pat, "pident") if isinstance(pat, list) else []:
                    posmap.pop(p[1], None) if p[1] in posmap and not self._mentions_input(init, posmap) else None
                continue
            if st[0] == "expr":
                e = st[1]
                g = self.is_eof_guard(e, posmap)
                if g is not None:
                    if posmap[g] >= len(self.text):
                        return Res(ERR, posmap[g], ops)
                    continue
                if is_node(e) and e[0] == "ret":
                    return self.tail(e[1], posmap, env, fn, ops)
                if last and not st[2]:
                    return self.tail(e, posmap, env, fn, ops)
                if self.has_application(e, posmap):
                    return Res(UNK, 0, ops, "parser applied in a statement of `%s`" % fn)
                continue
            if st[0] in ("item", "macro", "fn", "use", "const"):
                continue
        return Res(UNK, 0, ops, "no result expression in `%s`" % fn)

    def _mentions_input(self, e, posmap):
        return any(p[1] in posmap for p in find(e, "path")) if isinstance(e, list) else False

    def _is_try_match(self, m):
        arms = m[2]
        if len(arms) != 2:
            return False
        oks = [a for a in arms if is_node(a[0]) and a[0][0] == "pts" and last_seg(a[0][1]) == "Ok"]
        errs = [a for a in arms if is_node(a[0]) and a[0][0] == "pts" and last_seg(a[0][1]) == "Err"]
        if len(oks) != 1 or len(errs) != 1:
            return False
        ok, er = oks[0], errs[0]
        sub = ok[0][2]
        if not (len(sub) == 1 and sub[0][0] == "pident" and is_node(ok[2]) and ok[2][0] == "path" and ok[2][1] == sub[0][1]):
            return False
        eb = er[2]
        while is_node(eb) and eb[0] == "block" and len(eb[1]) == 1 and eb[1][0][0] == "expr":
            eb = eb[1][0][1]
        return is_node(eb) and eb[0] == "ret" and is_node(eb[1]) and eb[1][0] == "call" and path_of(eb[1][1]) == "Err"

    def tail(self, e, posmap, env, fn, ops):
        while is_node(e) and e[0] == "paren":
            e = e[1]
        if not is_node(e):
            return Res(UNK, 0, ops, "result of `%s`" % fn)
        if e[0] in ("block", "unsafe"):
            r = self.run_body(e[1], posmap, env, fn)
            return Res(r.status, r.pos, ops + list(r.ops), r.why)
        if e[0] == "call" and path_of(e[1]) == "Ok" and len(e[2]) == 1:
            v = e[2][0]
            if is_node(v) and v[0] == "tuple" and len(v[1]) == 2:
                name = self.input_arg(v[1][0], posmap)
                if name is None:
                    return Res(UNK, 0, ops, "remaining input of `%s`" % fn)
                own = self.ops_in(v[1][1])
                if own:
                    start = self.stack[-1][1] if self.stack else 0
                    self.log.append(("leaf", fn, tuple(own), start, posmap[name]))
                    if set(ops) <= set(own):
                        # the function names its result itself: the values of its steps (`subtract` over `spaced_subtract` over `raw_subtract`) are that same token, re-labelled
                        return Res(OK, posmap[name], own)
                return Res(OK, posmap[name], ops + own)
            if is_node(v) and v[0] == "try":
                return self.tail(v[1], posmap, env, fn, ops)
            return Res(UNK, 0, ops, "Ok value of `%s`" % fn)
        if e[0] == "call" and path_of(e[1]) == "Err":
            return Res(ERR, 0, ops)
        if e[0] == "mcall" and e[2] in ("map", "map_err", "or_else_NOT") and self.applied(e[1], posmap) is not None:
            r = self.apply(self.applied(e[1], posmap), posmap, env, fn)
            extra = [o for a in e[4] for o in self.ops_in(a)] if e[2] == "map" and r.status == OK else []
            if extra:
                self.log.append(("leaf", fn, tuple(extra), self.stack[-1][1] if self.stack else 0, r.pos))
            return Res(r.status, r.pos, ops + list(r.ops) + extra, r.why)
        if e[0] == "match" and self.applied(e[1], posmap) is not None:
            arms = e[2]
            oks = [a for a in arms if is_node(a[0]) and a[0][0] == "pts" and last_seg(a[0][1]) == "Ok"]
            if len(oks) == 1 and len(arms) == 2 and not self.has_application(oks[0][2], posmap) and all(not self.has_application(a[2], posmap) for a in arms):
                okb = oks[0][2]
                if is_node(okb) and okb[0] == "call" and path_of(okb[1]) == "Ok":
                    r = self.apply(self.applied(e[1], posmap), posmap, env, fn)
                    extra = self.ops_in(okb) if r.status == OK else []
                    if extra:
                        self.log.append(("leaf", fn, tuple(extra), self.stack[-1][1] if self.stack else 0, r.pos))
                    return Res(r.status, r.pos, ops + list(r.ops) + extra, r.why)
            return Res(UNK, 0, ops, "match on a parser result in `%s`" % fn)
        app = self.applied(e, posmap)
        if app is not None:
            r = self.apply(app, posmap, env, fn)
            return Res(r.status, r.pos, ops + list(r.ops), r.why)
        return Res(UNK, 0, ops, "result expression of `%s`" % fn)

    # ------------------------------------------------------------------ combinators
    def comb(self, e, pos, env, fn, depth=0):
        if depth > 60 or not is_node(e):
            return Res(UNK, pos, why="combinator expression")
        t = e[0]
        if t == "paren":
            return self.comb(e[1], pos, env, fn, depth + 1)
        if t == "ref":
            return self.comb(e[2], pos, env, fn, depth + 1)
        if t == "path":
            if e[1] in env:
                e2, env2 = env[e[1]]
                return self.comb(e2, pos, env2, fn, depth + 1)
            return self.call_named(last_seg(e[1]), pos)
        if t == "closure":
            params = e[1]
            if len(params) == 1:
                p = params[0]
                while is_node(p) and p[0] == "ptype":
                    p = p[1]
                if is_node(p) and p[0] == "pident":
                    body = e[2]
                    stmts = body[1] if is_node(body) and body[0] == "block" else [["expr", body, False]]
                    return self.run_body(stmts, {p[1]: pos}, env, fn)
            return Res(UNK, pos, why="closure form")
        if t == "call":
            f = path_of(e[1])
            args = e[2]
            if f is None:
                return Res(UNK, pos, why="computed combinator")
            n = last_seg(f)
            if n == "tag" or n == "tag_no_case_NOT":
                a0 = args[0] if args else None
                while is_node(a0) and a0[0] in ("ref", "paren"):
                    a0 = a0[2] if a0[0] == "ref" else a0[1]
                if is_node(a0) and a0[0] == "path" and last_seg(a0[1]) in self.consts and a0[1] not in env:
                    a0 = ["str", self.consts[last_seg(a0[1])]]
                if is_node(a0) and a0[0] == "str":
                    s = a0[1]
                    if pos < len(self.text) and s != "" and self.text.startswith(s, pos):
                        return Res(OK, pos + len(s))
                    return Res(ERR, pos)
                return Res(UNK, pos, why="tag of a computed text")
            if n == "alt":
                alts = args[0][1] if args and is_node(args[0]) and args[0][0] == "tuple" else None
                if alts is None:
                    return Res(UNK, pos, why="alt form")
                for a in alts:
                    r = self.comb(a, pos, env, fn, depth + 1)
                    if r.status in (OK, FAIL, UNK):
                        return r
                return Res(ERR, pos)
            if n in SEQ:
                parts = args[0][1] if (n in ("tuple", "nom_tuple") and args and is_node(args[0]) and args[0][0] == "tuple") else args
                ops = []
                p = pos
                for a in parts:
                    r = self.comb(a, p, env, fn, depth + 1)
                    if r.status != OK:
                        return Res(r.status, r.pos, ops + list(r.ops), r.why)
                    ops += list(r.ops)
                    p = r.pos
                return Res(OK, p, ops)
            if n == "opt":
                r = self.comb(args[0], pos, env, fn, depth + 1)
                if r.status == ERR:
                    return Res(OK, pos)
                return r
            if n in ("many0", "many1", "many0_count", "many1_count", "fold_many0", "fold_many1"):
                ops = []
                p = pos
                k = 0
                while True:
                    r = self.comb(args[0], p, env, fn, depth + 1)
                    if r.status == ERR:
                        break
                    if r.status != OK:
                        return Res(r.status, r.pos, ops + list(r.ops), r.why)
                    if r.pos == p:
                        return Res(ERR, p, ops)          # nom: a repetition of a parser that consumes nothing is an error
                    ops += list(r.ops)
                    p = r.pos
                    k += 1
                    if k > 200:
                        return Res(UNK, p, ops, "repetition bound")
                if n.endswith("many1") and k == 0 or n == "many1_count" and k == 0:
                    return Res(ERR, pos)
                return Res(OK, p, ops)
            if n in ("separated_list0", "separated_list1"):
                ops = []
                r = self.comb(args[1], pos, env, fn, depth + 1)
                if r.status == ERR:
                    return Res(ERR if n.endswith("1") else OK, pos)
                if r.status != OK:
                    return r
                ops += list(r.ops)
                p = r.pos
                for _ in range(200):
                    s = self.comb(args[0], p, env, fn, depth + 1)
                    if s.status == ERR:
                        break
                    if s.status != OK:
                        return s
                    r = self.comb(args[1], s.pos, env, fn, depth + 1)
                    if r.status == ERR:
                        break
                    if r.status != OK:
                        return r
                    ops += list(s.ops) + list(r.ops)
                    p = r.pos
                return Res(OK, p, ops)
            if n in HARDEN:
                r = self.comb(args[HARDEN[n]], pos, env, fn, depth + 1)
                if r.status == ERR:
                    self.log.append(("hard", fn, r.pos if r.pos else pos, n, pos))
                    return Res(FAIL, pos, r.ops, "`%s` in `%s`" % (n, fn))
                return r
            if n in RECOVER:
                r = self.comb(args[0], pos, env, fn, depth + 1)
                if r.status in (ERR, FAIL):
                    self.log.append(("hard", fn, pos, n, pos))
                    return Res(FAIL, pos, r.ops, "`%s` in `%s` (the error is logged, the parse is not clean)" % (n, fn))
                return r
            if n in ("is_not", "not"):
                r = self.comb(args[0], pos, env, fn, depth + 1)
                if r.status in (ERR, FAIL):
                    return Res(OK, pos)
                if r.status == OK:
                    return Res(ERR, pos)
                return r
            if n in ("is", "peek"):
                r = self.comb(args[0], pos, env, fn, depth + 1)
                if r.status == OK:
                    return Res(OK, pos)
                if r.status == UNK:
                    return r
                return Res(ERR if n == "is" else r.status, pos)
            if n in TRANSPARENT and len(args) > TRANSPARENT[n]:
                r = self.comb(args[TRANSPARENT[n]], pos, env, fn, depth + 1)
                if r.status == OK and n in ("map", "value"):
                    extra = [o for i, a in enumerate(args) if i != TRANSPARENT[n] for o in self.ops_in(a)]
                    if extra:
                        self.log.append(("leaf", fn, tuple(extra), pos, r.pos))
                        return Res(OK, r.pos, list(r.ops) + extra)
                return r
            if n in ("eof",):
                return Res(OK if pos >= len(self.text) else ERR, pos)
            if n in ("success",):
                return Res(OK, pos)
            # a crate helper that BUILDS a parser from parsers: fn h(p, q) -> impl Fn.. { COMBINATOR-EXPRESSION }
            it = self.helpers.get(n)
            if it is not None and it.get("body"):
                params = [p[0][1] if is_node(p[0]) and p[0][0] == "pident" else None for p in it["sig"]["inputs"]]
                body = it["body"]
                if None not in params and len(params) == len(args) and len(body) == 1 and body[0][0] == "expr" and not body[0][2]:
                    env2 = {pn: (a, env) for pn, a in zip(params, args)}
                    return self.comb(body[0][1], pos, env2, fn, depth + 1)
            return Res(UNK, pos, why="combinator `%s`" % n)
        if t == "mcall" and e[2] in ("clone", "by_ref") and not e[4]:
            return self.comb(e[1], pos, env, fn, depth + 1)
        return Res(UNK, pos, why="combinator form `%s`" % t)
