"""Concrete simulation of the nom-style parser functions of mech_syntax on a SHORT, CLOSED input text (nothing of mech is run).

The parser functions are read from the syntax tree of the compiler's expansion (the same items lib/grammar.py reads).  A parser function is
a sequence of `let (input, PAT) = COMBINATOR(input)?;` steps followed by `Ok((input, VALUE))`; the combinators are nom's and mech's own
closed vocabulary (tag / alt = ORDERED choice / pair / tuple / opt / many0 / many1 / cut / is_not / is / peek / null / range / label_* ...).
`PegSim.run(name, text)` evaluates such a function on a concrete text with nom's semantics:

    ok    the parser accepts text[pos:new_pos]          err   recoverable error (an enclosing `alt` tries its next alternative,
    fail  hard failure (`cut`, label!): NOT recoverable,      `many0` / `opt` stop and succeed with what they have)
          it aborts every enclosing alt / many0 / opt   unk   a construct this reader does not model was needed to decide

so it reproduces exactly the two things the language-level reading of a grammar (lib/grammar.py `lang`) abstracts away: the ORDER of
alternatives (`<` listed before `<=` shadows the latter) and the commitment points (`cut`: once an operator of a tighter precedence level
has accepted a prefix, the failure of its right operand is final and no looser level is ever tried).

Operands are opaque: parser functions named in `stubs` accept one identifier-like operand: the sentinel character followed by any run of
characters of `glue` (the characters the grammar allows inside an identifier) - the operand that glues with a neighbouring operator most.

Everything the simulation returns is a function of (grammar, text): it is a finite evaluation of a closed recogniser, used by rules as a
truth table over the finite set of texts an emitter can write for an operator.
"""
import re
from lib.facts import find, walk, is_node, path_of, last_seg
from lib.grammar import input_vars

OK, ERR, FAIL, UNK = "ok", "err", "fail", "unk"

SEQ = {"pair", "tuple", "nom_tuple", "preceded", "terminated", "delimited", "separated_pair"}
TRANSPARENT = {"null": 0, "range": 0, "recognize": 0, "complete": 0, "map": 0, "map_res_NOT": 0, "context": 1, "value": 1, "consumed": 0, "all_consuming_NOT": 0}
HARDEN = {"cut": 0, "label_without_recovery": 0, "label": 0}
RECOVER = {"label_with_recovery": 0, "labelr": 0}


class Res:
    __slots__ = ("status", "pos", "ops", "why")

    def __init__(self, status, pos, ops=(), why=None):
        self.status, self.pos, self.ops, self.why = status, pos, tuple(ops), why

    def __repr__(self):
        return "Res(%s, %s, %s%s)" % (self.status, self.pos, list(self.ops), (", " + str(self.why)) if self.why else "")


class PegSim:
    def __init__(self, syn_items, op_enums=(), stubs=(), sentinel="§", glue=""):
        """op_enums: names of the enums whose unit variants are recorded when a parser function returns them;
        stubs: names of parser functions treated as one opaque operand"""
        self.fns = {}
        self.helpers = {}
        for it in syn_items:
            if it["k"] != "fn" or not it.get("body") or "formatter" in it.get("mod", ""):
                continue
            ins = it["sig"].get("inputs", [])
            if any(re.search(r"\bParseString\b", str(p[1])) for p in ins) and len(ins) == 1:
                self.fns.setdefault(it["name"], it)
            else:
                self.helpers.setdefault(it["name"], it)
        # named string constants (`const XOR: &str = "⊻"`): a tag of a constant is a tag of its text
        self.consts = {}
        for it in syn_items:
            if it["k"] in ("const", "static", "iconst") and "formatter" not in it.get("mod", ""):
                v = it.get("val")
                while is_node(v) and v[0] in ("ref", "paren"):
                    v = v[2] if v[0] == "ref" else v[1]
                if is_node(v) and v[0] == "str":
                    self.consts.setdefault(it["name"], v[1])
        self.opaque_helpers = False    # True: an application of a crate helper (several arguments) that cannot be evaluated stands for one operand
        self.op_enums = set(op_enums)
        self.stubs = set(stubs)
        self.sentinel = sentinel
        self.glue = set(glue)
        self.text = ""
        self.log = []           # chronological: ("leaf", fn, ops, start, end) every operator value returned (also in branches later abandoned); ("hard", fn, pos, what)
        self.stack = []
        self.entered = []       # every parser function entered, in order (with position)

    # ------------------------------------------------------------------ public
    def run(self, name, text, pos=0):
        self.text = text
        self.log = []
        self.stack = []
        self.entered = []
        return self.call_named(name, pos)

    # ------------------------------------------------------------------ values
    def ops_in(self, e):
        out = []
        if not isinstance(e, list):
            return out
        for p in find(e, "path"):
            m = re.match(r"^(?:\w+::)*(\w+)::(\w+)$", p[1])
            if m and m.group(1) in self.op_enums:
                out.append("%s::%s" % (m.group(1), m.group(2)))
        return out

    # ------------------------------------------------------------------ named parsers
    def call_named(self, name, pos, depth=0):
        if name in self.stubs:
            return self.operand(pos)
        it = self.fns.get(name)
        if it is None:
            return Res(UNK, pos, why="unknown parser `%s`" % name)
        if (name, pos) in self.stack or len(self.stack) > 80:
            return Res(UNK, pos, why="recursion through `%s`" % name)
        self.stack.append((name, pos))
        self.entered.append((name, pos))
        try:
            posmap = {v: pos for v in input_vars(it)}
            r = self.run_body(it["body"], posmap, {}, name)
        finally:
            self.stack.pop()
        return r

    def operand(self, pos):
        t = self.text
        if pos < len(t) and t[pos] == self.sentinel:
            q = pos + 1
            while q < len(t) and (t[q] == self.sentinel or t[q] in self.glue):
                q += 1
            return Res(OK, q)
        return Res(ERR, pos)

    # ------------------------------------------------------------------ statements
    def input_arg(self, a, posmap):
        while is_node(a) and a[0] == "mcall" and a[2] == "clone" and not a[4]:
            a = a[1]
        while is_node(a) and a[0] in ("ref", "paren"):
            a = a[2] if a[0] == "ref" else a[1]
        if is_node(a) and a[0] == "path" and a[1] in posmap:
            return a[1]
        return None

    def applied(self, e, posmap):
        """e == COMB(.. input ..) possibly under `?` -> (callee expr, args, index of the input argument, has_try)"""
        tried = False
        while is_node(e) and e[0] in ("try", "paren"):
            tried = tried or e[0] == "try"
            e = e[1]
        if is_node(e) and e[0] == "call":
            ix = [i for i, a in enumerate(e[2]) if self.input_arg(a, posmap) is not None]
            if len(ix) == 1:
                f = path_of(e[1])
                # constructors of error values take the input too: they are not parser applications
                if f is not None and re.search(r"(^|::)(ParseError|Err|Error|Failure|Ok|Some)(::new)?$", f):
                    return None
                return (e[1], e[2], ix[0], tried)
        return None

    def has_application(self, e, posmap):
        return any(self.applied(c, posmap) is not None for c in find(e, "call")) if isinstance(e, list) else False

    def apply(self, app, posmap, env, fn):
        callee, args, ix, _ = app
        pos = posmap[self.input_arg(args[ix], posmap)]
        if len(args) == 1:
            return self.comb(callee, pos, env, fn)
        # helper taking parsers as further arguments: f(input, next, op)
        f = path_of(callee)
        it = self.helpers.get(last_seg(f)) if f else None
        if it is None:
            return Res(UNK, pos, why="application with several arguments")
        params = [p[0][1] if is_node(p[0]) and p[0][0] == "pident" else None for p in it["sig"]["inputs"]]
        if len(params) != len(args) or None in params:
            return Res(UNK, pos, why="helper `%s` parameters" % it["name"])
        env2 = {}
        pm2 = {}
        for i, (pn, a) in enumerate(zip(params, args)):
            if i == ix:
                pm2[pn] = pos
            else:
                env2[pn] = (a, env)
        if (it["name"], pos) in self.stack or len(self.stack) > 80:
            return Res(UNK, pos, why="recursion through `%s`" % it["name"])
        self.stack.append((it["name"], pos))
        try:
            # rebinding of the input inside the helper follows the nom convention (first component of the pair)
            pm2.update({v: pos for v in self._rebinds(it, set(pm2))})
            r = self.run_body(it["body"], pm2, env2, fn)
            if r.status == UNK and self.opaque_helpers:
                return self.operand(pos)
            return r
        finally:
            self.stack.pop()

    def _rebinds(self, it, names):
        names = set(names)
        lets = [st for st in walk(it["body"]) if st[0] == "let" and len(st) == 4 and st[2] is not None and is_node(st[1]) and st[1][0] == "ptuple" and len(st[1][1]) == 2
                and st[1][1][0][0] == "pident"]
        changed = True
        while changed:
            changed = False
            for st in lets:
                x = st[1][1][0][1]
                if x not in names and self.applied(st[2], {n: 0 for n in names}) is not None:
                    names.add(x)
                    changed = True
        return names

    def is_eof_guard(self, e, posmap):
        """`if input.is_empty() { return Err(..) }` (the leaf! macros)"""
        if not (is_node(e) and e[0] == "if" and e[3] is None):
            return None
        c = e[1]
        while is_node(c) and c[0] == "paren":
            c = c[1]
        if is_node(c) and c[0] == "mcall" and c[2] == "is_empty" and self.input_arg(c[1], posmap) is not None:
            body = e[2]
            if len(body) == 1 and body[0][0] == "expr" and is_node(body[0][1]) and body[0][1][0] == "ret":
                r = body[0][1][1]
                if is_node(r) and r[0] == "call" and path_of(r[1]) == "Err":
                    return self.input_arg(c[1], posmap)
        return None

    # ---- statements.  A block is executed over `posmap` (local name -> position of the input it holds); the result is a signal:
    #      None (fell through) | ("ret", Res) | ("break",) | ("continue",)
    def run_body(self, stmts, posmap, env, fn):
        ops = []
        pm = dict(posmap)
        env = dict(env)
        sig = self.exec_block(stmts, pm, env, fn, ops, top=True)
        if sig is not None and sig[0] == "ret":
            return sig[1]
        return Res(UNK, 0, ops, "no result expression in `%s`" % fn)

    def _err_arm(self, arms, status):
        """the arm a failed parser application takes: `Err(nom::Err::Error(_))` only for a recoverable error, `Err(nom::Err::Failure(_))` only for a hard
        one, `Err(e)` / `Err(_)` / `_` for both"""
        for a in arms:
            p = a[0]
            if not is_node(p):
                continue
            if p[0] in ("pwild",) or (p[0] == "pident" and not p[1][:1].isupper()):
                return a
            if p[0] == "pts" and last_seg(p[1]) == "Err" and len(p[2]) == 1:
                sub = p[2][0]
                if sub[0] in ("pwild", "pident"):
                    return a
                if sub[0] == "pts":
                    k = last_seg(sub[1])
                    if (k == "Error" and status == ERR) or (k == "Failure" and status == FAIL):
                        return a
        return None

    def _bind_ok(self, pat, okpat, okbody, r, pm):
        """bind the pattern of `let PAT = match APPLIED { Ok(OKPAT) => OKBODY, .. }` (or of `if let Ok(OKPAT) = APPLIED`, PAT None) after a success at r.pos"""
        # names that hold the remaining input inside the Ok arm
        inner = {}
        if len(okpat) == 1 and okpat[0][0] == "ptuple" and len(okpat[0][1]) == 2 and okpat[0][1][0][0] == "pident":
            inner[okpat[0][1][0][1]] = r.pos
            whole = None
        elif len(okpat) == 1 and okpat[0][0] == "pident":
            whole = okpat[0][1]
        else:
            return False
        if pat is None:
            pm.update(inner)
            return whole is None
        b = okbody
        while is_node(b) and b[0] in ("paren",):
            b = b[1]
        if is_node(pat) and pat[0] == "ptuple" and len(pat[1]) == 2 and pat[1][0][0] in ("pident", "pwild"):
            if whole is not None and is_node(b) and b[0] == "path" and b[1] == whole:
                pass
            elif whole is None and is_node(b) and b[0] == "tuple" and len(b[1]) == 2 and is_node(b[1][0]) and b[1][0][0] == "path" and b[1][0][1] in inner:
                pass
            else:
                return False
            if pat[1][0][0] == "pident":
                pm[pat[1][0][1]] = r.pos
            return True
        return False

    def exec_block(self, stmts, pm, env, fn, ops, top=False):
        for idx, st in enumerate(stmts or []):
            last = idx == len(stmts) - 1
            if st[0] == "let":
                pat, init = st[1], st[2]
                while is_node(pat) and pat[0] == "ptype":
                    pat = pat[1]
                if init is None:
                    continue
                e = init
                while is_node(e) and e[0] == "paren":
                    e = e[1]
                if is_node(e) and e[0] == "match" and self.applied(e[1], pm) is not None:
                    # let PAT = match p(input) { Ok(v) => v, Err(Error) => break / return, Err(e) => return Err(e) }
                    arms = e[2]
                    oks = [a for a in arms if is_node(a[0]) and a[0][0] == "pts" and last_seg(a[0][1]) == "Ok"]
                    if len(oks) != 1:
                        return ("ret", Res(UNK, 0, ops, "match on a parser result in `%s`" % fn))
                    r = self.apply(self.applied(e[1], pm), pm, env, fn)
                    if r.status == UNK:
                        return ("ret", Res(UNK, r.pos, ops, r.why))
                    if r.status == OK:
                        ops += list(r.ops)
                        if not self._bind_ok(pat, oks[0][0][2], oks[0][2], r, pm):
                            return ("ret", Res(UNK, r.pos, ops, "Ok arm of a match on a parser result in `%s`" % fn))
                        continue
                    arm = self._err_arm([a for a in arms if a is not oks[0]], r.status)
                    sig = self._diverge(arm[2] if arm else None, r, ops, fn)
                    if sig is None:
                        return ("ret", Res(UNK, r.pos, ops, "Err arm of a match on a parser result in `%s`" % fn))
                    return sig
                app = self.applied(e, pm)
                if app is not None:
                    if not app[3]:
                        return ("ret", Res(UNK, pm[self.input_arg(app[1][app[2]], pm)], ops, "parser result kept as a value in `%s`" % fn))
                    r = self.apply(app, pm, env, fn)
                    if r.status != OK:
                        return ("ret", Res(r.status, r.pos, ops + list(r.ops), r.why))
                    ops += list(r.ops)
                    if is_node(pat) and pat[0] == "ptuple" and len(pat[1]) == 2 and pat[1][0][0] in ("pident", "pwild"):
                        if pat[1][0][0] == "pident":
                            pm[pat[1][0][1]] = r.pos
                        continue
                    return ("ret", Res(UNK, r.pos, ops, "result not destructured in `%s`" % fn))
                if self.has_application(init, pm):
                    return ("ret", Res(UNK, 0, ops, "parser applied inside an expression in `%s`" % fn))
                # a local name for a parser (`let next = l6;`, `let op = alt((a, b));`)
                if is_node(pat) and pat[0] == "pident" and is_node(e) and (
                        (e[0] == "path" and (last_seg(e[1]) in self.fns or last_seg(e[1]) in self.stubs or e[1] in env)) or
                        (e[0] == "call" and path_of(e[1]) and last_seg(path_of(e[1])) in ("alt", "pair", "tuple", "nom_tuple", "cut", "opt", "many0", "many1", "preceded", "terminated", "delimited", "tag", "map", "value", "is_not"))):
                    env[pat[1]] = (e, dict(env))
                    continue
                # a plain value; a copy of an input variable holds the same input
                src = self.input_arg(init, pm)
                if src is not None and is_node(pat) and pat[0] == "pident":
                    pm[pat[1]] = pm[src]
                    continue
                for q in find(pat, "pident") if isinstance(pat, list) else []:
                    if q[1] in pm and not self._mentions_input(init, pm):
                        pm.pop(q[1], None)
                continue
            if st[0] == "expr":
                e = st[1]
                while is_node(e) and e[0] == "paren":
                    e = e[1]
                g = self.is_eof_guard(e, pm)
                if g is not None:
                    if pm[g] >= len(self.text):
                        return ("ret", Res(ERR, pm[g], ops))
                    continue
                if is_node(e) and e[0] == "ret":
                    return ("ret", self.tail(e[1], pm, env, fn, list(ops)))
                if is_node(e) and e[0] == "break":
                    return ("break",)
                if is_node(e) and e[0] == "continue":
                    return ("continue",)
                if is_node(e) and e[0] == "assign" and is_node(e[1]) and e[1][0] == "path":
                    src = self.input_arg(e[2], pm)
                    if src is not None:
                        pm[e[1][1]] = pm[src]
                        continue
                    if e[1][1] in pm and not self.has_application(e[2], pm):
                        return ("ret", Res(UNK, 0, ops, "input variable assigned a computed value in `%s`" % fn))
                if is_node(e) and e[0] in ("loop", "while"):
                    sig = self._loop(e, pm, env, fn, ops)
                    if sig is not None:
                        return sig
                    continue
                if is_node(e) and e[0] == "if" and is_node(e[1]) and e[1][0] == "letc" and self.applied(e[1][2], pm) is not None and not (top and last and not st[2]):
                    sig = self._if_let(e, pm, env, fn, ops)
                    if sig is not None:
                        return sig
                    continue
                if top and last and not st[2]:
                    return ("ret", self.tail(e, pm, env, fn, list(ops)))
                if is_node(e) and e[0] in ("block", "unsafe") and self.has_application(e, pm):
                    sig = self.exec_block(e[1], pm, env, fn, ops)
                    if sig is not None:
                        return sig
                    continue
                if self.has_application(e, pm):
                    return ("ret", Res(UNK, 0, ops, "parser applied in a statement of `%s`" % fn))
                continue
            if st[0] in ("item", "macro", "fn", "use", "const"):
                continue
        return None

    def _diverge(self, body, r, ops, fn):
        """signal of an arm body that leaves: `break`, `continue`, `return Err(e)` (propagates the failure r)"""
        b = body
        while is_node(b) and b[0] in ("block", "unsafe") and len(b[1]) == 1 and b[1][0][0] == "expr":
            b = b[1][0][1]
        if not is_node(b):
            return None
        if b[0] == "break":
            return ("break",)
        if b[0] == "continue":
            return ("continue",)
        if b[0] == "ret" and is_node(b[1]) and b[1][0] == "call" and path_of(b[1][1]) == "Err":
            return ("ret", Res(r.status, r.pos, list(ops) + list(r.ops), r.why))
        return None

    def _if_let(self, e, pm, env, fn, ops):
        """`if let Ok((i, v)) = p(input) { .. } else { .. }` as a statement"""
        pat = e[1][1]
        if not (is_node(pat) and pat[0] == "pts" and last_seg(pat[1]) == "Ok"):
            return ("ret", Res(UNK, 0, ops, "if-let on a parser result in `%s`" % fn))
        r = self.apply(self.applied(e[1][2], pm), pm, env, fn)
        if r.status == UNK:
            return ("ret", Res(UNK, r.pos, ops, r.why))
        if r.status == OK:
            ops += list(r.ops)
            if not self._bind_ok(None, pat[2], None, r, pm):
                return ("ret", Res(UNK, r.pos, ops, "if-let pattern in `%s`" % fn))
            return self.exec_block(e[2], pm, env, fn, ops)
        if e[3] is None:
            return None
        els = e[3][1] if is_node(e[3]) and e[3][0] == "block" else [["expr", e[3], False]]
        return self.exec_block(els, pm, env, fn, ops)

    def _loop(self, e, pm, env, fn, ops):
        """`loop { .. }` and `while let Ok((i, v)) = p(input.clone()) { .. }`: a hand-written repetition"""
        body = e[1] if e[0] == "loop" else e[2]
        for _ in range(200):
            before = dict(pm)
            if e[0] == "while":
                c = e[1]
                if not (is_node(c) and c[0] == "letc" and self.applied(c[2], pm) is not None and is_node(c[1]) and c[1][0] == "pts" and last_seg(c[1][1]) == "Ok"):
                    if self.has_application(e, pm):
                        return ("ret", Res(UNK, 0, ops, "while loop in `%s`" % fn))
                    return None
                r = self.apply(self.applied(c[2], pm), pm, env, fn)
                if r.status == UNK:
                    return ("ret", Res(UNK, r.pos, ops, r.why))
                if r.status != OK:
                    return None            # `while let Ok(..)` ends on any error (a hard failure is swallowed too)
                ops += list(r.ops)
                if not self._bind_ok(None, c[1][2], None, r, pm):
                    return ("ret", Res(UNK, r.pos, ops, "while-let pattern in `%s`" % fn))
            sig = self.exec_block(body, pm, env, fn, ops)
            if sig is not None:
                if sig[0] == "break":
                    return None
                if sig[0] == "ret":
                    return sig
            if pm == before:
                return ("ret", Res(UNK, 0, ops, "loop without progress in `%s`" % fn))
        return ("ret", Res(UNK, 0, ops, "repetition bound"))

    def _mentions_input(self, e, posmap):
        return any(p[1] in posmap for p in find(e, "path")) if isinstance(e, list) else False

    def _is_try_match(self, m):
        arms = m[2]
        if len(arms) != 2:
            return False
        oks = [a for a in arms if is_node(a[0]) and a[0][0] == "pts" and last_seg(a[0][1]) == "Ok"]
        errs = [a for a in arms if is_node(a[0]) and a[0][0] == "pts" and last_seg(a[0][1]) == "Err"]
        if len(oks) != 1 or len(errs) != 1:
            return False
        ok, er = oks[0], errs[0]
        sub = ok[0][2]
        if not (len(sub) == 1 and sub[0][0] == "pident" and is_node(ok[2]) and ok[2][0] == "path" and ok[2][1] == sub[0][1]):
            return False
        eb = er[2]
        while is_node(eb) and eb[0] == "block" and len(eb[1]) == 1 and eb[1][0][0] == "expr":
            eb = eb[1][0][1]
        return is_node(eb) and eb[0] == "ret" and is_node(eb[1]) and eb[1][0] == "call" and path_of(eb[1][1]) == "Err"

    def tail(self, e, posmap, env, fn, ops):
        while is_node(e) and e[0] == "paren":
            e = e[1]
        if not is_node(e):
            return Res(UNK, 0, ops, "result of `%s`" % fn)
        if e[0] in ("block", "unsafe"):
            r = self.run_body(e[1], posmap, env, fn)
            return Res(r.status, r.pos, ops + list(r.ops), r.why)
        if e[0] == "ret":
            return self.tail(e[1], posmap, env, fn, ops)
        if e[0] == "call" and path_of(e[1]) == "Ok" and len(e[2]) == 1:
            v = e[2][0]
            if is_node(v) and v[0] == "tuple" and len(v[1]) == 2:
                name = self.input_arg(v[1][0], posmap)
                if name is None:
                    return Res(UNK, 0, ops, "remaining input of `%s`" % fn)
                own = self.ops_in(v[1][1])
                if own:
                    start = self.stack[-1][1] if self.stack else 0
                    self.log.append(("leaf", fn, tuple(own), start, posmap[name]))
                    if set(ops) <= set(own):
                        # the function names its result itself: the values of its steps (`subtract` over `spaced_subtract` over `raw_subtract`) are that same token, re-labelled
                        return Res(OK, posmap[name], own)
                return Res(OK, posmap[name], ops + own)
            if is_node(v) and v[0] == "try":
                return self.tail(v[1], posmap, env, fn, ops)
            return Res(UNK, 0, ops, "Ok value of `%s`" % fn)
        if e[0] == "call" and path_of(e[1]) == "Err":
            return Res(ERR, 0, ops)
        if e[0] == "mcall" and e[2] in ("map", "map_err", "or_else_NOT") and self.applied(e[1], posmap) is not None:
            r = self.apply(self.applied(e[1], posmap), posmap, env, fn)
            extra = [o for a in e[4] for o in self.ops_in(a)] if e[2] == "map" and r.status == OK else []
            if extra:
                self.log.append(("leaf", fn, tuple(extra), self.stack[-1][1] if self.stack else 0, r.pos))
            return Res(r.status, r.pos, ops + list(r.ops) + extra, r.why)
        if e[0] == "match" and self.applied(e[1], posmap) is not None:
            arms = e[2]
            oks = [a for a in arms if is_node(a[0]) and a[0][0] == "pts" and last_seg(a[0][1]) == "Ok"]
            if len(oks) == 1 and len(arms) == 2 and not self.has_application(oks[0][2], posmap) and all(not self.has_application(a[2], posmap) for a in arms):
                okb = oks[0][2]
                if is_node(okb) and okb[0] == "call" and path_of(okb[1]) == "Ok":
                    r = self.apply(self.applied(e[1], posmap), posmap, env, fn)
                    extra = self.ops_in(okb) if r.status == OK else []
                    if extra:
                        self.log.append(("leaf", fn, tuple(extra), self.stack[-1][1] if self.stack else 0, r.pos))
                    return Res(r.status, r.pos, ops + list(r.ops) + extra, r.why)
            return Res(UNK, 0, ops, "match on a parser result in `%s`" % fn)
        app = self.applied(e, posmap)
        if app is not None:
            r = self.apply(app, posmap, env, fn)
            return Res(r.status, r.pos, ops + list(r.ops), r.why)
        # a choice on a plain value (`if mark.is_some() { Ok((input, A)) } else { Ok((input, B)) }`, `match opt { Some(_) => Ok(..), None => Ok(..) }`):
        # decided when every branch ends the same way at the same position
        branches = None
        if e[0] == "if" and not self.has_application(e[1], posmap) and e[3] is not None:
            branches = [["block", e[2]], e[3]]
        elif e[0] == "match" and not self.has_application(e[1], posmap):
            branches = [a[2] for a in e[2]]
        if branches:
            rs = [self.tail(b, dict(posmap), env, fn, list(ops)) for b in branches]
            if all(r.status == rs[0].status and r.pos == rs[0].pos for r in rs) and rs[0].status != UNK:
                return max(rs, key=lambda r: len(r.ops))
        return Res(UNK, 0, ops, "result expression of `%s`" % fn)

    # ------------------------------------------------------------------ combinators
    def comb(self, e, pos, env, fn, depth=0):
        if depth > 60 or not is_node(e):
            return Res(UNK, pos, why="combinator expression")
        t = e[0]
        if t == "paren":
            return self.comb(e[1], pos, env, fn, depth + 1)
        if t == "ref":
            return self.comb(e[2], pos, env, fn, depth + 1)
        if t == "path":
            if e[1] in env:
                e2, env2 = env[e[1]]
                return self.comb(e2, pos, env2, fn, depth + 1)
            return self.call_named(last_seg(e[1]), pos)
        if t == "closure":
            params = e[1]
            if len(params) == 1:
                p = params[0]
                while is_node(p) and p[0] == "ptype":
                    p = p[1]
                if is_node(p) and p[0] == "pident":
                    body = e[2]
                    stmts = body[1] if is_node(body) and body[0] == "block" else [["expr", body, False]]
                    return self.run_body(stmts, {p[1]: pos}, env, fn)
            return Res(UNK, pos, why="closure form")
        if t == "call":
            f = path_of(e[1])
            args = e[2]
            if f is None:
                return Res(UNK, pos, why="computed combinator")
            n = last_seg(f)
            if n == "tag" or n == "tag_no_case_NOT":
                a0 = args[0] if args else None
                while is_node(a0) and a0[0] in ("ref", "paren"):
                    a0 = a0[2] if a0[0] == "ref" else a0[1]
                if is_node(a0) and a0[0] == "path" and last_seg(a0[1]) in self.consts and a0[1] not in env:
                    a0 = ["str", self.consts[last_seg(a0[1])]]
                if is_node(a0) and a0[0] == "str":
                    s = a0[1]
                    if pos < len(self.text) and s != "" and self.text.startswith(s, pos):
                        return Res(OK, pos + len(s))
                    return Res(ERR, pos)
                return Res(UNK, pos, why="tag of a computed text")
            if n == "alt":
                alts = args[0][1] if args and is_node(args[0]) and args[0][0] == "tuple" else None
                if alts is None:
                    return Res(UNK, pos, why="alt form")
                for a in alts:
                    r = self.comb(a, pos, env, fn, depth + 1)
                    if r.status in (OK, FAIL, UNK):
                        return r
                return Res(ERR, pos)
            if n in SEQ:
                parts = args[0][1] if (n in ("tuple", "nom_tuple") and args and is_node(args[0]) and args[0][0] == "tuple") else args
                ops = []
                p = pos
                for a in parts:
                    r = self.comb(a, p, env, fn, depth + 1)
                    if r.status != OK:
                        return Res(r.status, r.pos, ops + list(r.ops), r.why)
                    ops += list(r.ops)
                    p = r.pos
                return Res(OK, p, ops)
            if n == "opt":
                r = self.comb(args[0], pos, env, fn, depth + 1)
                if r.status == ERR:
                    return Res(OK, pos)
                return r
            if n in ("many0", "many1", "many0_count", "many1_count", "fold_many0", "fold_many1"):
                ops = []
                p = pos
                k = 0
                while True:
                    r = self.comb(args[0], p, env, fn, depth + 1)
                    if r.status == ERR:
                        break
                    if r.status != OK:
                        return Res(r.status, r.pos, ops + list(r.ops), r.why)
                    if r.pos == p:
                        return Res(ERR, p, ops)          # nom: a repetition of a parser that consumes nothing is an error
                    ops += list(r.ops)
                    p = r.pos
                    k += 1
                    if k > 200:
                        return Res(UNK, p, ops, "repetition bound")
                if n.endswith("many1") and k == 0 or n == "many1_count" and k == 0:
                    return Res(ERR, pos)
                return Res(OK, p, ops)
            if n in ("separated_list0", "separated_list1"):
                ops = []
                r = self.comb(args[1], pos, env, fn, depth + 1)
                if r.status == ERR:
                    return Res(ERR if n.endswith("1") else OK, pos)
                if r.status != OK:
                    return r
                ops += list(r.ops)
                p = r.pos
                for _ in range(200):
                    s = self.comb(args[0], p, env, fn, depth + 1)
                    if s.status == ERR:
                        break
                    if s.status != OK:
                        return s
                    r = self.comb(args[1], s.pos, env, fn, depth + 1)
                    if r.status == ERR:
                        break
                    if r.status != OK:
                        return r
                    ops += list(s.ops) + list(r.ops)
                    p = r.pos
                return Res(OK, p, ops)
            if n in HARDEN:
                r = self.comb(args[HARDEN[n]], pos, env, fn, depth + 1)
                if r.status == ERR:
                    self.log.append(("hard", fn, r.pos if r.pos else pos, n, pos))
                    return Res(FAIL, pos, r.ops, "`%s` in `%s`" % (n, fn))
                return r
            if n in RECOVER:
                r = self.comb(args[0], pos, env, fn, depth + 1)
                if r.status in (ERR, FAIL):
                    self.log.append(("hard", fn, pos, n, pos))
                    return Res(FAIL, pos, r.ops, "`%s` in `%s` (the error is logged, the parse is not clean)" % (n, fn))
                return r
            if n in ("is_not", "not"):
                r = self.comb(args[0], pos, env, fn, depth + 1)
                if r.status in (ERR, FAIL):
                    return Res(OK, pos)
                if r.status == OK:
                    return Res(ERR, pos)
                return r
            if n in ("is", "peek"):
                r = self.comb(args[0], pos, env, fn, depth + 1)
                if r.status == OK:
                    return Res(OK, pos)
                if r.status == UNK:
                    return r
                return Res(ERR if n == "is" else r.status, pos)
            if n in TRANSPARENT and len(args) > TRANSPARENT[n]:
                r = self.comb(args[TRANSPARENT[n]], pos, env, fn, depth + 1)
                if r.status == OK and n in ("map", "value"):
                    extra = [o for i, a in enumerate(args) if i != TRANSPARENT[n] for o in self.ops_in(a)]
                    if extra:
                        self.log.append(("leaf", fn, tuple(extra), pos, r.pos))
                        return Res(OK, r.pos, list(r.ops) + extra)
                return r
            if n in ("eof",):
                return Res(OK if pos >= len(self.text) else ERR, pos)
            if n in ("success",):
                return Res(OK, pos)
            # a crate helper that BUILDS a parser from parsers: fn h(p, q) -> impl Fn.. { COMBINATOR-EXPRESSION }
            it = self.helpers.get(n)
            if it is not None and it.get("body"):
                params = [p[0][1] if is_node(p[0]) and p[0][0] == "pident" else None for p in it["sig"]["inputs"]]
                body = it["body"]
                if None not in params and len(params) == len(args) and len(body) == 1 and body[0][0] == "expr" and not body[0][2]:
                    env2 = {pn: (a, env) for pn, a in zip(params, args)}
                    return self.comb(body[0][1], pos, env2, fn, depth + 1)
            return Res(UNK, pos, why="combinator `%s`" % n)
        if t == "mcall" and e[2] in ("clone", "by_ref") and not e[4]:
            return self.comb(e[1], pos, env, fn, depth + 1)
        return Res(UNK, pos, why="combinator form `%s`" % t)
