"""Line structure of nom-style recognisers (on top of lib/grammar.py).

Mechdown decides "code or prose" line by line.  This module reads a recogniser as a sequence of ITEMS and classifies every item by WHAT IT CAN CONSUME,
derived from the literal sets of the leaf token parsers of the crate (never from the spelling of a parser's name):

  NL       must consume a line end (every literal it accepts is "\\n", "\\r" or "\\r\\n"; or nom's `eof`; or an alternative of those) and is mandatory
  BLANK    nullable, can consume only in-line blanks (space, tab, nbsp ..) - never a line end
  WSNL     nullable, can consume blanks AND line ends (whitespace0, opt(new_line), many0(new_line) ..): an OPTIONAL line end
  MARK     a run (many1 / many0 / opt) of one punctuation token with a finite literal set: an underline / rule / marker run
  LA       a look-ahead (peek / is_not): consumes nothing
  TOK      a mandatory token with a finite, non-blank literal set (a sigil)
  CONTENT  anything else (text, paragraphs, sub-recognisers), mandatory or optional

Helpers are looked through: a step that applies another straight-line recogniser (`paragraph_newline` = paragraph, new_line; a private helper holding the
tail of a recogniser) is replaced by that recogniser's items, and tuple / pair / terminated / preceded sequences are flattened, so that moving steps into a
helper or a tuple does not change the item sequence.

Also: FIRST literals of a recogniser (`first_lits`): the literal texts with which an accepted input can begin, as far as they can be derived (positive
evidence: the result carries a `complete` flag), following alternatives tables of boxed closures (`alt_best(input, &parsers)`) like `alt((..))`.
"""
import re
from lib.facts import find, walk, is_node, path_of, render, last_seg
from lib.grammar import WRAP1, Skeleton

NEWLINES = {"\n", "\r", "\r\n"}
SEQ = ("tuple", "nom_tuple", "pair", "separated_pair", "delimited", "preceded", "terminated")


def term_la(e):
    """grammar term of a combinator expression, like lib.grammar.term_of, but look-aheads are kept as ("la", kind, term) instead of being erased, nom's
    `eof` is ("eof",), and a closure `|i| p(i).map(..)` is the parser it applies"""
    if not is_node(e):
        return ("unk", str(e)[:30])
    t = e[0]
    if t == "path":
        n = last_seg(e[1])
        return ("eof",) if n == "eof" else ("nt", n)
    if t == "paren":
        return term_la(e[1])
    if t == "ref":
        return term_la(e[2])
    if t == "closure":
        body = e[2]
        while is_node(body) and body[0] in ("mcall", "try", "paren"):
            body = body[1]
        if is_node(body) and body[0] == "block" and body[1]:
            last = body[1][-1]
            body = last[1] if last[0] == "expr" else None
            while is_node(body) and body[0] in ("mcall", "try", "paren"):
                body = body[1]
        if is_node(body) and body[0] == "call":
            return term_la(body[1])
        return ("unk", render(e)[:30])
    if t == "call":
        f = path_of(e[1])
        args = e[2]
        if f is None:
            return ("unk", render(e)[:30])
        n = last_seg(f)
        if n == "tag" and args and args[0][0] == "str":
            return ("lit", args[0][1])
        if n == "opt":
            return ("opt", term_la(args[0]))
        if n in ("many0", "many0_count"):
            return ("star", term_la(args[0]))
        if n in ("many1", "many1_count"):
            return ("plus", term_la(args[0]))
        if n in ("separated_list0", "separated_list1", "separated_nonempty_list"):
            return ("sep", term_la(args[0]), term_la(args[1]), n.endswith("1"))
        if n in SEQ:
            if n in ("tuple", "nom_tuple") and args and args[0][0] == "tuple":
                return ("seq", [term_la(a) for a in args[0][1]])
            return ("seq", [term_la(a) for a in args])
        if n == "alt" and args and args[0][0] == "tuple":
            alts = []
            for a in args[0][1]:
                ta = term_la(a)
                alts += ta[1] if ta[0] == "alt" else [ta]        # alt((alt((a, b)), c)) == alt((a, b, c))
            return ("alt", alts)
        if n == "peek":
            return ("la", "peek", term_la(args[0]))
        if n in ("is_not", "not"):
            return ("la", "not", term_la(args[0]))
        if n in WRAP1:
            return term_la(args[WRAP1[n]])
        if n == "many_till":
            return ("star", term_la(args[0]))
        return ("unk", render(e)[:40])
    return ("unk", render(e)[:30])


def show(t):
    k = t[0]
    if k == "nt":
        return t[1]
    if k == "lit":
        return repr(t[1])
    if k == "eof":
        return "eof"
    if k == "opt":
        return "?(%s)" % show(t[1])
    if k == "star":
        return "*(%s)" % show(t[1])
    if k == "plus":
        return "+(%s)" % show(t[1])
    if k == "sep":
        return "list(%s; %s)" % (show(t[2]), show(t[1]))
    if k == "seq":
        return "(" + ", ".join(show(x) for x in t[1]) + ")"
    if k == "alt":
        return "(" + " | ".join(show(x) for x in t[1]) + ")"
    if k == "la":
        return ("&" if t[1] == "peek" else "!") + show(t[2])
    if k == "empty":
        return "ε"
    return "?" + str(t[1])


class Item:
    __slots__ = ("kind", "term", "mandatory", "lits", "via")

    def __init__(self, kind, term, mandatory, lits=None, via=()):
        self.kind, self.term, self.mandatory, self.lits, self.via = kind, term, mandatory, lits, via

    def __repr__(self):
        return "%s%s[%s]" % (self.kind, "" if self.mandatory else "?", show(self.term))


class LineGrammar:
    def __init__(self, G):
        self.G = G
        self._steps = {}
        self._alpha = {}
        self._null = {}
        self._first = {}

    # ---- steps of a recogniser with look-aheads kept
    def steps(self, name):
        """[(term)] of the straight-line recogniser `name`, or None (not found / consumption hidden in control flow)"""
        if name in self._steps:
            return self._steps[name]
        self._steps[name] = None
        it = self.G.fns.get(name)
        if it is None:
            return None
        sk = self.G.skeleton(name)
        if sk is None or not sk.straight:
            return None
        out = self.raw_steps(it)
        # a function without any recognised step consumes its input in a way this reading does not see (grapheme tests, hand-written scanning): unknown
        if len(out) != len(sk.steps):
            return None
        tail = self.tail_step(it)
        if tail is not None:
            out = out + [tail]
        self._steps[name] = out if out else None
        return self._steps[name]

    def tail_step(self, it):
        """the parser applied in tail position `COMB(input)` (a function that IS an alternative / a sequence without binding anything), or None"""
        from lib.grammar import _applied, input_vars
        body = it["body"]
        if not body or body[-1][0] != "expr":
            return None
        e = body[-1][1]
        if not (is_node(e) and e[0] == "call"):
            return None
        comb = _applied(e, input_vars(it))
        if comb is None or path_of(comb) in ("Ok", "Err"):
            return None
        return term_la(comb)

    def raw_steps(self, it):
        """the steps `let (input, PAT) = COMB(input)?;` of a fn item, in order, whether or not the function is straight"""
        from lib.grammar import _applied, input_vars
        inputs = input_vars(it)
        out = []
        for st in it["body"]:
            if st[0] == "let" and st[2] is not None and st[1][0] == "ptuple" and len(st[1][1]) == 2:
                comb = _applied(st[2], inputs)
                first = st[1][1][0]
                if comb is not None and first[0] in ("pident", "pwild") and (first[0] == "pwild" or first[1] in inputs or re.search(r"input|^i$", first[1])):
                    out.append(term_la(comb))
        return out

    # ---- what a term can consume
    def alphabet(self, t, depth=0):
        """the set of literal texts of the leaf tokens `t` can consume (finite token classes only), or None when unknown / not a token class"""
        k = t[0]
        if depth > 10:
            return None
        if k == "lit":
            return {t[1]}
        if k in ("empty", "la", "eof"):
            return set()
        if k in ("opt", "star", "plus"):
            return self.alphabet(t[1], depth + 1)
        if k in ("seq", "alt"):
            acc = set()
            for x in t[1]:
                a = self.alphabet(x, depth + 1)
                if a is None:
                    return None
                acc |= a
            return acc
        if k == "sep":
            a, b = self.alphabet(t[1], depth + 1), self.alphabet(t[2], depth + 1)
            return None if a is None or b is None else a | b
        if k == "nt":
            n = t[1]
            if n in self._alpha:
                return self._alpha[n]
            self._alpha[n] = None
            st = self.steps(n)
            res = None
            if st:
                res = set()
                for x in st:
                    a = self.alphabet(x, depth + 1)
                    if a is None:
                        res = None
                        break
                    res |= a
                if res is not None and len(res) > 64:
                    res = None
            self._alpha[n] = res
            return res
        return None

    def nullable(self, t, depth=0):
        """True: `t` always succeeds possibly consuming nothing; False: it can fail or must consume (unknown recognisers count as False)"""
        k = t[0]
        if depth > 10:
            return False
        if k in ("opt", "star", "empty"):
            return True
        if k in ("lit", "la", "eof", "unk"):
            return False          # a look-ahead consumes nothing but can FAIL: it is not an always-succeeding step
        if k == "plus":
            return self.nullable(t[1], depth + 1)
        if k == "seq":
            return all(self.nullable(x, depth + 1) for x in t[1])
        if k == "alt":
            return any(self.nullable(x, depth + 1) for x in t[1])
        if k == "sep":
            return not t[3]
        if k == "nt":
            n = t[1]
            if n in self._null:
                return self._null[n]
            self._null[n] = False
            st = self.steps(n)
            res = bool(st) and all(self.nullable(x, depth + 1) for x in st)
            self._null[n] = res
            return res
        return False

    # ---- items
    def classify(self, t):
        k = t[0]
        if k == "la":
            return Item("LA", t, False)
        if k == "empty":
            return Item("LA", t, False)
        if k == "eof":
            return Item("NL", t, True)
        if k == "alt" and t[1] and all(self.classify(x).kind == "NL" for x in t[1]):
            return Item("NL", t, True)
        nul = self.nullable(t)
        a = self.alphabet(t)
        if a is not None and a:
            blanks = all(x.strip() == "" for x in a)
            if blanks:
                has_nl = any(("\n" in x or "\r" in x) for x in a)
                if a <= NEWLINES and not nul:
                    return Item("NL", t, True)
                if not has_nl:
                    return Item("BLANK", t, not nul, a)
                return Item("WSNL", t, not nul, a)
            if k in ("plus", "star", "opt") and t[1][0] in ("nt", "lit", "alt") and not any(x.strip() == "" for x in a):
                return Item("MARK", t, k == "plus" and not nul, a)
            if not nul and k in ("nt", "lit", "alt"):
                return Item("TOK", t, True, a)
        return Item("CONTENT", t, not nul, a)

    def items(self, name, depth=0, via=()):
        """the flattened item sequence of recogniser `name` (helpers and tuples looked through), or None"""
        st = self.steps(name)
        if st is None:
            return None
        out = []
        for t in st:
            out += self.items_of_term(t, depth, via + (name,))
        return out

    def items_of_term(self, t, depth=0, via=()):
        if t[0] == "seq":
            out = []
            for x in t[1]:
                out += self.items_of_term(x, depth, via)
            return out
        if t[0] == "nt" and depth < 3 and t[1] not in via:
            st = self.steps(t[1])
            # a composite recogniser (two or more steps): its own items; single-step token classes (whitespace0 = *(whitespace)) stay one item
            if st is not None and len(st) >= 2 and self.classify(t).kind in ("CONTENT", "WSNL"):
                sub = self.items(t[1], depth + 1, via)
                if sub is not None:
                    return sub
        it = self.classify(t)
        it.via = via
        return [it]

    # ---- FIRST literals
    def alternatives(self, it):
        """parsers offered as alternatives through a table of boxed closures (`vec![("name", Box::new(|i| p(i).map(..))), ..]` handed to a chooser)"""
        out = []
        for c in find(it["body"], "closure"):
            t = term_la(c)
            if t[0] == "nt" and t[1] in self.G.fns and t[1] != it["name"]:
                out.append(t)
        return out

    def first_lits(self, t, depth=0):
        """(literals an accepted input can start with, nullable, complete)"""
        k = t[0]
        if depth > 14:
            return set(), False, False
        if k == "lit":
            return {t[1]}, False, True
        if k in ("empty", "la"):
            return set(), True, True
        if k == "eof":
            return set(), False, True
        if k in ("opt", "star"):
            l, _, c = self.first_lits(t[1], depth + 1)
            return l, True, c
        if k == "plus":
            return self.first_lits(t[1], depth + 1)
        if k == "sep":
            l, n, c = self.first_lits(t[2], depth + 1)
            return l, n or not t[3], c
        if k == "alt":
            acc, nul, comp = set(), False, True
            for x in t[1]:
                l, n, c = self.first_lits(x, depth + 1)
                acc |= l
                nul = nul or n
                comp = comp and c
            return acc, nul, comp
        if k == "seq":
            return self._first_seq(t[1], depth)
        if k == "nt":
            n = t[1]
            if n in self._first:
                return self._first[n]
            self._first[n] = (set(), False, False)
            res = self._first_nt(n, depth)
            self._first[n] = res
            return res
        return set(), False, False

    def _first_seq(self, terms, depth):
        acc, comp = set(), True
        for x in terms:
            l, n, c = self.first_lits(x, depth + 1)
            a = self.alphabet(x)
            if not (a is not None and a and all(y.strip() == "" for y in a)):
                acc |= l          # leading blanks are not "how the input begins"
            comp = comp and c
            if not n:
                return acc, False, comp
        return acc, True, comp

    def _first_nt(self, n, depth):
        it = self.G.fns.get(n)
        if it is None:
            return set(), False, False
        a = self.alphabet(("nt", n))
        if a is not None:
            lang = self.G.lang(("nt", n))
            if lang is not None:
                return {x for x in lang if x}, "" in lang, True
            return {x for x in a if x.strip()}, self.nullable(("nt", n)), True
        st = self.steps(n)
        if st is not None:
            return self._first_seq(st, depth)
        # consumption hidden in control flow: the leading straight steps, then (if they are all nullable) a table of alternatives
        lead = self.raw_steps(it)
        acc, nul, _ = self._first_seq(lead, depth) if lead else (set(), True, True)
        if nul:
            for alt_t in self.alternatives(it):
                l, _, _ = self.first_lits(alt_t, depth + 1)
                acc |= l
        return acc, False, False


    # ---- how an accepted input can BEGIN: the blanks consumed before the first token, and that token
    def is_blank_term(self, t):
        """`t` consumes only blanks / line ends (finite alphabet, every literal is white space)"""
        a = self.alphabet(t)
        return a is not None and bool(a) and all(x.strip() == "" for x in a)

    def crosses_line_end(self, t):
        """a blank term that can consume a line end (positive evidence: a literal of its alphabet contains one)"""
        a = self.alphabet(t) or ()
        return any(("\n" in x or "\r" in x) for x in a)

    def lead_paths(self, terms, ws=(), owner=None, depth=0, seen=(), chain=()):
        """every way an input accepted by the term sequence `terms` can begin, as a list of (blank terms consumed first, literals of the first non-blank token or
        None when it is not a finite token, name of the parser function that holds the token, the terms that follow the token in that function, the chain of
        helper parsers entered on the way to the token).
        Look-aheads are skipped, alternatives are followed one by one, helper parsers (straight-line functions) are looked through, optional leading parts are both
        taken and skipped.  Used to decide which white space may stand between an operand and the operator token that follows it."""
        out = []
        if depth > 12:
            return [(ws, None, owner, (), chain)]
        terms = list(terms)
        for i, x in enumerate(terms):
            rest = terms[i + 1:]
            k = x[0]
            if k in ("la", "empty"):
                continue
            if k == "seq":
                return out + self.lead_paths(list(x[1]) + rest, ws, owner, depth + 1, seen, chain)
            if self.is_blank_term(x):
                ws = ws + (x,)
                continue
            if k == "lit":
                return out + [(ws, frozenset([x[1]]), owner, tuple(rest), chain)]
            if k == "alt":
                for y in x[1]:
                    out += self.lead_paths([y] + rest, ws, owner, depth + 1, seen, chain)
                return out
            if k in ("opt", "star", "plus"):
                out += self.lead_paths([x[1]] + ([("star", x[1])] if k != "opt" else []) + rest, ws, owner, depth + 1, seen, chain)
                if k == "plus" and not self.nullable(x[1]):
                    return out
                continue          # the optional part skipped: what follows it can begin the input too
            if k == "sep":
                out += self.lead_paths([x[2]] + rest, ws, owner, depth + 1, seen, chain)
                if x[3]:
                    return out
                continue
            if k == "nt":
                st = self.steps(x[1]) if x[1] not in seen else None
                if st:
                    out += self.lead_paths(st, ws, x[1], depth + 1, seen + (x[1],), chain + (x[1],))
                    if not self.nullable(x):
                        return out
                    continue
                a = self.alphabet(x)
                return out + [(ws, frozenset(a) if a else None, x[1], tuple(rest), chain + (x[1],))]
            return out + [(ws, None, owner, tuple(rest), chain)]
        return out


def parser_applications(node, fns):
    """pre-order (= source order) list of (parser name, call node) for every application of a parser function of the crate inside `node`: `p(x)` and
    `comb(p, ..)(x)` (opt / peek / many0 / null / label ..: every parser named in an ARGUMENT position of the combinator expression - the combinator's own
    name is not a parser even when the crate has a parser of the same name, e.g. nom's `peek` / `tuple`).  `fns`: the parser functions (Grammar.fns)."""
    out = []
    heads = set()

    def in_args(c, site):
        # c = comb(args): parsers named in the arguments, recursively
        for a in c[2]:
            for m in ([a] if is_node(a) and a[0] != "tuple" else (a[1] if is_node(a) else [])):
                if not is_node(m):
                    continue
                if m[0] in ("ref", "paren"):
                    m = m[2] if m[0] == "ref" else m[1]
                if m[0] == "path":
                    if last_seg(m[1]) in fns:
                        out.append((last_seg(m[1]), site))
                elif m[0] == "call":
                    heads.add(id(m))
                    in_args(m, site)
                elif m[0] == "tuple":
                    in_args(["call", None, m[1]], site)
                elif m[0] == "closure":
                    for n2 in walk(m[2]):
                        if n2[0] == "call" and path_of(n2[1]) and last_seg(path_of(n2[1])) in fns and id(n2) not in heads:
                            heads.add(id(n2))
                            out.append((last_seg(path_of(n2[1])), site))
    for n in walk(node):
        if n[0] != "call" or id(n) in heads:
            continue
        callee = n[1]
        p = path_of(callee)
        if p is not None:
            if last_seg(p) in fns and not (len(n[2]) == 1 and is_node(n[2][0]) and n[2][0][0] in ("tuple", "closure")):
                out.append((last_seg(p), n))
        elif is_node(callee) and callee[0] == "call":
            heads.add(id(callee))
            in_args(callee, n)
    return out
