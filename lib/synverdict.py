"""Verdict analysis over the syn JSON ASTs (on top of lib/synq.py).

Reusable pieces for rules of the form "under configuration constant m, what a function returns depends / does not depend on operand X":

* `value_leaves`  - every expression a statement list can evaluate / return to, each with the path facts (lib/synq.Flow) under which it is produced:
                    the operands of `return`, and the tail expression followed through `if` / `match` / blocks / named immutable locals whose
                    initialiser is such a control expression.  Guard clause == nested if == match-on-bool == let-else come out alike because the
                    facts are Flow's.
* `Derive`        - data dependence closure over lexically resolved bindings: does an expression (or a list of path facts = control dependence)
                    derive from a given parameter / from the result of a given call?  A local stands for everything it was initialised / assigned
                    from, a pattern binder for its scrutinee, a loop variable for its iterator.  No spelling of a local is ever compared.
* `EnumMode`      - a closed "mode" domain: a field-less enum of the crate used as a parameter type.  `const_values` evaluates an argument expression
                    to the set of variants it can denote (named locals, crate consts, `if`/`match` value position); `atom(binding, m)` gives the
                    assumption "this parameter holds variant m" for synq.truth: `p == E::V`, `p != E::V`, `matches!(p, E::V | ..)` (expanded to a
                    match), `match p { E::V => .. }` arms and `if let E::V = p`, in either polarity and through aliases of the parameter.
"""
import re
from lib.facts import find, is_node, path_of, render, render_pat, walk
from lib import synq as Q


class _All:
    def __contains__(self, x):
        return True


ALL = _All()
PANIC_RX = re.compile(r"(^|::)(panic|unreachable|todo|unimplemented)$")


def last(p):
    return re.sub(r"<.*>", "", p or "").split("::")[-1]


def unwrap_result(e):
    """`Ok(x)` / `Some(x)` / `x?` / `&x` / `{ x }` -> x ; (`Err(..)` is returned as None: not a verdict)"""
    while is_node(e):
        if e[0] == "call" and path_of(e[1]) in ("Ok", "Some") and len(e[2]) == 1:
            e = e[2][0]
        elif e[0] == "call" and path_of(e[1]) == "Err":
            return None
        elif e[0] == "try":
            e = e[1]
        elif e[0] == "ref" or (e[0] == "un" and e[1] == "*"):
            e = e[2]
        elif e[0] in ("block", "unsafe") and len(e[1]) == 1 and e[1][0][0] == "expr" and not e[1][0][2]:
            e = e[1][0][1]
        else:
            break
    return e


def value_leaves(stmts, facts=(), sc=None):
    """[(expression, facts)] for every value the statement list produces: `return` operands and tail-expression leaves.
    Returns (leaves, flow) - `flow.sites` holds the facts at EVERY node visited (want=ALL)."""
    fl = Q.Flow(stmts, facts).run(want=ALL)
    out = []
    seen = set()

    def tail(lst):
        if lst and is_node(lst[-1]) and lst[-1][0] == "expr" and not lst[-1][2]:
            leaf(lst[-1][1])

    def leaf(e, depth=4):
        if not is_node(e) or id(e) in seen:
            return
        seen.add(id(e))
        t = e[0]
        if t in ("block", "unsafe"):
            tail(e[1])
            return
        if t == "if":
            tail(e[2])
            if e[3] is not None:
                leaf(e[3], depth)
            return
        if t == "match":
            for a in e[2]:
                leaf(a[2], depth)
            return
        if t in ("ret", "break", "continue", "for", "while", "loop", "assign"):
            return
        if t == "macro" and PANIC_RX.search(e[1]):
            return
        if t == "path" and sc is not None and depth > 0:
            b = sc.binding(e)
            if sc.stable(b) and not b.mut and is_node(b.src) and b.src[0] in ("if", "match", "block") and id(b.src) in fl.sites:
                leaf(b.src, depth - 1)
                return
        site = fl.sites.get(id(e))
        if site is not None:
            out.append((e, site[1]))

    for k, n, f, _d in fl.events:
        if k == "ret" and len(n) > 1 and n[1] is not None:
            leaf(n[1])
    if fl.end is not None:
        tail(stmts)
    return out, fl


class Derive:
    """dependence closure over resolved bindings"""

    def __init__(self, sc):
        self.sc = sc

    def hits(self, e, on_binding=None, on_node=None, _seen=None, prune=None):
        """some node of `e`, or of anything a local read in `e` was made from, satisfies on_node(node) / is a read of a binding with on_binding(b);
        subtrees with prune(node) are not entered"""
        seen = _seen if _seen is not None else set()
        st = [e]
        while st:
            x = st.pop()
            if not isinstance(x, list):
                continue
            if is_node(x):
                if prune is not None and prune(x):
                    continue
                if on_node is not None and on_node(x):
                    return True
                if x[0] == "path":
                    b = self.sc.binding(x)
                    if b is not None:
                        if on_binding is not None and on_binding(b):
                            return True
                        if id(b) not in seen:
                            seen.add(id(b))
                            if b.src is not None:
                                st.append(b.src)
                            st.extend(b.assigns)
                    continue
                if x[0] == "item":
                    continue
                if x[0] == "macro":
                    # unexpanded macro text: conservative textual read of a binding's name is NOT attempted (facts come from expanded code)
                    continue
            st.extend(y for y in x if isinstance(y, list))
        return False

    def facts_hit(self, facts, on_binding=None, on_node=None):
        return any(self.hits(c, on_binding, on_node) for c, _pol in facts)


def param_binding(sc, it, name):
    """the Binding object of parameter `name` of fn item `it` (None when the parameter is never read)"""
    for b in sc.use.values():
        if b.kind == "param" and b.name == name and b.owner is it:
            return b
    return None


def fieldless_enums(items):
    out = {}
    for it in items:
        if it["k"] == "enum" and it.get("variants") and all(not v.get("fields") for v in it["variants"]):
            out.setdefault(it["name"], []).append(it)
    return {k: [v["name"] for v in its[0]["variants"]] for k, its in out.items() if len(its) == 1}


def type_head(ty):
    """`&mut a::b::T<..>` -> T"""
    ty = re.sub(r"<.*>", "", ty or "")
    ty = re.sub(r"^(&\s*(mut\s+)?|\s)+", "", ty.strip())
    ty = re.sub(r"^'\w+\s+", "", ty)
    ty = re.sub(r"^(mut\s+)", "", ty)
    return ty.split("::")[-1].strip()


class EnumMode:
    is_bool = False

    def __init__(self, name, variants):
        self.name = name
        self.variants = list(variants)

    def label(self, m):
        return "%s::%s" % (self.name, m)

    def variant_of_path(self, p):
        if not isinstance(p, str):
            return None
        segs = re.sub(r"<.*>", "", p).split("::")
        if segs[-1] in self.variants and (len(segs) == 1 or segs[-2] in (self.name, "Self")):
            return segs[-1]
        return None

    def const_values(self, sc, e, depth=4):
        """set of variants the expression can denote, or None (not a constant of this enum)"""
        if depth <= 0 or not is_node(e):
            return None
        x = e
        for _ in range(6):
            y = Q.strip(sc.expand(x) if sc is not None else x)
            if y is x:
                break
            x = y
        if not is_node(x):
            return None
        if x[0] == "path":
            v = self.variant_of_path(x[1])
            return {v} if v is not None else None
        if x[0] in ("block", "unsafe"):
            if x[1] and x[1][-1][0] == "expr" and not x[1][-1][2]:
                return self.const_values(sc, x[1][-1][1], depth - 1)
            return None
        if x[0] == "if" and x[3] is not None:
            a = self.const_values(sc, ["block", x[2]], depth - 1)
            b = self.const_values(sc, x[3], depth - 1)
            return (a | b) if a is not None and b is not None else None
        if x[0] == "match":
            out = set()
            for arm in x[2]:
                body = arm[2]
                if is_node(body) and (body[0] in ("ret", "break", "continue") or (body[0] == "macro" and PANIC_RX.search(body[1]))):
                    continue
                v = self.const_values(sc, body, depth - 1)
                if v is None:
                    return None
                out |= v
            return out or None
        return None

    def pat_matches(self, pat, m):
        """does variant m match the pattern: True / False / None (not a pattern over this enum)"""
        while is_node(pat) and pat[0] in ("pref", "ptype"):
            pat = pat[2] if pat[0] == "pref" else pat[1]
        if not is_node(pat):
            return None
        if pat[0] == "pwild":
            return True
        if pat[0] == "pident":
            v = self.variant_of_path(pat[1])
            if v is not None:
                return v == m
            if pat[4] is not None:
                return self.pat_matches(pat[4], m)
            return True          # a binder
        if pat[0] == "ppath":
            v = self.variant_of_path(pat[1])
            return None if v is None else v == m
        if pat[0] == "por":
            vals = [self.pat_matches(x, m) for x in pat[1]]
            if any(v is True for v in vals):
                return True
            return False if all(v is False for v in vals) else None
        return None

    def atom(self, sc, is_mode, m):
        """assumption `the expressions satisfying is_mode hold variant m`, as an atom function for synq.truth / contradicted"""
        def const(e):
            vs = self.const_values(sc, e)
            return next(iter(vs)) if vs is not None and len(vs) == 1 else None

        def atom(e):
            t = e[0]
            if t == "bin" and e[1] in ("==", "!="):
                for x, y in ((e[2], e[3]), (e[3], e[2])):
                    if is_mode(x):
                        v = const(y)
                        if v is not None:
                            return (v == m) == (e[1] == "==")
                return None
            if t in ("marm", "letc"):
                pat, val = (e[2], e[1]) if t == "marm" else (e[1], e[2])
                if is_mode(val):
                    return self.pat_matches(pat, m)
                return None
            if t == "match" and is_mode(e[1]):
                for arm in e[2]:
                    pm = self.pat_matches(arm[0], m)
                    if pm is None or (pm and arm[1] is not None):
                        return None
                    if pm:
                        return Q.truth(arm[2], atom, sc)
                return None
            return None
        return atom


class BoolMode(EnumMode):
    """the same closed-domain interface for a `bool` flag parameter: variants True / False"""
    is_bool = True

    def __init__(self):
        self.name = "bool"
        self.variants = [True, False]

    def label(self, m):
        return "true" if m else "false"

    def variant_of_path(self, p):
        return None

    def const_values(self, sc, e, depth=4):
        if depth <= 0 or not is_node(e):
            return None
        x = Q.strip(sc.expand(e) if sc is not None else e)
        if is_node(x) and x[0] == "bool":
            return {bool(x[1])}
        if is_node(x) and x[0] == "un" and x[1] == "!":
            v = self.const_values(sc, x[2], depth - 1)
            return {not b for b in v} if v is not None else None
        if is_node(x) and x[0] in ("if", "match", "block", "unsafe"):
            return EnumMode.const_values(self, sc, x, depth)
        return None

    def pat_matches(self, pat, m):
        while is_node(pat) and pat[0] in ("pref", "ptype"):
            pat = pat[2] if pat[0] == "pref" else pat[1]
        if not is_node(pat):
            return None
        if pat[0] == "pwild" or (pat[0] == "pident" and pat[4] is None):
            return True
        if pat[0] == "plit" and is_node(pat[1]) and pat[1][0] == "bool":
            return bool(pat[1][1]) == m
        if pat[0] == "por":
            vals = [self.pat_matches(x, m) for x in pat[1]]
            return True if any(v is True for v in vals) else False if all(v is False for v in vals) else None
        return None

    def atom(self, sc, is_mode, m):
        inner = EnumMode.atom(self, sc, is_mode, m)

        def atom(e):
            if e[0] in ("path", "ref", "mcall", "cast") or (e[0] == "un" and e[1] == "*"):
                if is_mode(e):
                    return m
                return None
            if e[0] == "bin":
                return None          # `flag == true` is evaluated by synq.truth through the operand
            return inner(e)
        return atom
