"""Concrete evaluation of MIR bodies over a small MODEL WORLD (a finite behavioural table computed from the compiler's MIR, nothing is run).

`lib/ministmt.py` evaluates closed index arithmetic written at the syntax level; this module does the same job one level down, on the MIR facts, for
routines whose behaviour is decided by control flow, calls into the crate's own helpers and a handful of std containers:  a rule builds a world
(model values by TYPE: a statement node with m targets, a tuple value with n elements, a symbol table with some names already bound), evaluates the
routine once per row of a finite table, and reads the outcome (Ok / Err / panic) and the final state of the model.  Because it is the MIR that is
evaluated, every spelling of one control flow is the same thing (guard clause / nested if, if-let / match / let-else, `?` / match-Err-return,
for loop / iterator adaptor with a closure / try_for_each) and private helpers and closures are simply entered.

Values
    int, bool, UNIT                        scalars
    Opaque(tag)                            a value the model does not know; any BRANCH on it raises Undecided (never a guess)
    Adt(name, var, fields)                 struct / enum variant / tuple (name "()"); fields may be materialised lazily from the ADT records
    Ref(loc, mut)                          reference / raw pointer to a location (container, key)
    RcObj / CellObj / BoxObj / Guard       Rc<T>, RefCell<T>, Box<T>, cell::Ref / RefMut guards
    VecObj / MapObj                        Vec<T> / [T] and HashMap<K, V>
    Iter                                   slice / range / enumerate / zip / take / skip / rev / map / filter ... iterators
    Closure(fn, upvars) / FnItem(path)     callables (their MIR bodies are entered)

What is not modelled is Opaque; an unmodelled callee that is handed a mutable reference to model state raises Undecided, so a verdict is never
built on an effect that the evaluator silently dropped.
"""
import re
from lib.facts import fns_in_type


class Undecided(Exception):
    pass


class Panic(Exception):
    pass


class _Unit:
    def __repr__(self):
        return "()"


UNIT = _Unit()
UNSET = object()
NOT_HANDLED = object()


class Opaque:
    __slots__ = ("tag",)

    def __init__(self, tag=""):
        self.tag = tag

    def __repr__(self):
        return "?%s" % (self.tag[:40],)


class Adt:
    __slots__ = ("name", "var", "fields", "lazy", "world")

    def __init__(self, name, var, fields, lazy=None, world=None):
        self.name, self.var, self.fields, self.lazy, self.world = name, var, fields, lazy, world

    def getf(self, i):
        if self.lazy and i in self.lazy:
            self.fields[i] = self.world.make(self.lazy.pop(i))
        if i >= len(self.fields):
            raise Undecided("field %d of %s::%s" % (i, self.name, self.var))
        return self.fields[i]

    def setf(self, i, v):
        if self.lazy:
            self.lazy.pop(i, None)
        while i >= len(self.fields):
            self.fields.append(UNSET)
        self.fields[i] = v

    def __repr__(self):
        return "%s::%s%s" % (self.name.split("::")[-1], self.var, self.fields if len(self.fields) < 4 else "[..]")


class Loc:
    """a location: element `key` of a container (python list, Adt fields)"""
    __slots__ = ("c", "k")

    def __init__(self, c, k):
        self.c, self.k = c, k

    def get(self):
        if isinstance(self.c, Adt):
            return self.c.getf(self.k)
        try:
            return self.c[self.k]
        except IndexError:
            raise Panic("index %s out of range" % (self.k,))

    def set(self, v):
        if isinstance(self.c, Adt):
            self.c.setf(self.k, v)
        else:
            self.c[self.k] = v


class OpaqueLoc:
    def __init__(self, tag=""):
        self.tag = tag

    def get(self):
        return Opaque(self.tag)

    def set(self, v):
        pass


class Ref:
    __slots__ = ("loc", "mut")

    def __init__(self, loc, mut=False):
        self.loc, self.mut = loc, mut

    def __repr__(self):
        return "&.."


class RcObj:
    def __init__(self, v):
        self.slot = [v]


class CellObj:
    def __init__(self, v):
        self.slot = [v]


class BoxObj:
    def __init__(self, v):
        self.slot = [v]


class Guard:
    def __init__(self, loc, mut=False):
        self.loc, self.mut = loc, mut


class VecObj:
    def __init__(self, items):
        self.items = list(items)


class MapObj:
    def __init__(self, d=None):
        self.d = dict(d or {})


class Closure:
    def __init__(self, fn, upvars):
        self.fn, self.upvars = fn, list(upvars)


class FnItem:
    def __init__(self, path):
        self.path = path


class Iter:
    """kind: slice(vec,pos,end) range(cur,end) enumerate(inner,count) zip(a,b) take(inner,n) skip(inner,n) rev(inner) map(inner,f) filter(inner,f)
    cloned(inner) chain(a,b) opaque"""

    def __init__(self, kind, **kw):
        self.kind = kind
        self.__dict__.update(kw)

    def copy(self):
        o = Iter(self.kind)
        for k, v in self.__dict__.items():
            o.__dict__[k] = v.copy() if isinstance(v, Iter) else v
        return o


def deref(v):
    """the value a (chain of) reference(s) / box(es) points to"""
    n = 0
    while True:
        n += 1
        if n > 50:
            raise Undecided("reference cycle")
        if isinstance(v, Ref):
            v = v.loc.get()
        elif isinstance(v, BoxObj):
            v = v.slot[0]
        else:
            return v


def is_opaque(v):
    return isinstance(v, Opaque) or v is UNSET


def vmove(v):
    """a MIR `use` (copy or move): inline aggregates are copied, everything with an identity (heap objects, references) is shared"""
    if isinstance(v, Adt):
        return Adt(v.name, v.var, [vmove(x) for x in v.fields], dict(v.lazy) if v.lazy else None, v.world)
    return v


def vclone(v, d=0):
    """Clone::clone: owned data is copied, Rc cells (and references) are shared"""
    if d > 40:
        raise Undecided("clone depth")
    if isinstance(v, Adt):
        return Adt(v.name, v.var, [vclone(x, d + 1) for x in v.fields], dict(v.lazy) if v.lazy else None, v.world)
    if isinstance(v, VecObj):
        return VecObj([vclone(x, d + 1) for x in v.items])
    if isinstance(v, MapObj):
        return MapObj({k: vclone(x, d + 1) for k, x in v.d.items()})
    if isinstance(v, BoxObj):
        return BoxObj(vclone(v.slot[0], d + 1))
    if isinstance(v, CellObj):
        return CellObj(vclone(v.slot[0], d + 1))
    if isinstance(v, Iter):
        return v.copy()
    if isinstance(v, Closure):
        return Closure(v.fn, [vclone(x, d + 1) for x in v.upvars])
    return v


STD_DISCR = {
    "core::option::Option": ["None", "Some"],
    "core::result::Result": ["Ok", "Err"],
    "core::ops::control_flow::ControlFlow": ["Continue", "Break"],
}


def split_type(ty):
    """'a::B<X,Y<Z>>' -> ('a::B', ['X', 'Y<Z>']);   '&T' / '&mut T' -> ('&', ['T'])"""
    ty = ty.strip()
    if ty.startswith("&mut "):
        return "&", [ty[5:]]
    if ty.startswith("&"):
        return "&", [ty[1:]]
    i = ty.find("<")
    if i < 0 or not ty.endswith(">"):
        return ty, []
    head, inner = ty[:i], ty[i + 1:-1]
    args, depth, cur = [], 0, ""
    for ch in inner:
        if ch in "<([":
            depth += 1
        elif ch in ">)]":
            depth -= 1
        if ch == "," and depth == 0:
            args.append(cur.strip())
            cur = ""
        else:
            cur += ch
    if cur.strip():
        args.append(cur.strip())
    return head, args


def some(v):
    return Adt("core::option::Option", "Some", [v])


def none():
    return Adt("core::option::Option", "None", [])


def ok(v):
    return Adt("core::result::Result", "Ok", [v])


def err(v):
    return Adt("core::result::Result", "Err", [v])


def tup(*xs):
    return Adt("()", "", list(xs))


PROJ = re.compile(r"\*|\.\d+|@[A-Za-z_0-9#]+|\[_\d+\]|\[-?\d+\]|\[\d+\.\.-?\d+\]|\?")

PANICKING = re.compile(r"core::panicking::|std::rt::begin_panic|std::panicking::|core::option::(unwrap|expect)_failed|core::result::unwrap_failed|"
                       r"core::slice::index::slice_\w+_fail|alloc::raw_vec::capacity_overflow|core::cell::panic_already")

TRANSPARENT_REF = re.compile(
    r"core::ops::deref::Deref(Mut)?::deref(_mut)?$|core::convert::As(Ref|Mut)::as_(ref|mut)$|core::borrow::Borrow(Mut)?::borrow(_mut)?$|"
    r"alloc::vec::Vec::<T, A>::as_(mut_)?slice$|core::slice::<impl \[T\]>::as_(mut_)?ref$|alloc::string::String::as_str$")


class World:
    """the model: ADT records (for discriminants and for building values by type), bodies that may be entered, rule hooks"""

    def __init__(self, facts, crates, bodies, hooks=None, opaque_ret=None):
        self.adts = {}
        for c in crates:
            for a in facts.adts(c):
                self.adts.setdefault(a["name"], a)
        self.bodies = bodies                  # fn path -> lib.facts.Body (the crates whose code is entered)
        self.hooks = hooks or (lambda *a: NOT_HANDLED)
        self.opaque_ret = opaque_ret          # regex on the RETURN TYPE of a crate function: such a callee builds a diagnostic, it is not entered
        self.singletons = {}
        self.makers = []                      # [(regex on type, fn(world, ty) -> value)] consulted first by make()
        self.fuel = 0
        self.trace = []

    # ---------------------------------------------------------------- building values by type
    def variant_index(self, adt, var):
        if adt in STD_DISCR:
            return STD_DISCR[adt].index(var)
        if adt == "core::cmp::Ordering":
            return {"Less": -1, "Equal": 0, "Greater": 1}[var]
        r = self.adts.get(adt)
        if r is None:
            return None
        for i, v in enumerate(r["variants"]):
            if v["name"] == var:
                return i
        return None

    def make(self, ty):
        """a model value of type `ty`: shared state (Rc cells) is a singleton per type, containers the rule did not designate are Opaque"""
        ty = ty.strip()
        for rx, fn in self.makers:
            if rx.search(ty):
                v = fn(self, ty)
                if v is not NOT_HANDLED:
                    return v
        head, args = split_type(ty)
        if head in ("alloc::rc::Rc", "alloc::sync::Arc") and args:
            if ty not in self.singletons:
                self.singletons[ty] = RcObj(UNSET)
                self.singletons[ty].slot[0] = self.make(args[0])
            return self.singletons[ty]
        if head in ("core::cell::RefCell", "core::cell::Cell") and args:
            return CellObj(self.make(args[0]))
        if head == "alloc::boxed::Box" and args:
            return BoxObj(self.make(args[0]))
        r = self.adts.get(head)
        if r is not None and not r["enum"] and len(r["variants"]) == 1:
            fields = r["variants"][0]["fields"]
            lazy = {}
            for i, f in enumerate(fields):
                fty = f[1]
                if args:
                    # generic struct: its parameters are named T, U, V ... in the record (single-letter convention of the code base)
                    for pn, a in zip(("T", "U", "V", "W"), args):
                        fty = re.sub(r"\b%s\b" % pn, a.replace("\\", "\\\\"), fty)
                lazy[i] = fty
            return Adt(head, r["variants"][0]["name"], [UNSET] * len(fields), lazy, self)
        return Opaque(ty)

    # ---------------------------------------------------------------- evaluation
    def run(self, fn, args, fuel=200000):
        self.fuel = fuel
        return self.call_body(self.bodies[fn], args, 0)

    def call_body(self, b, args, depth):
        if depth > 40:
            raise Undecided("call depth")
        fr = [UNSET] * len(b.locals)
        if len(args) != b.nargs:
            raise Undecided("arity of %s" % b.fn)
        for i, a in enumerate(args):
            fr[i + 1] = a
        blk = 0
        while True:
            self.fuel -= 1
            if self.fuel < 0:
                raise Undecided("fuel")
            B = b.blocks[blk]
            for s in B["s"]:
                self.stmt(b, fr, s)
            t = B["t"]
            k = t["k"]
            if k == "goto":
                blk = t["t"]
            elif k == "ret":
                return fr[0] if fr[0] is not UNSET else UNIT
            elif k == "switch":
                v = self.operand(b, fr, t["on"])
                if isinstance(v, bool):
                    v = int(v)
                if not isinstance(v, int):
                    raise Undecided("branch on an unknown value in %s (line %s)" % (b.fn, t.get("l")))
                nxt = t["else"]
                for val, tgt in t["targets"]:
                    if val == v:
                        nxt = tgt
                blk = nxt
            elif k == "drop":
                blk = t["t"]
            elif k == "assert":
                v = self.operand(b, fr, t["cond"])
                if isinstance(v, (bool, int)) and bool(v) != bool(t["exp"]):
                    raise Panic("%s in %s" % (t.get("msg"), b.fn))
                blk = t["t"]
            elif k == "call":
                val = self.call(b, fr, t, depth)
                self.place(b, fr, t["d"]).set(val)
                if "t" not in t:
                    raise Panic("diverging call %s" % (t.get("f") or t["tf"]))
                blk = t["t"]
            elif k == "unreachable":
                raise Undecided("reached `unreachable` in %s" % b.fn)
            elif k == "other" and len(t.get("succ", [])) == 1:
                blk = t["succ"][0]
            else:
                raise Undecided("terminator %s" % k)

    def place(self, b, fr, p):
        loc = Loc(fr, p[0])
        proj = p[1]
        if not proj:
            return loc
        for tok in PROJ.findall(proj):
            v = loc.get()
            if tok == "*":
                if isinstance(v, Ref):
                    loc = v.loc
                elif isinstance(v, (BoxObj, RcObj)):
                    loc = Loc(v.slot, 0)
                elif is_opaque(v):
                    return OpaqueLoc("deref")
                else:
                    raise Undecided("deref of %r" % (v,))
            elif tok[0] == ".":
                i = int(tok[1:])
                if isinstance(v, Adt):
                    loc = Loc(v, i)
                elif isinstance(v, Closure):
                    loc = Loc(v.upvars, i)
                elif isinstance(v, (BoxObj, RcObj)):
                    pass                          # Box<T>.0 (Unique) .0 (NonNull) .pointer: still the box; the `*` that follows reaches the content
                elif is_opaque(v):
                    return OpaqueLoc("field")
                else:
                    raise Undecided("field %d of %r" % (i, v))
            elif tok[0] == "@":
                if isinstance(v, Adt):
                    if v.var != tok[1:] and not tok[1:].isdigit():
                        raise Undecided("downcast of %r to %s" % (v, tok))
                elif not is_opaque(v):
                    raise Undecided("downcast of %r" % (v,))
            elif tok.startswith("[_"):
                i = fr[int(tok[2:-1])]
                if isinstance(v, VecObj) and isinstance(i, int):
                    if not 0 <= i < len(v.items):
                        raise Panic("index out of bounds")
                    loc = Loc(v.items, i)
                elif is_opaque(v) or is_opaque(i):
                    return OpaqueLoc("index")
                else:
                    raise Undecided("index")
            elif tok[0] == "[" and ".." not in tok:
                i = int(tok[1:-1].lstrip("-"))
                if isinstance(v, VecObj):
                    if tok[1] == "-":
                        i = len(v.items) - i
                    if not 0 <= i < len(v.items):
                        raise Panic("index out of bounds")
                    loc = Loc(v.items, i)
                elif is_opaque(v):
                    return OpaqueLoc("index")
                else:
                    raise Undecided("constant index")
            else:
                return OpaqueLoc(tok)
        return loc

    def operand(self, b, fr, o):
        if isinstance(o, list):
            v = self.place(b, fr, o).get()
            return vmove(v)
        if isinstance(o, dict):
            if "fn" in o:
                fs = fns_in_type(o["fn"])
                return FnItem(fs[0]) if fs else Opaque("fn")
            c, ty = o.get("c"), o.get("t", "")
            if ty == "bool":
                return c == "true"
            if ty == "()":
                return UNIT
            if isinstance(c, str) and re.match(r"^-?\d+$", c):
                return int(c)
            return Opaque("const %s" % (c,))
        return Opaque("operand")

    def discr(self, v):
        if isinstance(v, Adt):
            i = self.variant_index(v.name, v.var)
            if i is None:
                raise Undecided("discriminant of %s::%s" % (v.name, v.var))
            return i
        if is_opaque(v):
            return Opaque("discr")
        raise Undecided("discriminant of %r" % (v,))

    def stmt(self, b, fr, s):
        rk = s.get("rk")
        if rk == "use":
            val = self.operand(b, fr, s["src"][0])
        elif rk in ("ref", "rawptr"):
            val = Ref(self.place(b, fr, s["src"][0]), bool(s.get("mut")))
        elif rk == "cast":
            val = self.operand(b, fr, s["src"][0])
        elif rk == "bin":
            val = binop(s["op"], self.operand(b, fr, s["src"][0]), self.operand(b, fr, s["src"][1]))
        elif rk == "un":
            v = self.operand(b, fr, s["src"][0])
            op = s["op"]
            if is_opaque(v):
                val = Opaque("un")
            elif op == "Not":
                val = (not v) if isinstance(v, bool) else ~v
            elif op == "Neg":
                val = -v
            elif op == "PtrMetadata":
                t = deref(v)
                val = len(t.items) if isinstance(t, VecObj) else Opaque("meta")
            else:
                val = Opaque("un " + op)
        elif rk == "discr":
            val = self.discr(self.place(b, fr, s["src"][0]).get())
        elif rk == "agg":
            ops = [self.operand(b, fr, o) for o in s["src"]]
            if "adt" in s:
                val = Adt(s["adt"], s["var"], ops)
            elif s.get("tuple"):
                val = tup(*ops)
            elif "closure" in s:
                val = Closure(s["closure"], ops)
            elif s.get("array"):
                val = VecObj(ops)
            else:
                val = Opaque("aggregate")
        elif rk == "setdiscr":
            return
        else:
            val = Opaque("rvalue %s" % rk)
        self.place(b, fr, s["d"]).set(val)

    # ---------------------------------------------------------------- calls
    def call(self, b, fr, t, depth):
        name = t.get("f") or t["tf"]
        args = [self.operand(b, fr, a) for a in t["args"]]
        rty = b.locals[t["d"][0]] if not t["d"][1] else ""
        if t["tf"] in ("<fnptr>", "<dyn>"):
            f = self.operand(b, fr, t["fp"]) if "fp" in t else None
            if isinstance(f, (Closure, FnItem)):
                return self.call_value(f, args, depth)
            return self.unknown(name, args, rty)
        return self.call_named(name, t["tf"], args, rty, depth, t)

    def call_value(self, f, args, depth):
        """call a closure / fn item with its logical arguments"""
        f = deref(f)
        if isinstance(f, Closure):
            cb = self.bodies.get(f.fn)
            if cb is None:
                raise Undecided("closure body %s" % f.fn)
            env = Ref(Loc([f], 0), True) if cb.locals[1].startswith("&") else f
            if cb.nargs != 1 + len(args):
                raise Undecided("closure arity %s" % f.fn)
            return self.call_body(cb, [env] + list(args), depth + 1)
        if isinstance(f, FnItem):
            return self.call_named(f.path, f.path, list(args), "", depth, None)
        raise Undecided("call of %r" % (f,))

    def call_named(self, name, tf, args, rty, depth, t):
        h = self.hooks(self, name, args, t)
        if h is not NOT_HANDLED:
            return h
        if PANICKING.search(name):
            raise Panic(name)
        cb = self.bodies.get(name)
        if cb is not None:
            if self.opaque_ret is not None and self.opaque_ret.search(cb.locals[0]):
                return self.unknown(name, args, cb.locals[0])
            return self.call_body(cb, args, depth + 1)
        for key in (name, tf):
            r = self.native(key, args, rty, depth)
            if r is not NOT_HANDLED:
                return r
        return self.unknown(name, args, rty)

    def unknown(self, name, args, rty):
        for a in args:
            if isinstance(a, Ref) and a.mut and not is_opaque(a.loc.get() if not isinstance(a.loc, OpaqueLoc) else Opaque()):
                raise Undecided("unmodelled callee %s is handed a mutable reference to model state" % name)
            if isinstance(a, (MapObj, RcObj)):
                pass
        if rty in ("()",):
            return UNIT
        return Opaque("%s -> %s" % (name.split("::")[-1], rty[:60]))

    # ---------------------------------------------------------------- std models
    def native(self, name, args, rty, depth):
        last = name.split("::")[-1]
        a0 = args[0] if args else None
        if name.endswith("core::clone::Clone::clone") or re.search(r" as core::clone::Clone>::clone$", name):
            return vclone(deref(a0))
        if TRANSPARENT_REF.search(name) or re.search(r" as core::ops::deref::Deref(Mut)?>::deref(_mut)?$| as core::convert::As(Ref|Mut)<.*>>::as_(ref|mut)$| as core::borrow::Borrow(Mut)?<.*>>::borrow(_mut)?$", name):
            mut = last.endswith("_mut")
            if not isinstance(a0, Ref):
                return Opaque(last)
            v = a0.loc.get()                 # the receiver itself (&self was passed)
            if isinstance(v, Ref):           # &&T
                v2 = v.loc.get()
                if isinstance(v2, (Guard, RcObj, BoxObj)):
                    a0, v = v, v2
            if isinstance(v, Guard):
                return Ref(v.loc, mut or v.mut)
            if isinstance(v, RcObj):
                return Ref(Loc(v.slot, 0), False)
            if isinstance(v, BoxObj):
                return Ref(Loc(v.slot, 0), mut)
            if is_opaque(v):
                return Opaque(last)
            return Ref(a0.loc, mut or a0.mut)      # Vec -> slice, String -> str, T -> T
        if re.search(r"alloc::(rc::Rc|sync::Arc)::<T>::new$", name):
            return RcObj(a0)
        if re.search(r"core::cell::(RefCell|Cell)::<T>::new$", name):
            return CellObj(a0)
        if re.search(r"alloc::boxed::Box::<T>::new$", name):
            return BoxObj(a0)
        if re.search(r"core::cell::RefCell::<T>::(borrow|borrow_mut)$", name):
            c = deref(a0)
            if isinstance(c, CellObj):
                return Guard(Loc(c.slot, 0), last == "borrow_mut")
            return Opaque(last)
        if re.search(r"core::mem::drop$|core::mem::forget$", name):
            return UNIT
        if re.search(r"core::mem::(replace|take|swap)$", name) and isinstance(a0, Ref):
            old = a0.loc.get()
            if last == "replace":
                a0.loc.set(args[1])
                return old
            if last == "swap" and isinstance(args[1], Ref):
                a0.loc.set(args[1].loc.get())
                args[1].loc.set(old)
                return UNIT
            raise Undecided("mem::take")
        if re.search(r"core::convert::(From|Into)::(from|into)$| as core::convert::(From|Into)<.*>>::(from|into)$", name) and len(args) == 1:
            return a0
        # ---- Try
        if name.endswith("::branch") and "Try" in name:
            v = deref(a0) if isinstance(a0, Ref) else a0
            if isinstance(v, Adt) and v.name == "core::result::Result":
                if v.var == "Ok":
                    return Adt("core::ops::control_flow::ControlFlow", "Continue", [v.fields[0]])
                return Adt("core::ops::control_flow::ControlFlow", "Break", [err(v.fields[0])])
            if isinstance(v, Adt) and v.name == "core::option::Option":
                if v.var == "Some":
                    return Adt("core::ops::control_flow::ControlFlow", "Continue", [v.fields[0]])
                return Adt("core::ops::control_flow::ControlFlow", "Break", [none()])
            if isinstance(v, Adt) and v.name == "core::ops::control_flow::ControlFlow":
                return v
            if is_opaque(v):
                return Opaque("branch")
            raise Undecided("Try::branch on %r" % (v,))
        if name.endswith("::from_residual"):
            v = a0
            if isinstance(v, Adt) and v.name == "core::result::Result" and v.var == "Err":
                return err(v.fields[0])
            if isinstance(v, Adt) and v.name == "core::option::Option":
                return none()
            return Opaque("residual")
        if name.endswith("Try::from_output") or re.search(r" as core::ops::try_trait::Try>::from_output$", name):
            if rty.startswith("core::option::Option"):
                return some(a0)
            if rty.startswith("core::result::Result"):
                return ok(a0)
            return Opaque("from_output")
        # ---- Option / Result
        m = re.search(r"core::(option::Option|result::Result)::<.*?>::(\w+)$", name)
        if m:
            return self.opt_res(m.group(1), m.group(2), args, rty, depth)
        # ---- Vec / slice
        m = re.search(r"alloc::vec::Vec::<T(, A)?>::(\w+)$|core::slice::<impl \[T\]>::(\w+)$|alloc::slice::<impl \[T\]>::(\w+)$", name)
        if m:
            meth = m.group(2) or m.group(3) or m.group(4)
            return self.vec(meth, args, rty, depth)
        if re.search(r"core::ops::index::Index(Mut)?::index(_mut)?$| as core::ops::index::Index(Mut)?<.*>>::index(_mut)?$", name) and len(args) == 2:
            c, i = deref(a0), args[1]
            if isinstance(c, VecObj) and isinstance(i, int) and not isinstance(i, bool):
                if not 0 <= i < len(c.items):
                    raise Panic("index out of bounds: the len is %d but the index is %d" % (len(c.items), i))
                return Ref(Loc(c.items, i), last.endswith("_mut"))
            if isinstance(c, MapObj):
                k = mkey(i)
                if k not in c.d:
                    raise Panic("key not found")
                return Ref(Loc(c.d, k), last.endswith("_mut"))
            if is_opaque(c) or is_opaque(i):
                return Opaque("index")
            raise Undecided("Index::index on %r" % (c,))
        # ---- HashMap
        m = re.search(r"collections::hash::map::HashMap::<K, V(, S)?(, A)?>::(\w+)$|indexmap::map::IndexMap::<K, V(, S)?>::(\w+)$", name)
        if m:
            return self.hmap(m.group(3) or m.group(5), args, rty)
        # ---- iterators
        if re.search(r"core::iter::traits::collect::IntoIterator::into_iter$| as core::iter::traits::collect::IntoIterator>::into_iter$", name):
            return self.into_iter(a0)
        m = re.search(r"core::iter::traits::(iterator::Iterator|double_ended::DoubleEndedIterator|exact_size::ExactSizeIterator)::(\w+)$| as core::iter::traits::(iterator::Iterator|double_ended::DoubleEndedIterator|exact_size::ExactSizeIterator)>::(\w+)$", name)
        if m:
            return self.iterator(m.group(2) or m.group(4), args, rty, depth)
        # ---- integers
        m = re.search(r"core::num::<impl (u|i)(size|8|16|32|64|128)>::(\w+)$", name)
        if m and all(isinstance(x, int) and not isinstance(x, bool) for x in args):
            return intop(m.group(3), m.group(1) == "u", args)
        m = re.search(r"core::cmp::(PartialEq|PartialOrd|Ord)::(\w+)$| as core::cmp::(PartialEq|PartialOrd|Ord)(<.*>)?>::(\w+)$|core::cmp::impls::<impl core::cmp::(PartialEq|PartialOrd|Ord)(<.*>)? for .*>::(\w+)$", name)
        if m and len(args) == 2:
            x, y = deref(args[0]), deref(args[1])
            op = m.group(2) or m.group(5) or m.group(8)
            if isinstance(x, (int, bool)) and isinstance(y, (int, bool)):
                f = {"eq": lambda: x == y, "ne": lambda: x != y, "lt": lambda: x < y, "le": lambda: x <= y, "gt": lambda: x > y, "ge": lambda: x >= y,
                     "max": lambda: max(x, y), "min": lambda: min(x, y),
                     "cmp": lambda: Adt("core::cmp::Ordering", "Less" if x < y else "Equal" if x == y else "Greater", [])}.get(op)
                if f:
                    return f()
            return Opaque(op)
        if re.search(r"core::cmp::(max|min)$", name) and len(args) == 2 and all(isinstance(x, int) for x in args):
            return max(args) if last == "max" else min(args)
        m = re.search(r"core::ops::function::Fn(Mut|Once)?::call(_mut|_once)?$", name)
        if m and len(args) == 2:
            tp = args[1]
            return self.call_value(a0, list(tp.fields) if isinstance(tp, Adt) else [], depth)
        return NOT_HANDLED

    def opt_res(self, kind, meth, args, rty, depth):
        v = args[0]
        by_ref = isinstance(v, Ref)
        o = deref(v) if by_ref else v
        if not isinstance(o, Adt):
            if is_opaque(o):
                return Opaque(meth)
            raise Undecided("%s on %r" % (meth, o))
        isopt = kind.startswith("option")
        good = o.var in ("Some", "Ok")
        pay = o.fields[0] if o.fields else None
        if meth in ("is_some", "is_ok"):
            return good
        if meth in ("is_none", "is_err"):
            return not good
        if meth in ("unwrap", "expect", "unwrap_unchecked"):
            if not good:
                raise Panic("%s on %s" % (meth, o.var))
            return pay
        if meth in ("unwrap_err", "expect_err"):
            if good:
                raise Panic(meth)
            return pay
        if meth in ("as_ref", "as_mut", "as_deref"):
            if good:
                return Adt(o.name, o.var, [Ref(Loc(o, 0), meth == "as_mut")])
            return Adt(o.name, o.var, [Ref(Loc(o, 0))] if o.fields else [])
        if meth in ("cloned", "copied"):
            return Adt(o.name, o.var, [vclone(deref(pay))]) if good else o
        if meth == "ok_or":
            return ok(pay) if good else err(args[1])
        if meth == "ok_or_else":
            return ok(pay) if good else err(self.call_value(args[1], [], depth))
        if meth == "ok":
            return some(pay) if good else none()
        if meth == "err":
            return none() if good else some(pay)
        if meth == "map":
            return Adt(o.name, o.var, [self.call_value(args[1], [pay], depth)]) if good else o
        if meth == "map_err":
            return o if good else err(self.call_value(args[1], [pay], depth))
        if meth == "and_then":
            return self.call_value(args[1], [pay], depth) if good else o
        if meth == "or_else":
            return o if good else self.call_value(args[1], [] if isopt else [pay], depth)
        if meth == "unwrap_or":
            return pay if good else args[1]
        if meth == "unwrap_or_else":
            return pay if good else self.call_value(args[1], [] if isopt else [pay], depth)
        if meth == "unwrap_or_default":
            if good:
                return pay
            return Opaque("default")
        if meth in ("is_some_and", "is_ok_and"):
            return bool(good and truth(self.call_value(args[1], [pay], depth)))
        if meth in ("is_none_or",):
            return bool((not good) or truth(self.call_value(args[1], [pay], depth)))
        if meth == "filter" and isopt:
            return o if good and truth(self.call_value(args[1], [Ref(Loc(o, 0))], depth)) else none()
        if meth == "take" and isopt and by_ref:
            v.loc.set(none())
            return o
        if meth in ("and",):
            return args[1] if good else o
        if meth in ("or",):
            return o if good else args[1]
        if meth == "iter" or meth == "into_iter":
            return Iter("slice", vec=VecObj([pay] if good else []), pos=0, end=None)
        return Opaque(meth)

    def vec(self, meth, args, rty, depth):
        if meth in ("new", "with_capacity") and (not args or isinstance(args[0], int)):
            return VecObj([])
        v = deref(args[0]) if args else None
        if not isinstance(v, VecObj):
            if args and isinstance(args[0], Ref) and args[0].mut and not is_opaque(v):
                raise Undecided("Vec::%s on %r" % (meth, v))
            return Opaque(meth)
        n = len(v.items)
        if meth == "len":
            return n
        if meth == "is_empty":
            return n == 0
        if meth in ("iter", "iter_mut"):
            return Iter("slice", vec=v, pos=0, end=None)
        if meth == "push":
            v.items.append(args[1])
            return UNIT
        if meth == "pop":
            return some(v.items.pop()) if v.items else none()
        if meth == "clear":
            del v.items[:]
            return UNIT
        if meth in ("get", "get_mut") and isinstance(args[1], int):
            return some(Ref(Loc(v.items, args[1]), meth == "get_mut")) if 0 <= args[1] < n else none()
        if meth in ("first", "first_mut"):
            return some(Ref(Loc(v.items, 0))) if n else none()
        if meth in ("last", "last_mut"):
            return some(Ref(Loc(v.items, n - 1))) if n else none()
        if meth == "to_vec":
            return vclone(v)
        if meth == "contains":
            x = deref(args[1])
            if all(isinstance(deref(i), (int, bool)) for i in v.items) and isinstance(x, (int, bool)):
                return any(deref(i) == x for i in v.items)
            return Opaque("contains")
        if args and isinstance(args[0], Ref) and args[0].mut:
            raise Undecided("Vec::%s" % meth)
        return Opaque(meth)

    def hmap(self, meth, args, rty):
        if meth in ("new", "with_capacity", "default"):
            return MapObj()
        m = deref(args[0]) if args else None
        if not isinstance(m, MapObj):
            if args and isinstance(args[0], Ref) and args[0].mut and not is_opaque(m):
                raise Undecided("HashMap::%s on %r" % (meth, m))
            return Opaque(meth)
        if meth == "len":
            return len(m.d)
        if meth == "is_empty":
            return not m.d
        k = mkey(args[1]) if len(args) > 1 else None
        if meth == "contains_key":
            return k in m.d
        if meth == "get":
            return some(Ref(Loc(m.d, k))) if k in m.d else none()
        if meth == "get_mut":
            return some(Ref(Loc(m.d, k), True)) if k in m.d else none()
        if meth == "insert":
            old = m.d.get(k, UNSET)
            m.d[k] = args[2]
            return none() if old is UNSET else some(old)
        if meth == "remove":
            old = m.d.pop(k, UNSET)
            return none() if old is UNSET else some(old)
        if meth == "clear":
            m.d.clear()
            return UNIT
        if meth in ("keys", "values", "iter"):
            ks = list(m.d)
            if meth == "keys":
                return Iter("slice", vec=VecObj(ks), pos=0, end=None)
            if meth == "values":
                return Iter("slice", vec=VecObj([m.d[k_] for k_ in ks]), pos=0, end=None)
            return Iter("pairs", vec=VecObj([tup(Ref(Loc([k_], 0)), Ref(Loc(m.d, k_))) for k_ in ks]), pos=0)
        if isinstance(args[0], Ref) and args[0].mut:
            raise Undecided("HashMap::%s" % meth)
        return Opaque(meth)

    def into_iter(self, v):
        if isinstance(v, Iter):
            return v
        t = deref(v)
        if isinstance(t, Iter):
            return t
        if isinstance(t, VecObj):
            if isinstance(v, Ref):
                return Iter("slice", vec=t, pos=0, end=None)
            return Iter("owned", vec=t, pos=0)
        if isinstance(t, Adt) and t.name in ("core::ops::range::Range", "core::ops::Range") and all(isinstance(x, int) for x in t.fields):
            return Iter("range", cur=t.fields[0], end=t.fields[1])
        if isinstance(t, Adt) and t.name.endswith("RangeInclusive"):
            raise Undecided("RangeInclusive")
        if isinstance(t, Adt) and t.name == "core::option::Option":
            return Iter("owned", vec=VecObj(list(t.fields) if t.var == "Some" else []), pos=0)
        if is_opaque(t):
            return Iter("opaque")
        raise Undecided("into_iter of %r" % (t,))

    def next(self, it, depth):
        """-> (True, item) | (False, None)"""
        self.fuel -= 1
        if self.fuel < 0:
            raise Undecided("fuel")
        k = it.kind
        if k == "slice":
            end = len(it.vec.items) if it.end is None else it.end
            if it.pos < end:
                it.pos += 1
                return True, Ref(Loc(it.vec.items, it.pos - 1))
            return False, None
        if k in ("owned", "pairs"):
            if it.pos < len(it.vec.items):
                it.pos += 1
                return True, it.vec.items[it.pos - 1]
            return False, None
        if k == "range":
            if it.cur < it.end:
                it.cur += 1
                return True, it.cur - 1
            return False, None
        if k == "enumerate":
            okk, x = self.next(it.inner, depth)
            if not okk:
                return False, None
            it.count += 1
            return True, tup(it.count - 1, x)
        if k == "zip":
            ok1, x = self.next(it.a, depth)
            if not ok1:
                return False, None
            ok2, y = self.next(it.b, depth)
            if not ok2:
                return False, None
            return True, tup(x, y)
        if k == "chain":
            ok1, x = self.next(it.a, depth)
            if ok1:
                return True, x
            return self.next(it.b, depth)
        if k == "take":
            if it.n <= 0:
                return False, None
            it.n -= 1
            return self.next(it.inner, depth)
        if k == "skip":
            while it.n > 0:
                it.n -= 1
                okk, _ = self.next(it.inner, depth)
                if not okk:
                    return False, None
            return self.next(it.inner, depth)
        if k == "rev":
            inner = it.inner
            if inner.kind == "slice":
                end = len(inner.vec.items) if inner.end is None else inner.end
                if inner.pos < end:
                    inner.end = end - 1
                    return True, Ref(Loc(inner.vec.items, end - 1))
                return False, None
            if inner.kind == "range":
                if inner.cur < inner.end:
                    inner.end -= 1
                    return True, inner.end
                return False, None
            if inner.kind == "enumerate" and inner.inner.kind == "slice":
                s = inner.inner
                end = len(s.vec.items) if s.end is None else s.end
                if s.pos < end:
                    s.end = end - 1
                    return True, tup(inner.count + (end - 1 - s.pos), Ref(Loc(s.vec.items, end - 1)))
                return False, None
            raise Undecided("rev of %s" % inner.kind)
        if k == "map":
            okk, x = self.next(it.inner, depth)
            if not okk:
                return False, None
            return True, self.call_value(it.f, [x], depth)
        if k == "filter":
            while True:
                okk, x = self.next(it.inner, depth)
                if not okk:
                    return False, None
                if truth(self.call_value(it.f, [Ref(Loc([x], 0))], depth)):
                    return True, x
        if k == "filter_map":
            while True:
                okk, x = self.next(it.inner, depth)
                if not okk:
                    return False, None
                r = self.call_value(it.f, [x], depth)
                if not isinstance(r, Adt):
                    raise Undecided("filter_map result")
                if r.var == "Some":
                    return True, r.fields[0]
        if k == "cloned":
            okk, x = self.next(it.inner, depth)
            if not okk:
                return False, None
            return True, vclone(deref(x))
        if k == "take_while":
            if it.done:
                return False, None
            okk, x = self.next(it.inner, depth)
            if okk and truth(self.call_value(it.f, [Ref(Loc([x], 0))], depth)):
                return True, x
            it.done = True
            return False, None
        if k == "skip_while":
            while True:
                okk, x = self.next(it.inner, depth)
                if not okk:
                    return False, None
                if it.done or not truth(self.call_value(it.f, [Ref(Loc([x], 0))], depth)):
                    it.done = True
                    return True, x
        raise Undecided("iteration over an unknown sequence")

    def iterator(self, meth, args, rty, depth):
        a0 = args[0] if args else None
        it = deref(a0)
        if not isinstance(it, Iter):
            if is_opaque(it):
                if meth == "next":
                    raise Undecided("iteration over an unknown sequence")
                return Opaque(meth) if meth in ("len", "count", "size_hint") else Iter("opaque")
            raise Undecided("Iterator::%s on %r" % (meth, it))
        if meth in ("next", "next_back"):
            if meth == "next_back":
                it = Iter("rev", inner=it)
            okk, x = self.next(it, depth)
            return some(x) if okk else none()
        if meth == "enumerate":
            return Iter("enumerate", inner=it, count=0)
        if meth == "zip":
            return Iter("zip", a=it, b=self.into_iter(args[1]))
        if meth == "chain":
            return Iter("chain", a=it, b=self.into_iter(args[1]))
        if meth in ("take", "skip") and isinstance(args[1], int):
            return Iter(meth, inner=it, n=args[1])
        if meth == "rev":
            return Iter("rev", inner=it)
        if meth in ("map", "filter", "filter_map"):
            return Iter(meth, inner=it, f=args[1])
        if meth in ("take_while", "skip_while"):
            return Iter(meth, inner=it, f=args[1], done=False)
        if meth in ("cloned", "copied"):
            return Iter("cloned", inner=it)
        if meth in ("by_ref", "peekable", "fuse", "into_iter"):
            return it
        if meth in ("len", "count"):
            c = it.copy() if meth == "len" else it
            n = 0
            while self.next(c, depth)[0]:
                n += 1
            return n
        if meth == "last":
            lastv = None
            while True:
                okk, x = self.next(it, depth)
                if not okk:
                    return none() if lastv is None else some(lastv[0])
                lastv = [x]
        if meth == "nth" and isinstance(args[1], int):
            for _ in range(args[1]):
                if not self.next(it, depth)[0]:
                    return none()
            okk, x = self.next(it, depth)
            return some(x) if okk else none()
        if meth in ("all", "any"):
            while True:
                okk, x = self.next(it, depth)
                if not okk:
                    return meth == "all"
                r = truth(self.call_value(args[1], [x], depth))
                if meth == "all" and not r:
                    return False
                if meth == "any" and r:
                    return True
        if meth in ("find", "position", "find_map"):
            i = 0
            while True:
                okk, x = self.next(it, depth)
                if not okk:
                    return none()
                if meth == "find_map":
                    r = self.call_value(args[1], [x], depth)
                    if not isinstance(r, Adt):
                        raise Undecided("find_map")
                    if r.var == "Some":
                        return r
                else:
                    r = truth(self.call_value(args[1], [Ref(Loc([x], 0))] if meth == "find" else [x], depth))
                    if r:
                        return some(x) if meth == "find" else some(i)
                i += 1
        if meth == "for_each":
            while True:
                okk, x = self.next(it, depth)
                if not okk:
                    return UNIT
                self.call_value(args[1], [x], depth)
        if meth == "try_for_each":
            while True:
                okk, x = self.next(it, depth)
                if not okk:
                    if rty.startswith("core::result::Result"):
                        return ok(UNIT)
                    if rty.startswith("core::option::Option"):
                        return some(UNIT)
                    if rty.startswith("core::ops::control_flow::ControlFlow"):
                        return Adt("core::ops::control_flow::ControlFlow", "Continue", [UNIT])
                    raise Undecided("try_for_each result type %s" % rty[:40])
                r = self.call_value(args[1], [x], depth)
                if not isinstance(r, Adt):
                    raise Undecided("try_for_each on an unknown result")
                if r.var in ("Err", "None", "Break"):
                    return r
        if meth in ("fold", "try_fold"):
            acc = args[1]
            while True:
                okk, x = self.next(it, depth)
                if not okk:
                    if meth == "try_fold":
                        if rty.startswith("core::result::Result"):
                            return ok(acc)
                        if rty.startswith("core::option::Option"):
                            return some(acc)
                        raise Undecided("try_fold result type")
                    return acc
                r = self.call_value(args[2], [acc, x], depth)
                if meth == "try_fold":
                    if not isinstance(r, Adt):
                        raise Undecided("try_fold")
                    if r.var in ("Err", "None", "Break"):
                        return r
                    acc = r.fields[0]
                else:
                    acc = r
        if meth == "collect":
            out = []
            while True:
                okk, x = self.next(it, depth)
                if not okk:
                    break
                out.append(x)
            if rty.startswith("alloc::vec::Vec"):
                return VecObj(out)
            if rty.startswith("core::result::Result<alloc::vec::Vec"):
                good = []
                for x in out:
                    if not isinstance(x, Adt):
                        raise Undecided("collect")
                    if x.var == "Err":
                        return x
                    good.append(x.fields[0])
                return ok(VecObj(good))
            raise Undecided("collect into %s" % rty[:50])
        if meth == "size_hint":
            return Opaque("size_hint")
        raise Undecided("Iterator::%s" % meth)


def truth(v):
    if isinstance(v, bool):
        return v
    if isinstance(v, int):
        return bool(v)
    raise Undecided("closure result is not a known bool")


def mkey(k):
    k = deref(k)
    if isinstance(k, (int, bool, str)):
        return k
    if isinstance(k, Adt) and all(isinstance(x, (int, bool, str)) for x in k.fields):
        return (k.name, k.var) + tuple(k.fields)
    if is_opaque(k):
        return ("opaque", id(k))
    return ("obj", id(k))


def binop(op, a, b):
    if is_opaque(a) or is_opaque(b) or isinstance(a, Ref) or isinstance(b, Ref):
        if op.endswith("WithOverflow"):
            return tup(Opaque(op), False)
        return Opaque(op)
    if isinstance(a, _Unit) or isinstance(b, _Unit):
        return Opaque(op)
    base = op.replace("WithOverflow", "").replace("Unchecked", "")
    try:
        v = {"Add": lambda: a + b, "Sub": lambda: a - b, "Mul": lambda: a * b, "Div": lambda: a // b, "Rem": lambda: a % b,
             "Lt": lambda: a < b, "Le": lambda: a <= b, "Gt": lambda: a > b, "Ge": lambda: a >= b, "Eq": lambda: a == b, "Ne": lambda: a != b,
             "BitAnd": lambda: a & b, "BitOr": lambda: a | b, "BitXor": lambda: a ^ b, "Shl": lambda: a << b, "Shr": lambda: a >> b}[base]()
    except KeyError:
        return Opaque(op)
    except (TypeError, ZeroDivisionError):
        raise Undecided("binary op %s" % op)
    if op.endswith("WithOverflow"):
        # the model's integers are the unsigned machine words of index arithmetic: going below zero is the overflow that the following Assert reports
        return tup(v, isinstance(v, int) and not isinstance(v, bool) and v < 0)
    return v


def intop(meth, unsigned, args):
    a = args[0]
    b = args[1] if len(args) > 1 else None
    if meth in ("checked_sub", "checked_add", "checked_mul") and b is not None:
        v = a - b if meth == "checked_sub" else a + b if meth == "checked_add" else a * b
        return none() if (unsigned and v < 0) else some(v)
    if meth == "saturating_sub" and b is not None:
        return max(0, a - b) if unsigned else a - b
    if meth in ("saturating_add", "wrapping_add") and b is not None:
        return a + b
    if meth == "wrapping_sub" and b is not None:
        if unsigned and a - b < 0:
            return (a - b) % (1 << 64)
        return a - b
    if meth == "abs_diff" and b is not None:
        return abs(a - b)
    if meth in ("min", "max") and b is not None:
        return min(a, b) if meth == "min" else max(a, b)
    if meth == "pow" and b is not None:
        return a ** b
    return Opaque(meth)
