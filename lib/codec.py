"""Encoder / decoder table extraction: per match arm, the ordered list of (width, what) written or read."""
import re
from lib.facts import find, walk, is_node, path_of, render, render_pat, last_seg

W = {"u8": 1, "i8": 1, "u16": 2, "i16": 2, "u32": 4, "i32": 4, "u64": 8, "i64": 8, "u128": 16, "i128": 16, "f32": 4, "f64": 8}


def io_seq(node, kind):
    """ordered (method-width, argument/binding text) for write_* / read_* calls inside node (pre-order = source order)"""
    out = []
    for n in walk(node):
        if n[0] == "mcall":
            m = re.match(r"^%s_(u8|i8|u16|i16|u32|i32|u64|i64|u128|i128|f32|f64)$" % kind, n[2])
            if m:
                out.append((m.group(1), render(n[4][0])[:40] if n[4] else ""))
            elif kind == "write" and n[2] in ("extend_from_slice", "write_all"):
                out.append(("bytes", render(n[4][0])[:40] if n[4] else ""))
            elif kind == "read" and n[2] in ("read_exact",):
                out.append(("bytes", render(n[4][0])[:40] if n[4] else ""))
    return out


def read_bindings(node):
    """ordered (width, bound name) for `let NAME = cur.read_uN()?` statements"""
    out = []
    for st in find(node, "let"):
        if len(st) != 4 or st[2] is None:
            continue
        for mc in find(st[2], "mcall"):
            m = re.match(r"^read_(u8|u16|u32|u64|i8|i16|i32|i64|f32|f64|u128|i128)$", mc[2])
            if m and st[1][0] == "pident":
                out.append((m.group(1), st[1][1]))
                break
    return out


def arms_of(method_body, enum_prefix):
    """{variant: arm} for the first match whose arm patterns start with enum_prefix"""
    for m in find(method_body, "match"):
        arms = {}
        for a in m[2]:
            p = a[0]
            alts = p[1] if p[0] == "por" else [p]
            for alt in alts:
                txt = render_pat(alt)
                mm = re.search(r"%s::(\w+)" % re.escape(enum_prefix), txt)
                if mm:
                    arms[mm.group(1)] = a
        if len(arms) >= 3:
            return arms
    return {}
