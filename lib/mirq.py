"""Queries over MIR bodies: provenance (backward slices), call matching, edge dominance, exits."""
import re
from collections import defaultdict

# callees through which a value "passes" for provenance purposes (result derives from receiver/arg 0..n)
PASS_THROUGH = re.compile(
    r"(::deref$|::deref_mut$|::as_ref$|::as_mut$|::borrow$|::borrow_mut$|::clone$|::unwrap$|::unwrap_or$|::expect$|"
    r"::into$|::from$|::as_path$|::as_str$|::as_slice$|::to_path_buf$|::to_owned$|::to_string$|::branch$|::into_iter$|"
    r"::iter$|::as_deref$|::as_ptr$|::as_mut_ptr$|::index$|::index_mut$|::next$|::unwrap_or_default$|::ok$|::map_err$|"
    r"::from_residual$|::new_unchecked$|::get_unchecked$|::as_unchecked$)")


class Slice:
    def __init__(self, body, passthrough=PASS_THROUGH, extra_pass=None):
        self.b = body
        self.defs = body.defs()
        self.pt = passthrough
        self.extra = extra_pass

    def roots(self, operand, limit=4000):
        """set of root descriptors feeding `operand`:
           ('arg', i) | ('call', callee, block) | ('const', text) | ('fn', text) | ('agg', adt/closure, block) | ('op', kind, block) | ('undef', local)"""
        out = set()
        seen = set()
        st = []

        def push_op(o):
            if isinstance(o, list):
                st.append(o[0])
                # index locals inside projections are data too
                for m in re.findall(r"\[_(\d+)\]", o[1]):
                    st.append(int(m))
            elif isinstance(o, dict):
                if "fn" in o:
                    out.add(("fn", o["fn"]))
                else:
                    out.add(("const", o.get("c")))
        push_op(operand)
        n = 0
        while st and n < limit:
            n += 1
            l = st.pop()
            if l in seen:
                continue
            seen.add(l)
            if 1 <= l <= self.b.nargs:
                out.add(("arg", l))
            ds = self.defs.get(l, [])
            if not ds and not (1 <= l <= self.b.nargs):
                out.add(("undef", l))
            for blk, s in ds:
                if s.get("k") == "call":
                    cal = s.get("f") or s["tf"]
                    if self.pt.search(cal) or (self.extra and self.extra.search(cal)):
                        for a in s["args"]:
                            push_op(a)
                        # a closure passed to map_err etc. is not a data source
                    else:
                        out.add(("call", cal, blk))
                else:
                    rk = s.get("rk")
                    if rk in ("use", "ref", "rawptr", "cast", "discr", "repeat"):
                        for o in s["src"]:
                            push_op(o)
                    elif rk == "agg":
                        if "adt" in s:
                            out.add(("agg", s["adt"] + "::" + s["var"], blk))
                        elif "closure" in s:
                            out.add(("agg", s["closure"], blk))
                        for o in s["src"]:
                            push_op(o)
                    elif rk in ("bin", "un"):
                        out.add(("op", s.get("op"), blk))
                        for o in s["src"]:
                            push_op(o)
                    elif rk == "setdiscr":
                        pass
                    else:
                        out.add(("op", rk, blk))
        return out

    def derives_from_arg(self, operand, argi):
        return ("arg", argi) in self.roots(operand)

    def root_calls(self, operand):
        return {r[1] for r in self.roots(operand) if r[0] == "call"}

    def locals_feeding(self, operand):
        """all locals on the backward slice (through pass-through calls)"""
        seen = set()
        st = []
        if isinstance(operand, list):
            st.append(operand[0])
        while st:
            l = st.pop()
            if l in seen:
                continue
            seen.add(l)
            for blk, s in self.defs.get(l, []):
                if s.get("k") == "call":
                    cal = s.get("f") or s["tf"]
                    if self.pt.search(cal):
                        for a in s["args"]:
                            if isinstance(a, list):
                                st.append(a[0])
                else:
                    for o in s.get("src", []):
                        if isinstance(o, list):
                            st.append(o[0])
        return seen


def calls_matching(body, rx):
    if isinstance(rx, str):
        rx = re.compile(rx)
    return [(i, t) for i, t in body.calls() if rx.search(t.get("f") or t["tf"]) or rx.search(t["tf"])]


def edge_dominates(body, src, dst, target):
    """True iff every path entry -> target uses the CFG edge src->dst (or target is unreachable)"""
    seen = set()
    st = [0]
    while st:
        b = st.pop()
        if b in seen:
            continue
        seen.add(b)
        if b == target:
            return False
        for s in body.succ(b):
            if b == src and s == dst:
                continue
            st.append(s)
    return True


def result_exits(body):
    """classify blocks that assign the return place: returns (ok_blocks, err_blocks) from
    `_0 = Result::Ok/Err(..)` aggregates and `from_residual` calls writing _0"""
    ok, err = set(), set()
    for i, blk in enumerate(body.blocks):
        for s in blk["s"]:
            if s["d"][0] == 0 and s.get("rk") == "agg" and s.get("adt", "").endswith("result::Result"):
                (ok if s["var"] == "Ok" else err).add(i)
        t = blk["t"]
        if t["k"] == "call" and t["d"][0] == 0 and (t.get("f") or t["tf"]).endswith("from_residual"):
            err.add(i)
    return ok, err


def switch_on_call_result(body, blk, term):
    """follow the destination of a bool-returning call to the switch that tests it.
    returns (switch_block, true_target, false_target) or None"""
    d = term["d"][0]
    b = term.get("t")
    hops = 0
    alias = {d}
    while b is not None and hops < 6:
        bl = body.blocks[b]
        for s in bl["s"]:
            if s.get("rk") in ("use", "un") and s["src"] and isinstance(s["src"][0], list) and s["src"][0][0] in alias:
                alias.add(s["d"][0])
        t = bl["t"]
        if t["k"] == "switch" and isinstance(t["on"], list) and t["on"][0] in alias:
            false_t = None
            for v, tgt in t["targets"]:
                if v == 0:
                    false_t = tgt
            return b, t["else"], false_t
        if t["k"] == "goto":
            b = t["t"]
            hops += 1
            continue
        return None
    return None


# ---------------------------------------------------------------------------------------------------------------------------------
# Refactoring-robust queries (added for C09-R2; reusable): emptiness tests in any spelling, and call sites / exits followed into
# same-crate helper bodies with parameters bound to the arguments of the call.
# ---------------------------------------------------------------------------------------------------------------------------------

_CMP = {"Eq": lambda a, b: a == b, "Ne": lambda a, b: a != b, "Lt": lambda a, b: a < b, "Le": lambda a, b: a <= b,
        "Gt": lambda a, b: a > b, "Ge": lambda a, b: a >= b}


def _const_int(o):
    if isinstance(o, dict) and "c" in o:
        m = re.match(r"^(?:const )?(-?\d+)(?:_?[iu](?:8|16|32|64|128|size))?$", str(o["c"]).strip())
        if m:
            return int(m.group(1))
    return None


def _cmp_splits_at_zero(op, left_is_len, c):
    """a comparison between a count and the constant c, as an emptiness test: returns True (holds iff count == 0),
    False (holds iff count != 0) or None (it is not an emptiness test, e.g. `len > 3`)"""
    f = _CMP.get(op)
    if f is None:
        return None
    vals = [(f(n, c) if left_is_len else f(c, n)) for n in (0, 1, 2, 10 ** 9)]
    if vals[1] == vals[2] == vals[3] and vals[0] != vals[1]:
        return vals[0]
    return None


def follow_emptiness(body, blk, term, kind, hops=8):
    """`term` (the call ending block `blk`) returns an emptiness observation of some collection: kind == "len" (a count) or
    ("bool", true_means_empty).  Follow the value through copies, `!`, comparisons with a constant (`== 0`, `!= 0`, `> 0`, `< 1`,
    `0 < n`, ..) to the place where it is used.  Returns
        ("switch", block, target_when_empty, target_when_nonempty)   a branch on it
        ("ret", kind)                                                it is the function's return value (kind as above)
        None                                                         anything else"""
    val = {term["d"][0]: kind}
    b = term.get("t")
    n = 0
    while b is not None and n < hops:
        n += 1
        bl = body.blocks[b]
        for s in bl["s"]:
            rk = s.get("rk")
            src = s.get("src") or []
            d = s["d"]
            if d[1] != "":
                continue
            if rk == "use" and src and isinstance(src[0], list) and src[0][1] == "" and src[0][0] in val:
                val[d[0]] = val[src[0][0]]
            elif rk == "un" and s.get("op") == "Not" and src and isinstance(src[0], list) and isinstance(val.get(src[0][0]), tuple):
                val[d[0]] = ("bool", not val[src[0][0]][1])
            elif rk == "bin" and len(src) == 2 and s.get("op") in _CMP:
                l_len = isinstance(src[0], list) and val.get(src[0][0]) == "len" and src[0][1] == ""
                r_len = isinstance(src[1], list) and val.get(src[1][0]) == "len" and src[1][1] == ""
                c = _const_int(src[1]) if l_len else (_const_int(src[0]) if r_len else None)
                if c is not None and (l_len != r_len):
                    e = _cmp_splits_at_zero(s["op"], l_len, c)
                    if e is not None:
                        val[d[0]] = ("bool", e)
                    else:
                        val.pop(d[0], None)
                else:
                    # bool == true / bool != false etc. are not produced by rustc for plain conditions; anything else kills the fact
                    val.pop(d[0], None)
            elif d[0] in val and d[0] != term["d"][0]:
                val.pop(d[0], None)
        t = bl["t"]
        k = t["k"]
        if k == "switch" and isinstance(t["on"], list) and t["on"][0] in val and t["on"][1] == "":
            v = val[t["on"][0]]
            zero_t = [tgt for x, tgt in t["targets"] if x == 0]
            if len(t["targets"]) != 1 or not zero_t:
                return None
            if v == "len":
                return ("switch", b, zero_t[0], t["else"])
            # bool: value 0 = false
            return ("switch", b, t["else"], zero_t[0]) if v[1] else ("switch", b, zero_t[0], t["else"])
        if k == "ret":
            return ("ret", val[0]) if 0 in val else None
        if k in ("goto", "assert", "drop") and "t" in t:
            b = t["t"]
            continue
        return None
    return None


class EmptinessObservers:
    """Which callees observe the emptiness of one of their arguments, and how.  Base observers are given by `base`
    (regex -> kind, the collection is argument 0); a crate function that takes the collection as an argument, applies an observer
    to it and returns the result (possibly negated / compared with a constant) is an observer too (`ParseString::is_empty` over
    `ParseString::len`, a private `has_errors(&log)`), to `depth` levels."""

    def __init__(self, cg, base, depth=2):
        self.cg = cg
        self.base = [(re.compile(rx), kind) for rx, kind in base]
        self.depth = depth
        self._memo = {}

    def kind(self, callee, depth=None):
        """-> (arg position (0-based), kind) or None"""
        depth = self.depth if depth is None else depth
        for rx, kind in self.base:
            if rx.search(callee):
                return (0, kind)
        if depth <= 0:
            return None
        key = (callee, depth)
        if key in self._memo:
            return self._memo[key]
        self._memo[key] = None
        b = self.cg.bodies.get(callee)
        res = None
        if b is not None and len(b.blocks) <= 12 and b.locals and b.locals[0] in ("bool", "usize"):
            sl = Slice(b)
            for i, t in b.calls():
                inner = self.kind(t.get("f") or t["tf"], depth - 1)
                if inner is None or inner[0] >= len(t["args"]):
                    continue
                args = [r[1] for r in sl.roots(t["args"][inner[0]]) if r[0] == "arg"]
                if len(args) != 1:
                    continue
                out = follow_emptiness(b, i, t, inner[1])
                if out and out[0] == "ret":
                    res = (args[0] - 1, out[1])
                    break
        self._memo[key] = res
        return res

    def observes(self, term):
        """the call `term` observes emptiness: -> (operand observed, kind) or None"""
        k = self.kind(term.get("f") or term["tf"])
        if k is None or k[0] >= len(term["args"]):
            return None
        return term["args"][k[0]], k[1]


class Inlined:
    """A body seen together with the bodies of the same-crate helpers it calls (to `depth` levels): a *chain* is a tuple of
    (body, block, call terminator) triples; all but the last are calls into followed helpers, the last is the site itself (its
    terminator is None for a plain block).  Parameters of a helper are bound to the arguments of the call (`roots`)."""

    def __init__(self, cg, follow, depth=2):
        self.cg = cg
        self.follow = follow
        self.depth = depth
        self._sl = {}

    def helper(self, term):
        b = self.cg.bodies.get(term.get("f") or term["tf"])
        return b if b is not None and self.follow(b) else None

    def calls(self, body, depth=None, prefix=()):
        depth = self.depth if depth is None else depth
        for i, t in body.calls():
            ch = prefix + ((body, i, t),)
            yield ch
            if depth > 0:
                hb = self.helper(t)
                if hb is not None and all(hb is not c[0] for c in ch):
                    for x in self.calls(hb, depth - 1, ch):
                        yield x

    def slice(self, body):
        if id(body) not in self._sl:
            self._sl[id(body)] = Slice(body)
        return self._sl[id(body)]

    def roots(self, chain, operand):
        """provenance roots of an operand at the site of `chain`, expressed in the outermost body where the value comes in through
        helper parameters: a set of (level, kind, ...) with level 0 = the outermost body"""
        body = chain[-1][0]
        out = set()
        for r in self.slice(body).roots(operand):
            if r[0] == "arg" and len(chain) > 1:
                pt = chain[-2][2]
                if r[1] - 1 < len(pt["args"]):
                    out |= self.roots(chain[:-1], pt["args"][r[1] - 1])
            else:
                out.add((len(chain) - 1,) + tuple(r))
        return out

    def always(self, rest):
        """the site of the (helper-internal) chain `rest` is executed on every path from the helper's entry to a normal return"""
        if not rest:
            return True
        hb, blk, _ = rest[0]
        rets = hb.ret_blocks()
        return bool(rets) and all(hb.dominates(blk, r) for r in rets) and self.always(rest[1:])

    def before(self, a, b):
        """on every path to the site of chain b, the site of chain a has been executed (both chains start in the same body)"""
        if a[0][0] is not b[0][0]:
            return False
        if a[0][1] == b[0][1]:
            if len(a) > 1 and len(b) > 1:
                return self.before(a[1:], b[1:])
            return False
        return a[0][0].dominates(a[0][1], b[0][1]) and self.always(a[1:])

    def result_exits(self, body, depth=None, prefix=()):
        """(ok chains, err chains): blocks that produce the Ok / Err return value, followed into helpers whose result is returned
        as it is (`helper(..)` in tail position or `let r = helper(..); r`)"""
        depth = self.depth if depth is None else depth
        ok_b, err_b = result_exits(body)
        ok = [prefix + ((body, i, None),) for i in sorted(ok_b)]
        err = [prefix + ((body, i, None),) for i in sorted(err_b)]
        if depth > 0:
            ret_alias = {0}
            for _ in range(3):
                for _, s in body.stmts():
                    if s["d"][0] in ret_alias and s["d"][1] == "" and s.get("rk") == "use" and s["src"] and isinstance(s["src"][0], list) and s["src"][0][1] == "":
                        ret_alias.add(s["src"][0][0])
            for i, t in body.calls():
                if t["d"][0] in ret_alias and t["d"][1] == "":
                    hb = self.helper(t)
                    if hb is not None and hb.locals and hb.locals[0] == body.locals[0] and all(hb is not c[0] for c in prefix) and hb is not body:
                        o2, e2 = self.result_exits(hb, depth - 1, prefix + ((body, i, t),))
                        ok += o2
                        err += e2
        return ok, err

    def edge_before(self, test_chain, sw_block, target, b):
        """every path to the site of chain b runs through the CFG edge sw_block->target of the body in which the test
        (`test_chain`'s site) lies.  Decidable when the test lies in a body that encloses b's site: -> True / False; None otherwise"""
        a = test_chain
        while len(a) > 1 and len(b) > 1 and a[0][0] is b[0][0] and a[0][1] == b[0][1]:
            a, b = a[1:], b[1:]
        if len(a) != 1 or a[0][0] is not b[0][0]:
            return None
        return edge_dominates(a[0][0], sw_block, target, b[0][1])
