"""Queries over MIR bodies: provenance (backward slices), call matching, edge dominance, exits."""
import re
from collections import defaultdict

# callees through which a value "passes" for provenance purposes (result derives from receiver/arg 0..n)
PASS_THROUGH = re.compile(
    r"(::deref$|::deref_mut$|::as_ref$|::as_mut$|::borrow$|::borrow_mut$|::clone$|::unwrap$|::unwrap_or$|::expect$|"
    r"::into$|::from$|::as_path$|::as_str$|::as_slice$|::to_path_buf$|::to_owned$|::to_string$|::branch$|::into_iter$|"
    r"::iter$|::as_deref$|::as_ptr$|::as_mut_ptr$|::index$|::index_mut$|::next$|::unwrap_or_default$|::ok$|::map_err$|"
    r"::from_residual$|::new_unchecked$|::get_unchecked$|::as_unchecked$)")


class Slice:
    def __init__(self, body, passthrough=PASS_THROUGH, extra_pass=None):
        self.b = body
        self.defs = body.defs()
        self.pt = passthrough
        self.extra = extra_pass

    def roots(self, operand, limit=4000):
        """set of root descriptors feeding `operand`:
           ('arg', i) | ('call', callee, block) | ('const', text) | ('fn', text) | ('agg', adt/closure, block) | ('op', kind, block) | ('undef', local)"""
        out = set()
        seen = set()
        st = []

        def push_op(o):
            if isinstance(o, list):
                st.append(o[0])
                # index locals inside projections are data too
                for m in re.findall(r"\[_(\d+)\]", o[1]):
                    st.append(int(m))
            elif isinstance(o, dict):
                if "fn" in o:
                    out.add(("fn", o["fn"]))
                else:
                    out.add(("const", o.get("c")))
        push_op(operand)
        n = 0
        while st and n < limit:
            n += 1
            l = st.pop()
            if l in seen:
                continue
            seen.add(l)
            if 1 <= l <= self.b.nargs:
                out.add(("arg", l))
            ds = self.defs.get(l, [])
            if not ds and not (1 <= l <= self.b.nargs):
                out.add(("undef", l))
            for blk, s in ds:
                if s.get("k") == "call":
                    cal = s.get("f") or s["tf"]
                    if self.pt.search(cal) or (self.extra and self.extra.search(cal)):
                        for a in s["args"]:
                            push_op(a)
                        # a closure passed to map_err etc. is not a data source
                    else:
                        out.add(("call", cal, blk))
                else:
                    rk = s.get("rk")
                    if rk in ("use", "ref", "rawptr", "cast", "discr", "repeat"):
                        for o in s["src"]:
                            push_op(o)
                    elif rk == "agg":
                        if "adt" in s:
                            out.add(("agg", s["adt"] + "::" + s["var"], blk))
                        elif "closure" in s:
                            out.add(("agg", s["closure"], blk))
                        for o in s["src"]:
                            push_op(o)
                    elif rk in ("bin", "un"):
                        out.add(("op", s.get("op"), blk))
                        for o in s["src"]:
                            push_op(o)
                    elif rk == "setdiscr":
                        pass
                    else:
                        out.add(("op", rk, blk))
        return out

    def derives_from_arg(self, operand, argi):
        return ("arg", argi) in self.roots(operand)

    def root_calls(self, operand):
        return {r[1] for r in self.roots(operand) if r[0] == "call"}

    def locals_feeding(self, operand):
        """all locals on the backward slice (through pass-through calls)"""
        seen = set()
        st = []
        if isinstance(operand, list):
            st.append(operand[0])
        while st:
            l = st.pop()
            if l in seen:
                continue
            seen.add(l)
            for blk, s in self.defs.get(l, []):
                if s.get("k") == "call":
                    cal = s.get("f") or s["tf"]
                    if self.pt.search(cal):
                        for a in s["args"]:
                            if isinstance(a, list):
                                st.append(a[0])
                else:
                    for o in s.get("src", []):
                        if isinstance(o, list):
                            st.append(o[0])
        return seen


def calls_matching(body, rx):
    if isinstance(rx, str):
        rx = re.compile(rx)
    return [(i, t) for i, t in body.calls() if rx.search(t.get("f") or t["tf"]) or rx.search(t["tf"])]


def edge_dominates(body, src, dst, target):
    """True iff every path entry -> target uses the CFG edge src->dst (or target is unreachable)"""
    seen = set()
    st = [0]
    while st:
        b = st.pop()
        if b in seen:
            continue
        seen.add(b)
        if b == target:
            return False
        for s in body.succ(b):
            if b == src and s == dst:
                continue
            st.append(s)
    return True


def result_exits(body):
    """classify blocks that assign the return place: returns (ok_blocks, err_blocks) from
    `_0 = Result::Ok/Err(..)` aggregates and `from_residual` calls writing _0"""
    ok, err = set(), set()
    for i, blk in enumerate(body.blocks):
        for s in blk["s"]:
            if s["d"][0] == 0 and s.get("rk") == "agg" and s.get("adt", "").endswith("result::Result"):
                (ok if s["var"] == "Ok" else err).add(i)
        t = blk["t"]
        if t["k"] == "call" and t["d"][0] == 0 and (t.get("f") or t["tf"]).endswith("from_residual"):
            err.add(i)
    return ok, err


def switch_on_call_result(body, blk, term):
    """follow the destination of a bool-returning call to the switch that tests it.
    returns (switch_block, true_target, false_target) or None"""
    d = term["d"][0]
    b = term.get("t")
    hops = 0
    alias = {d}
    while b is not None and hops < 6:
        bl = body.blocks[b]
        for s in bl["s"]:
            if s.get("rk") in ("use", "un") and s["src"] and isinstance(s["src"][0], list) and s["src"][0][0] in alias:
                alias.add(s["d"][0])
        t = bl["t"]
        if t["k"] == "switch" and isinstance(t["on"], list) and t["on"][0] in alias:
            false_t = None
            for v, tgt in t["targets"]:
                if v == 0:
                    false_t = tgt
            return b, t["else"], false_t
        if t["k"] == "goto":
            b = t["t"]
            hops += 1
            continue
        return None
    return None
