"""What a decoder does with a byte buffer of a given LENGTH: a small abstract interpreter over MIR.

The question a size rule asks is closed over one integer: "given n bytes, does this code return an error / panic before it has decoded
anything, whatever the bytes are?"  This module answers it by interpreting the MIR of the decoder with
    Buf(n)     a byte sequence of known length n and unknown contents (Vec<u8>, &[u8], &Vec<u8> alike; references are transparent)
    Cur(n, p)  a read cursor over such a sequence at position p (std::io::Cursor)
    int/bool   concrete scalars (lengths, constants, comparisons of them)
    Agg        Result / Option / ControlFlow / tuples built on the path (so that `?`, `unwrap`, `match` on them are followed exactly)
    UNK        anything else (in particular every value read out of the bytes)
Branches on UNK fork; a path ends in
    "ok"       it returns normally / reaches one of the caller-supplied stop blocks without having failed
    "err"      it returns a `Result::Err` (built on the path)
    "panic"    it reaches a diverging call (panic, unwrap_failed ..), a failed bounds / array-size conversion, or a failed `unwrap`
The verdict for a length is "ok" as soon as ONE path is ok (the search stops there); it is "err" / "panic" / "reject" only if EVERY path fails
and no path was cut off by the exploration limits; otherwise "undecided".  So only content-independent rejections are ever reported, and an
operation the interpreter does not model (its result is UNK) can only lose a report, never create one.

Helpers of the same crate are entered (bounded depth) when they receive a buffer, a cursor or a concrete scalar: a guard moved into a private
function, a `?` on its result, a nested `if`, a `match` on a comparison, an early return are all the same to this interpreter.
Generic callees are resolved through lib/tyuni.py.
"""
import re
from lib import tyuni as T

UNK = ("unk",)
BYTE_TY = re.compile(r"^(&(mut )?)*(alloc::vec::Vec<u8(,alloc::alloc::Global)?>|\[u8\]|alloc::boxed::Box<\[u8\](,alloc::alloc::Global)?>)$")
INT_RANGE = {"u8": (0, 2 ** 8 - 1), "u16": (0, 2 ** 16 - 1), "u32": (0, 2 ** 32 - 1), "u64": (0, 2 ** 64 - 1), "u128": (0, 2 ** 128 - 1), "usize": (0, 2 ** 64 - 1),
             "i8": (-2 ** 7, 2 ** 7 - 1), "i16": (-2 ** 15, 2 ** 15 - 1), "i32": (-2 ** 31, 2 ** 31 - 1), "i64": (-2 ** 63, 2 ** 63 - 1), "i128": (-2 ** 127, 2 ** 127 - 1),
             "isize": (-2 ** 63, 2 ** 63 - 1)}
WIDTH = {"u8": 1, "i8": 1, "u16": 2, "i16": 2, "u32": 4, "i32": 4, "u64": 8, "i64": 8, "u128": 16, "i128": 16, "f32": 4, "f64": 8, "u24": 3, "i24": 3, "u48": 6, "i48": 6}
STD_VARIANT = {("core::option::Option", "None"): 0, ("core::option::Option", "Some"): 1, ("core::result::Result", "Ok"): 0, ("core::result::Result", "Err"): 1,
               ("core::ops::control_flow::ControlFlow", "Continue"): 0, ("core::ops::control_flow::ControlFlow", "Break"): 1}
PROJ = re.compile(r"\*|\.\d+|@\w+|\[[^\]]*\]|\?")
PASS = re.compile(r"(^|::)(deref|deref_mut|as_slice|as_mut_slice|as_ref|as_mut|borrow|borrow_mut|to_vec|clone|to_owned|into_boxed_slice|into_vec|as_bytes|by_ref|get_ref|get_mut|into_inner)$")


def buf(n):
    return ("buf", n)


def is_int(v):
    return isinstance(v, int)           # bool included


def agg(adt, var, fields):
    return ("agg", adt, var, tuple(fields))


def ok_(v=UNK):
    return agg("core::result::Result", "Ok", (v,))


def err_(v=UNK):
    return agg("core::result::Result", "Err", (v,))


def some_(v=UNK):
    return agg("core::option::Option", "Some", (v,))


NONE = agg("core::option::Option", "None", ())


class Cut(Exception):
    pass


class Frame:
    __slots__ = ("body", "env", "locals", "dest", "target", "visits")

    def __init__(self, body, env, locals_, dest=None, target=None):
        self.body = body
        self.env = env
        self.locals = locals_
        self.dest = dest
        self.target = target
        self.visits = {}

    def copy(self):
        f = Frame(self.body, self.env, dict(self.locals), self.dest, self.target)
        f.visits = dict(self.visits)
        return f


class Interp:
    def __init__(self, cg, resolver=None, max_depth=4, max_steps=6000, max_visits=2, enter=None, adts=None, seeds=None):
        self.adts = adts or {}            # adt path -> adt record (struct fields by position)
        self.seeds = seeds or {}          # (adt path, field name) -> value: what a read of that field of an otherwise unknown struct yields
        self.bodies = cg.bodies
        self.res = resolver or T.Resolver(cg.bodies)
        self.max_depth = max_depth
        self.max_steps = max_steps
        self.max_visits = max_visits
        self.enter = enter or (lambda key: True)

    # ------------------------------------------------------------------ public
    def run(self, body, start_block, locals_, stop_blocks=(), env=None, collect=None, ok_only_at_stop=False):
        """explore from `start_block` of `body` with the given initial locals. Returns dict(verdict, outcomes, seen) where `seen` collects
        what `collect(stmt_or_term, frame)` returned (non-None) along the first ok path, or along all paths when none is ok"""
        self.steps = 0
        self.cut = False
        self.collect = collect
        self.ok_only_at_stop = ok_only_at_stop      # a normal return that never reached a stop block is "did not get there", neither ok nor a rejection
        outcomes = set()
        seen_ok = None
        seen_all = []
        stack = [([Frame(body, env or {}, dict(locals_))], start_block, [])]
        stop_blocks = set(stop_blocks)
        while stack:
            frames, blk, seen = stack.pop()
            try:
                res = self._path(frames, blk, seen, stack, stop_blocks)
            except Cut:
                self.cut = True
                continue
            if res is None:
                continue
            outcomes.add(res)
            seen_all += seen
            if res == "ok":
                seen_ok = seen
                break
        if "ok" in outcomes:
            v = "ok"
        elif self.cut or not outcomes:
            v = "undecided"
        elif outcomes == {"err"}:
            v = "err"
        elif outcomes == {"panic"}:
            v = "panic"
        else:
            v = "reject"
        return {"verdict": v, "outcomes": outcomes, "seen": seen_ok if seen_ok is not None else seen_all, "steps": self.steps}

    # ------------------------------------------------------------------ values
    def const(self, c):
        t = c.get("t", "")
        v = c.get("c")
        if t == "bool":
            return v == "true"
        if t in INT_RANGE:
            try:
                return int(v)
            except (TypeError, ValueError):
                return UNK
        m = re.match(r"^&?\[u8;\s*(\d+)\]$", t)
        if m:
            return buf(int(m.group(1)))
        if t == "()":
            return agg("(tuple)", "", ())
        return UNK

    def deref(self, frames, v):
        while isinstance(v, tuple) and v and v[0] == "ref":
            v = frames[v[1]].locals.get(v[2], UNK)
        return v

    def project(self, frames, v, proj):
        for e in PROJ.findall(proj):
            if e == "*":
                v = self.deref(frames, v)
            elif e[0] == ".":
                v = self.deref(frames, v)
                k = int(e[1:])
                if isinstance(v, tuple) and v[0] == "agg" and k < len(v[3]):
                    v = v[3][k]
                else:
                    v = UNK
            elif e[0] == "@":
                v = self.deref(frames, v)
                if not (isinstance(v, tuple) and v[0] == "agg" and v[2] == e[1:]):
                    v = UNK
            else:
                v = UNK
        return v

    def value(self, frames, op):
        if isinstance(op, dict):
            if "c" in op:
                return self.const(op)
            return UNK
        fr = frames[-1]
        v = fr.locals.get(op[0], UNK)
        if op[1]:
            v = self.project(frames, v, op[1])
            if v is UNK and self.seeds and op[1][-1].isdigit():
                sf = self.static_field(fr, op)
                if sf is not None and sf in self.seeds:
                    return self.seeds[sf]
        return v

    def static_field(self, fr, place):
        """(adt path, field name) read by a place that ends in a field projection, from the declared type of its local"""
        return place_type(fr.body, place, self.adts)[1]

    def assign(self, frames, place, v):
        fr = frames[-1]
        if place[1] == "":
            fr.locals[place[0]] = v
            return
        base = fr.locals.get(place[0], UNK)
        if place[1] == "*" and isinstance(base, tuple) and base and base[0] == "ref":
            frames[base[1]].locals[base[2]] = v
            return
        # a field of an aggregate / something behind a pointer: forget the whole local unless it is a cursor / buffer written through
        if isinstance(base, tuple) and base and base[0] == "ref":
            frames[base[1]].locals[base[2]] = UNK
        else:
            fr.locals[place[0]] = UNK

    def local_type(self, fr, l):
        try:
            return fr.body.locals[l]
        except IndexError:
            return ""

    # ------------------------------------------------------------------ statements
    def binop(self, op, a, b, ty):
        if op in ("BitAnd",) and (a is False or b is False):
            return False
        if op in ("BitOr",) and (a is True or b is True):
            return True
        if op in ("Mul", "MulWithOverflow", "MulUnchecked") and (a == 0 and is_int(a) or b == 0 and is_int(b)) and not op.endswith("Overflow"):
            return 0
        if not (is_int(a) and is_int(b)):
            return UNK
        base = op.replace("WithOverflow", "").replace("Unchecked", "")
        try:
            if base == "Add":
                r = a + b
            elif base == "Sub":
                r = a - b
            elif base == "Mul":
                r = a * b
            elif base == "Div":
                if b == 0:
                    return UNK
                r = abs(a) // abs(b) * (1 if (a >= 0) == (b >= 0) else -1)
            elif base == "Rem":
                if b == 0:
                    return UNK
                r = abs(a) % abs(b) * (1 if a >= 0 else -1)
            elif base == "Eq":
                return a == b
            elif base == "Ne":
                return a != b
            elif base == "Lt":
                return a < b
            elif base == "Le":
                return a <= b
            elif base == "Gt":
                return a > b
            elif base == "Ge":
                return a >= b
            elif base == "BitAnd":
                r = (a & b) if not (isinstance(a, bool) and isinstance(b, bool)) else (a and b)
            elif base == "BitOr":
                r = (a | b) if not (isinstance(a, bool) and isinstance(b, bool)) else (a or b)
            elif base == "BitXor":
                r = (a ^ b) if not (isinstance(a, bool) and isinstance(b, bool)) else (a != b)
            elif base == "Shl":
                r = a << b if 0 <= b < 128 else None
            elif base == "Shr":
                r = a >> b if 0 <= b < 128 else None
            else:
                return UNK
        except (OverflowError, ValueError):
            return UNK
        if r is None:
            return UNK
        if isinstance(r, bool):
            return r
        if op.endswith("WithOverflow"):
            m = re.match(r"^\((\w+),\s*bool\)$", ty)
            rng = INT_RANGE.get(m.group(1)) if m else None
            if rng is None:
                return UNK
            ovf = not (rng[0] <= r <= rng[1])
            return agg("(tuple)", "", (r if not ovf else UNK, ovf))
        rng = INT_RANGE.get(ty)
        if rng is None or not (rng[0] <= r <= rng[1]):
            return UNK
        return r

    def stmt(self, frames, s):
        fr = frames[-1]
        rk = s.get("rk")
        d = s["d"]
        ty = self.local_type(fr, d[0]) if d[1] == "" else ""
        if rk == "use":
            v = self.value(frames, s["src"][0])
        elif rk == "ref":
            src = s["src"][0]
            cur = fr.locals.get(src[0], UNK)
            if src[1] == "" and isinstance(cur, tuple) and cur and cur[0] == "cur":
                v = ("ref", len(frames) - 1, src[0])
            elif src[1] == "*" and isinstance(cur, tuple) and cur and cur[0] == "ref":
                v = cur                                         # reborrow
            else:
                v = self.value(frames, src)
        elif rk == "cast":
            v = self.value(frames, s["src"][0])
            ck = s.get("ck", "")
            if ck == "IntToInt":
                if is_int(v):
                    rng = INT_RANGE.get(s.get("to", ""))
                    if rng is None:
                        v = UNK
                    elif not (rng[0] <= int(v) <= rng[1]):
                        w = rng[1] - rng[0] + 1
                        v = (int(v) - rng[0]) % w + rng[0]
                    else:
                        v = int(v)
                else:
                    v = UNK
            elif ck.startswith("PointerCoercion(Unsize"):
                v = v if isinstance(v, tuple) and v and v[0] in ("buf", "ref") else UNK
            else:
                v = UNK
        elif rk == "bin":
            a, b = self.value(frames, s["src"][0]), self.value(frames, s["src"][1])
            v = self.binop(s.get("op", ""), a, b, ty)
        elif rk == "un":
            a = self.deref(frames, self.value(frames, s["src"][0]))
            op = s.get("op")
            if op == "Not" and isinstance(a, bool):
                v = not a
            elif op == "PtrMetadata" and isinstance(a, tuple) and a[0] == "buf" and a[1] is not None:
                v = a[1]
            else:
                v = UNK
        elif rk == "discr":
            a = self.deref(frames, self.value(frames, s["src"][0]))
            v = UNK
            if isinstance(a, tuple) and a[0] == "agg":
                idx = STD_VARIANT.get((a[1], a[2]))
                if idx is not None:
                    v = idx
            elif isinstance(a, tuple) and a[0] == "enum":
                v = a[1]
        elif rk == "agg":
            if "adt" in s:
                v = agg(s["adt"], s["var"], [self.value(frames, o) for o in s["src"]])
            elif s.get("tuple"):
                v = agg("(tuple)", "", [self.value(frames, o) for o in s["src"]])
            else:
                v = UNK
        else:
            v = UNK
        self.assign(frames, d, v)

    # ------------------------------------------------------------------ calls
    def index(self, b, ix):
        """indexing Buf b with ix -> value or "panic" """
        n = b[1]
        ix = ix
        if is_int(ix) and not isinstance(ix, bool):
            if n is None:
                return UNK
            return "panic" if ix >= n else UNK
        if isinstance(ix, tuple) and ix[0] == "agg":
            name = ix[1].split("::")[-1]
            f = ix[3]
            lo = hi = None
            if name == "Range" and len(f) == 2:
                lo, hi = f
            elif name == "RangeFrom" and len(f) == 1:
                lo, hi = f[0], n
            elif name == "RangeTo" and len(f) == 1:
                lo, hi = 0, f[0]
            elif name == "RangeFull":
                return b
            elif name == "RangeToInclusive" and len(f) == 1:
                lo, hi = 0, (f[0] + 1 if is_int(f[0]) else UNK)
            elif name == "RangeInclusive" and len(f) >= 2:
                lo, hi = f[0], (f[1] + 1 if is_int(f[1]) else UNK)
            else:
                return UNK
            if n is None or not is_int(lo) or not is_int(hi):
                if is_int(lo) and n is not None and lo > n:
                    return "panic"
                if is_int(hi) and n is not None and hi > n:
                    return "panic"
                return buf(None)
            if lo > hi or hi > n:
                return "panic"
            return buf(hi - lo)
        return UNK

    def call(self, frames, t):
        """-> ("val", v) | ("panic",) | ("enter", key, env, args)"""
        fr = frames[-1]
        f = t.get("f") or ""
        tf = t.get("tf") or ""
        name = f or tf
        last = name.rsplit("::", 1)[-1]
        args = [self.value(frames, a) for a in t["args"]]
        dargs = [self.deref(frames, a) for a in args]
        a0 = dargs[0] if dargs else UNK
        isbuf = isinstance(a0, tuple) and a0[0] == "buf"
        iscur = isinstance(a0, tuple) and a0[0] == "cur"
        if "t" not in t:
            return ("panic",)
        # ---- byte buffers
        if isbuf:
            n = a0[1]
            if last == "len" and len(args) == 1:
                return ("val", n if n is not None else UNK)
            if last == "is_empty" and len(args) == 1:
                return ("val", (n == 0) if n is not None else UNK)
            if PASS.search(name) and len(args) == 1:
                return ("val", a0)
            if re.search(r"(^|::)(from|into)$", name) and len(args) == 1 and BYTE_TY.match(self.local_type(fr, t["d"][0]) if t["d"][1] == "" else ""):
                return ("val", a0)
            if re.search(r"ops::index::Index(Mut)?::index(_mut)?$", tf) and len(args) == 2:
                r = self.index(a0, dargs[1])
                return ("panic",) if r == "panic" else ("val", r)
            if last in ("get", "get_mut") and len(args) == 2 and re.search(r"slice|Vec", name):
                r = self.index(a0, dargs[1])
                if r == "panic":
                    return ("val", NONE)
                if r is UNK and not (is_int(dargs[1]) and n is not None):
                    return ("val", UNK)
                return ("val", some_(r))
            if last in ("first", "last", "split_first", "split_last") and len(args) == 1 and n is not None:
                return ("val", some_(UNK) if n > 0 else NONE)
            if last == "split_at" and len(args) == 2 and is_int(dargs[1]) and n is not None:
                k = dargs[1]
                return ("panic",) if k > n else ("val", agg("(tuple)", "", (buf(k), buf(n - k))))
            if re.search(r"(TryInto::try_into|TryFrom::try_from)$", tf):
                for g in t.get("ga", []):
                    m = re.match(r"^&?\[u8;\s*(\d+)\]$", g)
                    if m and n is not None:
                        return ("val", ok_(UNK) if n == int(m.group(1)) else err_(UNK))
                return ("val", UNK)
            if re.search(r"io::cursor::Cursor::<T>::new$", tf):
                return ("val", ("cur", n, 0))
        # ---- cursors
        if iscur:
            ref = args[0] if isinstance(args[0], tuple) and args[0] and args[0][0] == "ref" else None
            n, p = a0[1], a0[2]

            def setcur(np):
                if ref is not None:
                    frames[ref[1]].locals[ref[2]] = ("cur", n, np)
            if last == "position":
                return ("val", p if p is not None else UNK)
            if last == "set_position" and len(args) == 2:
                setcur(dargs[1] if is_int(dargs[1]) else None)
                return ("val", agg("(tuple)", "", ()))
            if last in ("get_ref", "into_inner", "get_mut"):
                return ("val", buf(n))
            m = re.search(r"ReadBytesExt::read_(\w+)$", tf)
            if m and m.group(1) in WIDTH:
                w = WIDTH[m.group(1)]
                if n is None or p is None:
                    setcur(None)
                    return ("val", UNK)
                if p + w <= n:
                    setcur(p + w)
                    return ("val", ok_(UNK))
                return ("val", err_(UNK))
            if last in ("remaining_slice", "fill_buf") and n is not None and p is not None:
                return ("val", buf(max(n - p, 0)))
            if PASS.search(name) and len(args) == 1:
                return ("val", args[0])
        # ---- Result / Option / ControlFlow plumbing
        if isinstance(a0, tuple) and a0[0] == "agg" and (a0[1], a0[2]) in STD_VARIANT:
            kind, var, fl = a0[1].split("::")[-1], a0[2], a0[3]
            good = var in ("Ok", "Some", "Continue")
            if re.search(r"(Result::<T, E>|Option::<T>)::(unwrap|expect)$", tf):
                return ("val", fl[0] if fl else UNK) if good else ("panic",)
            if re.search(r"Result::<T, E>::(unwrap_err|expect_err)$", tf):
                return ("panic",) if good else ("val", fl[0] if fl else UNK)
            if last in ("is_some", "is_ok"):
                return ("val", good)
            if last in ("is_none", "is_err"):
                return ("val", not good)
            if tf.endswith("try_trait::Try::branch"):
                if kind == "Result":
                    return ("val", agg("core::ops::control_flow::ControlFlow", "Continue", (fl[0],)) if good else
                            agg("core::ops::control_flow::ControlFlow", "Break", (err_(fl[0] if fl else UNK),)))
                if kind == "Option":
                    return ("val", agg("core::ops::control_flow::ControlFlow", "Continue", (fl[0],)) if good else
                            agg("core::ops::control_flow::ControlFlow", "Break", (NONE,)))
            if re.search(r"Result::<T, E>::(map_err|or_else)$", tf):
                return ("val", a0 if good else err_(UNK))
            if re.search(r"(Result::<T, E>|Option::<T>)::(map|and_then|inspect)$", tf) and not good:
                return ("val", a0)
            if re.search(r"Option::<T>::(ok_or|ok_or_else)$", tf):
                return ("val", ok_(fl[0]) if good else err_(UNK))
            if re.search(r"Result::<T, E>::ok$", tf):
                return ("val", some_(fl[0]) if good else NONE)
            if re.search(r"Result::<T, E>::err$", tf):
                return ("val", NONE if good else some_(fl[0] if fl else UNK))
        if tf.endswith("try_trait::FromResidual::from_residual"):
            ga0 = (t.get("ga") or [""])[0]
            if ga0.startswith("core::result::Result<"):
                return ("val", err_(UNK))
            if ga0.startswith("core::option::Option<"):
                return ("val", NONE)
            return ("val", UNK)
        # ---- integers
        if dargs and all(is_int(x) and not isinstance(x, bool) for x in dargs):
            m = re.match(r"^core::num::<impl (\w+)>::(\w+)$", tf)
            if m and m.group(1) in INT_RANGE and len(dargs) == 2:
                lo, hi = INT_RANGE[m.group(1)]
                a, b = dargs
                op = m.group(2)
                r = {"checked_add": a + b, "checked_sub": a - b, "checked_mul": a * b, "saturating_add": a + b, "saturating_sub": a - b, "saturating_mul": a * b,
                     "wrapping_add": a + b, "wrapping_sub": a - b, "wrapping_mul": a * b, "min": min(a, b), "max": max(a, b), "abs_diff": abs(a - b)}.get(op)
                if r is not None:
                    if op.startswith("checked_"):
                        return ("val", some_(r) if lo <= r <= hi else NONE)
                    if op.startswith("saturating_"):
                        return ("val", max(lo, min(hi, r)))
                    if op.startswith("wrapping_"):
                        return ("val", (r - lo) % (hi - lo + 1) + lo)
                    return ("val", r)
            if re.search(r"cmp::(Ord::(min|max)|min|max)$", tf) and len(dargs) == 2:
                return ("val", min(dargs) if "min" in last else max(dargs))
            m = re.search(r"cmp::(PartialEq::(eq|ne)|PartialOrd::(lt|le|gt|ge))$", tf)
            if m and len(dargs) == 2:
                a, b = dargs
                return ("val", {"eq": a == b, "ne": a != b, "lt": a < b, "le": a <= b, "gt": a > b, "ge": a >= b}[last])
            if re.search(r"convert::(From::from|Into::into)$", tf) and len(dargs) == 1:
                ty = self.local_type(fr, t["d"][0]) if t["d"][1] == "" else ""
                if ty in INT_RANGE and INT_RANGE[ty][0] <= dargs[0] <= INT_RANGE[ty][1]:
                    return ("val", dargs[0])
        # ---- same-crate helpers
        key, env = self.res.callee(t, fr.env)
        if key is not None and len(frames) < self.max_depth and self.enter(key):
            interesting = any((isinstance(a, tuple) and a and a[0] in ("buf", "cur", "ref")) or (is_int(a) and not isinstance(a, bool)) for a in dargs) or \
                any(isinstance(a, tuple) and a and a[0] == "ref" for a in args)
            if interesting:
                return ("enter", key, env, args)
        # an unknown callee that receives a cursor by reference may move it
        for a in args:
            if isinstance(a, tuple) and a and a[0] == "ref":
                c = frames[a[1]].locals.get(a[2])
                if isinstance(c, tuple) and c and c[0] == "cur":
                    frames[a[1]].locals[a[2]] = ("cur", c[1], None)
        return ("val", UNK)

    # ------------------------------------------------------------------ one path
    def _path(self, frames, blk, seen, stack, stop_blocks):
        while True:
            self.steps += 1
            if self.steps > self.max_steps:
                raise Cut()
            fr = frames[-1]
            if len(frames) == 1 and blk in stop_blocks and fr.visits:
                return "ok"
            c = fr.visits.get(blk, 0) + 1
            if c > self.max_visits:
                raise Cut()
            fr.visits[blk] = c
            b = fr.body.blocks[blk]
            for s in b["s"]:
                self.stmt(frames, s)
                if self.collect:
                    x = self.collect(s, fr)
                    if x is not None:
                        seen.append(x)
            t = b["t"]
            k = t["k"]
            if k == "goto":
                blk = t["t"]
            elif k == "drop":
                blk = t["t"]
            elif k == "switch":
                v = self.deref(frames, self.value(frames, t["on"]))
                if is_int(v):
                    iv = int(v)
                    nxt = t["else"]
                    for val, tg in t["targets"]:
                        if val == iv:
                            nxt = tg
                            break
                    blk = nxt
                else:
                    succ = []
                    for _, tg in t["targets"]:
                        if tg not in succ:
                            succ.append(tg)
                    if t["else"] not in succ:
                        succ.append(t["else"])
                    # fork: continue with the first, push the others
                    for tg in reversed(succ[1:]):
                        stack.append(([f.copy() for f in frames], tg, list(seen)))
                    blk = succ[0]
            elif k == "assert":
                v = self.deref(frames, self.value(frames, t["cond"]))
                if isinstance(v, bool) and v != t["exp"]:
                    return "panic"
                blk = t["t"]
            elif k == "call":
                if self.collect:
                    x = self.collect(t, fr)
                    if x is not None:
                        seen.append(x)
                r = self.call(frames, t)
                if r[0] == "panic":
                    return "panic"
                if r[0] == "val":
                    self.assign(frames, t["d"], r[1])
                    blk = t["t"]
                else:
                    _, key, env, args = r
                    cb = self.bodies[key]
                    loc = {}
                    for i, a in enumerate(args[:cb.nargs]):
                        loc[i + 1] = a
                    frames.append(Frame(cb, env, loc, t["d"], t["t"]))
                    blk = 0
            elif k == "ret":
                rv = self.deref(frames, fr.locals.get(0, UNK))
                if len(frames) == 1:
                    if isinstance(rv, tuple) and rv[0] == "agg" and rv[1] == "core::result::Result" and rv[2] == "Err":
                        return "err"
                    return None if self.ok_only_at_stop else "ok"
                done = frames.pop()
                # a reference into the popped frame cannot escape as a cursor: forget it
                if isinstance(rv, tuple) and rv and rv[0] == "ref" and rv[1] >= len(frames):
                    rv = UNK
                self.assign(frames, done.dest, rv)
                blk = done.target
            elif k == "unreachable":
                return None
            elif k in ("resume", "terminate"):
                return "panic"
            else:
                succ = list(t.get("succ", []))
                if not succ:
                    return None
                for tg in reversed(succ[1:]):
                    stack.append(([f.copy() for f in frames], tg, list(seen)))
                blk = succ[0]


def place_type(body, place, adts):
    """(type tree of the place, (adt path, field name) if the place ends in a field of a struct) from the declared type of its local and the
    struct definitions; (None, None) when a projection cannot be followed"""
    try:
        ty = T.parse(body.locals[place[0]])
    except IndexError:
        return None, None
    last = None
    for e in PROJ.findall(place[1]):
        if ty is None:
            return None, None
        if e == "*":
            if ty[0] in ("&", "&mut", "*"):
                ty = ty[1]
            elif ty[0] == "p" and ty[1].endswith("::Box") and ty[2]:
                ty = ty[2][0]
            else:
                return None, None
            last = None
        elif e[0] == ".":
            k = int(e[1:])
            if ty[0] == "p" and ty[1] in adts and not adts[ty[1]].get("enum"):
                fl = adts[ty[1]]["variants"][0]["fields"]
                if k >= len(fl):
                    return None, None
                last = (ty[1], fl[k][0])
                ty = T.parse(fl[k][1])
            elif ty[0] == "()" and k < len(ty[1]):
                ty = ty[1][k]
                last = None
            else:
                return None, None
        else:
            return None, None
    return ty, last


def byte_locals_before(body, block):
    """locals of a byte-buffer type that are written in a block dominating `block` (or are parameters): the buffers a dispatch arm can look at"""
    out = []
    defs = {}
    for i, blk in enumerate(body.blocks):
        for s in blk["s"]:
            if s["d"][1] == "":
                defs.setdefault(s["d"][0], []).append(i)
        t = blk["t"]
        if t["k"] == "call" and t["d"][1] == "":
            defs.setdefault(t["d"][0], []).append(i)
    for l, ty in enumerate(body.locals):
        if not BYTE_TY.match(ty):
            continue
        if 1 <= l <= body.nargs:
            out.append(l)
            continue
        ds = defs.get(l, [])
        if ds and all(body.dominates(d, block) for d in ds):
            out.append(l)
    return out


def exclusive_blocks(body, switch_block, targets):
    """{target: blocks reachable from it (not through the switch) and from no other target}: the code of one dispatch arm, joins excluded"""
    reach = {t: body.reachable_from([t], avoid=(switch_block,)) for t in set(targets)}
    count = {}
    for t, bs in reach.items():
        for b in bs:
            count[b] = count.get(b, 0) + 1
    return {t: {b for b in bs if count[b] == 1} for t, bs in reach.items()}


def locals_used(body, blocks):
    """locals read by the statements / terminators of the given blocks"""
    out = set()

    def op(o):
        if isinstance(o, list):
            out.add(o[0])
            for m in re.findall(r"\[_(\d+)\]", o[1] or ""):
                out.add(int(m))
    for b in blocks:
        blk = body.blocks[b]
        for s in blk["s"]:
            for o in s.get("src", []):
                op(o)
        t = blk["t"]
        for o in t.get("args", []):
            op(o)
        for k in ("on", "cond", "p"):
            if k in t:
                op(t[k])
    return out
