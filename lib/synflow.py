"""Syntax-level flow helpers that keep a rule independent of WHERE a maintainer put a piece of code and HOW a guard is spelt.

Three reusable pieces (all work on the JSON ASTs of lib/facts.py, standard library only):

* `Inliner`    - replaces a call to a private helper function / inherent method of the same crate by a block expression that binds the (alpha-renamed) parameters
                 to the arguments and contains the helper's body: `let x = helper(a, b)` is analysed as `let x = { let p1 = a; let p2 = b; <body> }`.
                 A rule written for the inlined view sees the same mechanism whether or not it was extracted into a helper (one, two, three levels deep).
* `origin`     - provenance of a value through local aliases, references, access-only method calls, casts, `?` and (inlined) blocks down to a field chain
                 rooted at a variable: roles are identified by where a value comes FROM, never by what a local is called.
* `GuardWalk`  - walks statements in evaluation order and tracks what is known about ONE boolean predicate Q (a flag parameter, a field test, `id == 0`, ..)
                 at every point: `if q { A } else { B }`, `if !q { return .. } A`, `if q { return .. } B`, `match q { true => .., false => .. }`,
                 `q && x`, `!(a || b)`, named locals for the test (`let skip = !q;`), helper calls (inlined blocks) are all the same thing to it.
                 The rule receives events (`call`, `mcall`, `try`, `ret`, `assign`, `exit`) together with the state of Q (True / False / None unknown / DEAD unreachable).
                 For Result-valued locals it also keeps what is known about Q IF the local holds an Err (`errq`): `match r { Err(e) if q => A, other => other }`,
                 `if let Err(e) = &r { if q { return .. } }`, `if q && r.is_err() { return .. }` all say "an Err that gets past here has Q false";
                 `exits()` gives the leaves of a value including the `?` of a once-called closure / helper whose result is that value.
* `discriminations` - `match x {..}`, `let PAT = x else {..};` and `if let PAT = x {..} else {..}` as one (scrutinee, arms) shape.
"""
import re
from lib.facts import find, walk, is_node, path_of, strip_refs, strip_generics

DIV = "diverged"    # control does not flow past this construct (return / break / continue / panic)
DEAD = "dead"       # this point cannot be reached given what the conditions on the way say about Q

PANICS = re.compile(r"(^|::)(panic|panic_fmt|panic_display|panic_explicit|unreachable|unreachable_display|begin_panic|abort|exit|unimplemented|todo)$")
PANIC_MACROS = {"panic", "unreachable", "todo", "unimplemented"}
TRANSPARENT = {"borrow_mut", "borrow", "as_mut", "as_ref", "clone", "lock", "unwrap", "deref", "deref_mut", "expect", "to_owned", "into", "as_deref", "as_deref_mut", "get_mut"}


def type_core(ty):
    """`&'a mut Interpreter` -> `Interpreter` (references, lifetimes, `mut`, `dyn`, whitespace and generic arguments removed)"""
    s = re.sub(r"'\w+", " ", str(ty) + " ")
    s = re.sub(r"&|\bmut\b|\bdyn\b", " ", s)
    return strip_generics(re.sub(r"\s", "", s))


def binders(pat):
    """names bound by a pattern (lower-case identifiers only: `None`, `CONST` in pattern position are not bindings)"""
    return [pi[1] for pi in find(pat, "pident") if pi[1][:1].islower() or pi[1][:1] == "_"]


def let_defs(stmts, deep=True):
    """local name -> initialiser AST for every `let` below `stmts` (tuple patterns bind each of their names to the whole initialiser)"""
    out = {}
    for st in (find(stmts, "let") if deep else [s for s in stmts if is_node(s) and s[0] == "let"]):
        if len(st) >= 3 and st[2] is not None:
            for n in binders(st[1]):
                out[n] = st[2]
    return out


def is_inlined(e):
    return is_node(e) and e[0] == "block" and len(e) > 2 and isinstance(e[2], dict) and "inlined" in e[2]


def tail_of(stmts):
    """the value expression of a statement list (`{ ..; e }` -> e) or None"""
    if stmts and is_node(stmts[-1]) and stmts[-1][0] == "expr" and not stmts[-1][2]:
        return stmts[-1][1]
    return None


# ---------------------------------------------------------------------------------------------------------------- inlining
class Inliner:
    """view of a function body in which calls to same-crate helpers are replaced by their bodies.

    items      syn items of the crate
    stop       predicate on the callee name: functions that are the EVENTS a rule looks for (evaluators, ..) stay calls
    only_private  follow only helpers that are not `pub`, plus `pub` ones of the analysed function's own module (the API of the crate is what rules talk
               about; private / module-local helpers are an implementation detail)
    Local closures (`let f = |a| ..; f(x)`) are helpers too.
    The inlined call is `["block", stmts, {"inlined": name, "call": <original call node>}]`; locals of the helper are renamed `<name>__<n>` (unique per inlined
    call) so that nothing is captured and nothing collides."""

    def __init__(self, items, stop=None, max_depth=3, only_private=True):
        self.fns = {}
        self.methods = {}
        for it in items:
            if it["k"] == "fn":
                self.fns.setdefault(it["name"], []).append(it)
            elif it["k"] == "method" and it.get("trait") is None:
                self.methods.setdefault((type_core(it.get("self", "")), it["name"]), []).append(it)
        self.stop = stop or (lambda name: False)
        self.max_depth = max_depth
        self.only_private = only_private
        self.n = 0
        self.home = None
        self.inlined_names = set()

    # -- resolution
    def _ok(self, it):
        # private helpers anywhere in the crate; a `pub` one only when it lives in the module of the function under analysis (a module-local helper that
        # happens to be exported) - the public API of other modules is what rules talk ABOUT, not an implementation detail to look through
        return not (self.only_private and it.get("vis") == "pub" and it.get("mod") != self.home)

    def resolve_fn(self, path, mod):
        if not path or "<" in path:
            return None
        segs = path.split("::")
        name = segs[-1]
        if len(segs) > 1 and (segs[-2][:1].isupper()):
            return None     # Type::assoc
        c = self.fns.get(name, [])
        if len(segs) > 1 and segs[-2] not in ("crate", "self", "super"):
            c = [it for it in c if it["mod"].split("::")[-1] == segs[-2]]
        elif len(c) > 1:
            c = [it for it in c if it["mod"] == mod]
        if len(c) == 1 and self._ok(c[0]) and not self.stop(name):
            return c[0]
        return None

    def resolve_method(self, recv, name, tyenv):
        v = path_of(strip_refs(recv))
        if v is None or v not in tyenv:
            return None
        c = self.methods.get((tyenv[v], name), [])
        if len(c) == 1 and self._ok(c[0]) and not self.stop(name) and c[0]["sig"]["inputs"] and c[0]["sig"]["inputs"][0][0] == "self":
            return c[0]
        return None

    # -- the view
    def view(self, it):
        """inlined view of the body of fn item `it`"""
        tyenv = {}
        self.home = it.get("mod")
        for inp in it.get("sig", {}).get("inputs", []):
            if inp[0] != "self" and is_node(inp[0]) and inp[0][0] == "pident":
                tyenv[inp[0][1]] = type_core(inp[1])
            elif inp[0] == "self" and it.get("self"):
                tyenv["self"] = type_core(it["self"])
        return self._node(it["body"], it.get("mod", ""), 0, (it["name"],), tyenv, local_closures(it["body"]))

    def _node(self, n, mod, depth, stack, tyenv, clos=None):
        clos = clos or {}
        if isinstance(n, dict):
            return {k: self._node(v, mod, depth, stack, tyenv, clos) for k, v in n.items()}
        if not isinstance(n, list):
            return n
        if is_node(n) and n[0] == "item":
            return n
        out = [self._node(c, mod, depth, stack, tyenv, clos) for c in n]
        if is_node(out) and depth < self.max_depth:
            if out[0] == "call" and len(out) == 3 and isinstance(out[2], list) and path_of(out[1]) in clos and ("closure " + path_of(out[1])) not in stack:
                # a local closure `let f = |a| ..; f(x)` is a helper too (it may mention the locals of the enclosing function: they are in scope at the call)
                c = clos[path_of(out[1])]
                if len(c[1]) == len(out[2]):
                    pseudo = {"name": "closure " + path_of(out[1]), "mod": mod, "sig": {"inputs": [[p_, ""] for p_ in c[1]], "ret": None}, "body": [["expr", c[2], False]]}
                    return self._expand(pseudo, None, out[2], out, depth, stack, clos)
            if out[0] == "call" and len(out) == 3 and isinstance(out[2], list) and path_of(out[1]):
                it = self.resolve_fn(path_of(out[1]), mod)
                if it is not None and it["name"] not in stack and len(it["sig"]["inputs"]) == len(out[2]) and not any(i[0] == "self" for i in it["sig"]["inputs"]):
                    return self._expand(it, None, out[2], out, depth, stack)
            elif out[0] == "mcall" and len(out) == 5 and isinstance(out[4], list):
                it = self.resolve_method(out[1], out[2], tyenv)
                if it is not None and it["name"] not in stack and len(it["sig"]["inputs"]) == len(out[4]) + 1:
                    return self._expand(it, out[1], out[4], out, depth, stack)
        return out

    def _expand(self, it, recv, args, call, depth, stack, outer_clos=None):
        self.n += 1
        self.inlined_names.add(it["name"])
        suffix = "__%d" % self.n
        names = set()
        params = [i for i in it["sig"]["inputs"] if i[0] != "self"]
        for p, _ in params:
            names.update(binders(p))
        names.update(binders(it["body"]))
        if recv is not None:
            names.add("self")
        ren = {n: n + suffix for n in names}
        tyenv = {}
        stmts = []
        if recv is not None:
            stmts.append(["let", ["pident", ren["self"], False, False, None], recv, None])
            tyenv[ren["self"]] = type_core(it.get("self", ""))
        for (p, ty), a in zip(params, args):
            stmts.append(["let", _rename(p, ren), a, None])
            if is_node(p) and p[0] == "pident":
                tyenv[ren.get(p[1], p[1])] = type_core(ty)
        body = _rename(it["body"], ren)
        clos = dict(outer_clos or {})
        clos.update(local_closures(body))
        body = self._node(body, it.get("mod", ""), depth + 1, stack + (it["name"],), tyenv, clos)
        return ["block", stmts + body, {"inlined": it["name"], "call": call, "ret": it["sig"].get("ret")}]


def local_closures(stmts):
    """name -> closure node for `let name = |..| ..;` (names bound exactly once below `stmts`)"""
    out, n_bind = {}, {}
    for st in find(stmts, "let"):
        for b in binders(st[1]):
            n_bind[b] = n_bind.get(b, 0) + 1
        if is_node(st[1]) and st[1][0] in ("pident", "ptype") and len(st) > 2 and is_node(st[2]) and st[2][0] == "closure":
            bs = binders(st[1])
            if len(bs) == 1:
                out[bs[0]] = st[2]
    return {k: v for k, v in out.items() if n_bind.get(k) == 1}


def _rename(n, ren):
    if isinstance(n, dict):
        return {k: _rename(v, ren) for k, v in n.items()}
    if not isinstance(n, list):
        return n
    if is_node(n):
        if n[0] == "path" and isinstance(n[1], str) and n[1] in ren:
            return ["path", ren[n[1]]]
        if n[0] == "pident" and n[1] in ren:
            return ["pident", ren[n[1]]] + [_rename(c, ren) for c in n[2:]]
        if n[0] == "item":
            return n
    return [_rename(c, ren) for c in n]


def called(node):
    """last segments of the functions called and `.name` of the methods called below `node`; a call that an Inliner replaced by its body counts too
    (so a rule sees both `helper` and everything `helper` does)"""
    out = set()
    for n in walk(node):
        if n[0] == "call":
            p = path_of(n[1])
            if p:
                out.add(p.split("::")[-1])
        elif n[0] == "mcall":
            out.add("." + n[2])
    for n in walk(node):
        if is_inlined(n):
            c = n[2]["call"]
            if c[0] == "call" and path_of(c[1]):
                out.add(path_of(c[1]).split("::")[-1])
            elif c[0] == "mcall":
                out.add("." + c[2])
    return out


# ---------------------------------------------------------------------------------------------------------------- provenance
def origin(e, defs, depth=0):
    """provenance of a value: follow local aliases (`let a = <e>`), references, casts, `?`, access-only method calls (borrow_mut, as_mut, ..) and the value of
    (inlined) blocks down to a field chain; returns (root variable, [field names]) - e.g. `let m = p.sub_interpreters.borrow_mut(); m` ->
    ("p", ["sub_interpreters"]) - or None when the value is computed"""
    fields = []
    while depth < 24 and is_node(e):
        depth += 1
        e = strip_refs(e)
        if not is_node(e):
            return None
        if e[0] == "mcall" and e[2] in TRANSPARENT and not e[4]:
            e = e[1]
        elif e[0] in ("try", "cast"):
            e = e[1]
        elif e[0] in ("block", "unsafe"):
            t = tail_of(e[1])
            if t is None:
                return None
            defs = dict(defs)
            defs.update(let_defs(e[1], deep=False))
            e = t
        elif e[0] == "field":
            fields.insert(0, e[2])
            e = e[1]
        elif e[0] == "path":
            v = e[1]
            if "::" not in v and defs.get(v) is not None:
                if not fields:
                    e = defs[v]
                else:
                    sub = origin(defs[v], defs, depth)
                    return (sub[0], sub[1] + fields) if sub else (v, fields)
            else:
                return (v, fields)
        else:
            return None
    return None


def resolve_value(e, defs, depth=0):
    """the expression that computes `e`: aliases, references, access-only method calls and block values are looked through until something is computed
    (a call, a method chain, a literal ..) or an unresolvable variable is reached"""
    while depth < 24 and is_node(e):
        depth += 1
        e = strip_refs(e)
        if not is_node(e):
            return e
        if e[0] == "mcall" and e[2] in TRANSPARENT and not e[4]:
            e = e[1]
        elif e[0] in ("try", "cast"):
            e = e[1]
        elif e[0] in ("block", "unsafe") and tail_of(e[1]) is not None:
            defs = dict(defs)
            defs.update(let_defs(e[1], deep=False))
            e = tail_of(e[1])
        elif e[0] == "path" and "::" not in e[1] and defs.get(e[1]) is not None:
            e = defs[e[1]]
        else:
            return e
    return e


def value_closure(e, defs, limit=40):
    """`e` together with the initialisers of every local it (transitively) mentions: the expressions that take part in computing `e`"""
    out, seen, todo = [], set(), [e]
    while todo and len(out) < limit:
        x = todo.pop(0)
        if not is_node(x):
            continue
        out.append(x)
        for n in walk(x):
            if n[0] == "path" and "::" not in n[1] and n[1] not in seen and defs.get(n[1]) is not None:
                seen.add(n[1])
                todo.append(defs[n[1]])
    return out


def discriminations(stmts):
    """every place below `stmts` where a value is taken apart by cases, in ONE shape: (scrutinee, arms) with arms = [[pattern, guard, body, line], ..] -
    `match x {..}` as written; `let PAT = x else { E };` REST  as  [PAT => { REST }, _ => E];  `if let PAT = x { A } else { B }`  as  [PAT => { A }, _ => B]"""
    out = []

    def block(sts):
        for i, st in enumerate(sts):
            if not is_node(st):
                continue
            if st[0] == "let":
                if len(st) > 3 and st[3] is not None and st[2] is not None:
                    out.append((st[2], [[st[1], None, ["block", sts[i + 1:]], 0], [["pwild"], None, st[3], 0]]))
                    expr(st[3])
                if st[2] is not None:
                    expr(st[2])
            elif st[0] == "expr":
                expr(st[1])

    def expr(e):
        if not is_node(e):
            if isinstance(e, list):
                for x in e:
                    expr(x)
            return
        t = e[0]
        if t in ("block", "unsafe", "loop"):
            block(e[1])
        elif t == "match":
            out.append((e[1], e[2]))
            expr(e[1])
            for arm in e[2]:
                expr(arm[1])
                expr(arm[2])
        elif t == "if":
            if is_node(e[1]) and e[1][0] == "letc":
                out.append((e[1][2], [[e[1][1], None, ["block", e[2]], 0], [["pwild"], None, e[3] if e[3] is not None else ["block", []], 0]]))
                expr(e[1][2])
            else:
                expr(e[1])
            block(e[2])
            expr(e[3])
        elif t == "for":
            expr(e[2])
            block(e[3])
        elif t == "while":
            expr(e[1])
            block(e[2])
        elif t == "closure":
            expr(e[2])
        elif t in ("let", "expr"):
            block([e])
        elif t == "item" or (t[:1] == "p" and t != "path"):
            return
        else:
            for c in e[1:]:
                if isinstance(c, list):
                    expr(c)
    block(stmts)
    return out


def const_table(items, mod=None):
    """name -> value AST of the `const` items of the crate (those of module `mod` win)"""
    out = {}
    for it in items:
        if it["k"] == "const" and "val" in it and (it["name"] not in out or it.get("mod") == mod):
            out[it["name"]] = it["val"]
    return out


def literal_of(e, defs, consts, depth=0):
    """the literal AST node (`int`, `bool`, `str`, ..) an expression denotes through parentheses, casts, named locals and `const` items, or None"""
    while depth < 12 and is_node(e):
        depth += 1
        e = strip_refs(e)
        if not is_node(e):
            return None
        if e[0] in ("int", "bool", "str", "char", "lit"):
            return e
        if e[0] == "cast":
            e = e[1]
        elif e[0] == "block" and tail_of(e[1]) is not None and len(e[1]) == 1:
            e = tail_of(e[1])
        elif e[0] == "path":
            v = e[1]
            if "::" not in v and defs.get(v) is not None:
                e = defs[v]
            elif v.split("::")[-1] in consts and v.split("::")[-1][:1].isupper():
                e = consts[v.split("::")[-1]]
            else:
                return None
        else:
            return None
    return None


def int_value(e, defs, consts):
    lit = literal_of(e, defs, consts)
    if lit is not None and lit[0] == "int":
        try:
            return int(str(lit[1]).replace("_", ""))
        except ValueError:
            return None
    return None


def bool_value(e, defs, consts):
    lit = literal_of(e, defs, consts)
    if lit is not None and lit[0] == "bool":
        return bool(lit[1])
    return None


# ---------------------------------------------------------------------------------------------------------------- guard tracking
def _neg(v):
    return {"Q": "NQ", "NQ": "Q", "T": "F", "F": "T"}.get(v)


def narrow(q, facts):
    """the state of Q after learning `facts` (a set of bools, or DEAD) in state q"""
    if q is DEAD or facts is DEAD:
        return DEAD
    for f in facts:
        if q is None:
            q = f
        elif q != f:
            return DEAD
    return q


def combine(f1, f2):
    """conjunction of two fact sets (DEAD = impossible)"""
    if f1 is DEAD or f2 is DEAD:
        return DEAD
    u = set(f1) | set(f2)
    return DEAD if (True in u and False in u) else u


def _strip_access(e):
    while is_node(e) and e[0] == "mcall" and e[2] in ("as_ref", "as_mut", "borrow", "clone", "as_deref") and not e[4]:
        e = e[1]
    return e


def is_err_pat(p):
    """`Err(x)` / `Err(_)` / `Result::Err(x)`: matches every Err"""
    p = p[2] if is_node(p) and p[0] == "pref" else p
    return is_node(p) and p[0] == "pts" and p[1].split("::")[-1] == "Err" and len(p[2]) == 1 and is_node(p[2][0]) and \
        (p[2][0][0] == "pwild" or (p[2][0][0] == "pident" and p[2][0][4] is None) or (p[2][0][0] == "pref" and is_node(p[2][0][2]) and p[2][0][2][0] in ("pwild", "pident")))


def is_whole_binding(p):
    """a pattern that binds the whole matched value to a name (`other => ..`)"""
    return is_node(p) and p[0] == "pident" and p[4] is None and (p[1][:1].islower() or p[1][:1] == "_")


def join(a, b):
    if a in (DIV, DEAD) and b in (DIV, DEAD):
        return DIV if DIV in (a, b) else DEAD
    if a in (DIV, DEAD):
        return b
    if b in (DIV, DEAD):
        return a
    return a if a == b else None


class GuardWalk:
    """Tracks one boolean predicate Q through a statement list.

    env        bool-valued variable -> "Q" | "NQ" | "T" | "F"   (what the variable says about Q; e.g. the flag parameter -> "Q")
    atom       atom(expr, walker) -> "Q" | "NQ" | "T" | "F" | None   for rule-specific atomic conditions (`ns == 0`, `<fence>.config.disabled`)
    on         on(kind, node, q, walker)   kind in call | mcall | try | ret | exit | assign | macro
    match_hook match_hook(scrutinee, arms, walker) -> [facts per arm] or None   (facts: set of bools or DEAD)
    Scoped `defs` (name -> initialiser, None for pattern-bound names) and `env` are available to the callbacks as attributes.
    `exit` events are the leaves of the value the analysed function returns (after `return`, in tail position, through `if`/`match`/blocks and through inlined
    helpers whose result is in exit position); `try` events carry `walker.at_exit` = the `?` leaves the analysed function."""

    def __init__(self, env=None, atom=None, on=None, match_hook=None, defs=None, consts=None):
        self.env = dict(env or {})
        self.atom = atom
        self.on = on or (lambda *a: None)
        self.match_hook = match_hook
        self.defs = dict(defs or {})
        self.consts = consts or {}
        self.frames = []       # inlined helpers being walked: [{"fn":, "exit":}]
        self.closure = 0
        self.at_exit = True
        # Result-valued local -> what is known about Q IF the local holds an Err (a set of bools, or DEAD = it cannot hold an Err here):
        # `match r { Err(e) if q => .., other => other }` binds `other` with {False}; `if let Err(e) = &r { if q { return .. } }` leaves r with {False}
        self.errq = {}
        self.assume_err = None

    # -- conditions
    def cond_value(self, e):
        e = strip_refs(e)
        if not is_node(e):
            return None
        if e[0] == "bool":
            return "T" if e[1] else "F"
        if e[0] == "un" and e[1] == "!":
            return _neg(self.cond_value(e[2]))
        if e[0] == "block" and len(e[1]) == 1 and tail_of(e[1]) is not None:
            return self.cond_value(tail_of(e[1]))
        if e[0] == "bin" and e[1] in ("==", "!="):
            for a, b in ((e[2], e[3]), (e[3], e[2])):
                bv = bool_value(b, self.defs, self.consts)
                if bv is not None:
                    v = self.cond_value(a)
                    if v is not None:
                        return v if (bv == (e[1] == "==")) else _neg(v)
        if e[0] == "mcall" and e[2] in ("is_err", "is_ok") and not e[4] and self.assume_err is not None and path_of(strip_refs(_strip_access(e[1]))) == self.assume_err:
            return "T" if e[2] == "is_err" else "F"
        if e[0] == "path":
            if e[1] in self.env:
                return self.env[e[1]]
            bv = bool_value(e, self.defs, self.consts)
            if bv is not None:
                return "T" if bv else "F"
        if self.atom is not None:
            return self.atom(e, self)
        return None

    def implied(self, e, branch):
        """what `e` evaluating to `branch` says about Q: a set of bools, or DEAD when it cannot"""
        e = strip_refs(e)
        if not is_node(e):
            return set()
        v = self.cond_value(e)
        if v is not None:
            if v == "Q":
                return {branch}
            if v == "NQ":
                return {not branch}
            return set() if (v == "T") == branch else DEAD
        if e[0] == "un" and e[1] == "!":
            return self.implied(e[2], not branch)
        if e[0] == "bin" and e[1] in ("&&", "||"):
            strong = branch == (e[1] == "&&")      # both operands are known to equal `branch`
            a, b = self.implied(e[2], branch), self.implied(e[3], branch)
            if strong:
                if a is DEAD or b is DEAD or (True in (a | b) and False in (a | b)):
                    return DEAD
                return a | b
            if a is DEAD:
                return b
            if b is DEAD:
                return a
            return a & b
        return set()

    # -- scopes
    def _save(self):
        return (self.defs, self.env, self.errq)

    def _restore(self, s):
        self.defs, self.env, self.errq = s

    def _enter(self):
        s = self._save()
        self.defs, self.env, self.errq = dict(self.defs), dict(self.env), dict(self.errq)
        return s

    def _bind_opaque(self, pat):
        for n in binders(pat):
            self.defs[n] = None
            self.env.pop(n, None)
            self.errq.pop(n, None)

    def _learn_err(self, scrut, state):
        """after a statement that took the Err case of local `scrut` apart: `state` is the state of Q on the ways the Err case continues past it"""
        v = path_of(strip_refs(_strip_access(scrut)))
        if v is None or "::" in v or self.defs.get(v) is None:
            return
        f = DEAD if state in (DIV, DEAD) else ({state} if state in (True, False) else set())
        self.errq[v] = combine(self.errq.get(v, set()), f)

    # -- statements
    def walk_fn(self, stmts, q=None):
        return self.block(stmts, q, tail_exit=True)

    def block(self, stmts, q, tail_exit=False):
        s = self._enter()
        diverged = False
        for i, st in enumerate(stmts):
            if not is_node(st):
                continue
            if st[0] == "let":
                if st[2] is not None:
                    r = self.expr(st[2], q)
                    if len(st) > 3 and st[3] is not None:
                        self.expr(st[3], q)
                    v = self.cond_value(st[2]) if (is_node(st[1]) and st[1][0] == "pident") else None
                    for n in binders(st[1]):
                        self.defs[n] = st[2]
                        self.env.pop(n, None)
                        self.errq.pop(n, None)
                    if v is not None and is_node(st[1]) and st[1][0] == "pident":
                        self.env[st[1][1]] = v
                else:
                    r = q
                    self._bind_opaque(st[1])
            elif st[0] == "expr":
                r = self.expr(st[1], q, exit_val=tail_exit and i == len(stmts) - 1 and not st[2])
            else:
                continue
            if r is DIV:
                diverged = True
                q = DEAD
            else:
                q = r
        self._restore(s)
        return DIV if diverged else q

    # -- expressions
    def leaves(self, e, q):
        """the exit leaves of value expression `e` (no events are delivered): [(leaf, q)]"""
        got = []
        on, self.on = self.on, (lambda kind, node, qq, w: got.append((node, qq)) if kind == "exit" else None)
        s = self._enter()
        try:
            self.expr(e, q, exit_val=True)
        finally:
            self.on = on
            self._restore(s)
        return got

    def exits(self, e, q):
        """like `leaves`, and also the `?` through which an Err becomes the value of `e` (a `?` directly in `e`, in an inlined helper / closure whose result is
        the value of `e`): [("exit" | "try", node, q)]"""
        got = []
        on, self.on = self.on, (lambda kind, node, qq, w: got.append((kind, node, qq)) if kind == "exit" or (kind == "try" and w.at_exit) else None)
        s = self._enter()
        try:
            self.expr(e, q, exit_val=True)
        finally:
            self.on = on
            self._restore(s)
        return got

    def _emit(self, kind, node, q):
        self.on(kind, node, q, self)

    def cond(self, c, q):
        """visit a condition with short-circuit narrowing"""
        if is_node(c) and c[0] == "bin" and c[1] in ("&&", "||"):
            self.cond(c[2], q)
            self.cond(c[3], narrow(q, self.implied(c[2], c[1] == "&&")))
        elif is_node(c) and c[0] == "un" and c[1] == "!":
            self.cond(c[2], q)
        elif is_node(c):
            self.expr(c, q)

    def _frame_exit(self):
        return self.closure == 0 and (not self.frames or self.frames[-1]["exit"])

    def expr(self, e, q, exit_val=False):
        if not is_node(e):
            return q
        t = e[0]
        if t in ("block", "unsafe"):
            if is_inlined(e):
                self.frames.append({"fn": e[2]["inlined"], "exit": exit_val and self.closure == 0})
                has_ret = any(True for _ in find(e[1], "ret"))
                r = self.block(e[1], q, tail_exit=exit_val)
                self.frames.pop()
                return q if (r is DIV or has_ret) else r
            return self.block(e[1], q, tail_exit=exit_val)
        if t == "if":
            self.cond(e[1], q)
            s = self._enter()
            for lc in find(e[1], "letc"):
                self._bind_opaque(lc[1])
            rt = self.block(e[2], narrow(q, self.implied(e[1], True)), tail_exit=exit_val)
            self._restore(s)
            qe = narrow(q, self.implied(e[1], False))
            re_ = self.expr(e[3], qe, exit_val) if e[3] is not None else qe
            c = e[1]
            if is_node(c) and c[0] == "letc" and is_err_pat(c[1]):
                self._learn_err(c[2], rt)              # `if let Err(e) = &r { .. }`: the Err case continues the way the then-branch does
            elif is_node(c) and c[0] == "letc" and is_node(c[1]) and c[1][0] == "pts" and c[1][1].split("::")[-1] == "Ok":
                self._learn_err(c[2], re_)
            else:
                # `if flag && r.is_err() { return .. }`: evaluate the condition once more ASSUMING r holds an Err - the Err case of r continues through the
                # branches that are possible under that assumption, with what the condition then says about Q
                for v in sorted({path_of(strip_refs(_strip_access(mc[1]))) or "" for mc in find(c, "mcall") if mc[2] in ("is_err", "is_ok") and not mc[4]}):
                    if not v or "::" in v or self.defs.get(v) is None:
                        continue
                    self.assume_err = v
                    ft, fe = self.implied(c, True), self.implied(c, False)
                    self.assume_err = None
                    out_t = DEAD if ft is DEAD else (rt if rt in (DIV, DEAD) else narrow(rt, ft))
                    out_e = DEAD if fe is DEAD else (re_ if re_ in (DIV, DEAD) else narrow(re_, fe))
                    self._learn_err(["path", v], join(out_t, out_e))
            return join(rt, re_)
        if t == "match":
            self.expr(e[1], q)
            facts = self._match_facts(e[1], e[2])
            res = None
            first = True
            errf = set()            # what is known about Q if the scrutinee is an Err and this arm is reached (the guards of earlier `Err(_) if g` arms failed)
            err_after, err_open, err_known = DEAD, True, True
            for arm, f in zip(e[2], facts):
                qa = narrow(q, f)
                s = self._enter()
                self._bind_opaque(arm[0])
                whole = is_whole_binding(arm[0])
                if whole:
                    # `other => ..`: the name IS the scrutinee, minus what the earlier arms took
                    self.defs[arm[0][1]] = e[1]
                    self.errq[arm[0][1]] = errf
                gfalse = set()
                if arm[1] is not None:
                    self.cond(arm[1], qa)
                    gfalse = self.implied(arm[1], False)
                    qa = narrow(qa, self.implied(arm[1], True))
                r = self.expr(arm[2], qa, exit_val)
                self._restore(s)
                takes_err = is_err_pat(arm[0]) or whole or (is_node(arm[0]) and arm[0][0] == "pwild")
                if not takes_err and not (is_node(arm[0]) and arm[0][0] == "pts" and arm[0][1].split("::")[-1] in ("Ok", "Some", "None")):
                    err_known = False       # a pattern that may or may not take an Err: nothing is learnt about the Err case from this match
                if takes_err and err_open:
                    err_after = join(err_after, r if r in (DIV, DEAD) else narrow(r, errf))
                    if arm[1] is None:
                        err_open = False
                if is_err_pat(arm[0]):
                    # later arms see an Err only if this arm's guard failed (never, if it has none)
                    errf = DEAD if arm[1] is None else combine(errf, gfalse)
                res = r if first else join(res, r)
                first = False
            if not first and err_known and not err_open:
                self._learn_err(e[1], err_after)
            return q if first else res
        if t == "for":
            self.expr(e[2], q)
            s = self._enter()
            self._bind_opaque(e[1])
            self.block(e[3], q)
            self._restore(s)
            return q
        if t == "while":
            self.cond(e[1], q)
            s = self._enter()
            for lc in find(e[1], "letc"):
                self._bind_opaque(lc[1])
            self.block(e[2], narrow(q, self.implied(e[1], True)))
            self._restore(s)
            return q
        if t == "loop":
            self.block(e[1], q)
            return q
        if t == "closure":
            self.closure += 1
            s = self._enter()
            for p in e[1]:
                self._bind_opaque(p)
            self.expr(e[2], q)
            self._restore(s)
            self.closure -= 1
            return q
        if t == "ret":
            if e[1] is not None:
                self.expr(e[1], q, exit_val=self._frame_exit())
            self.at_exit = self._frame_exit()
            self._emit("ret", e, q)
            return DIV
        if t in ("break", "continue"):
            if t == "break" and len(e) > 1 and e[1] is not None:
                self.expr(e[1], q)
            return DIV
        if t == "try":
            self.expr(e[1], q)
            self.at_exit = self._frame_exit()
            self._emit("try", e, q)
            if exit_val:
                self._emit("exit", e, q)
            return q
        if t == "macro":
            self._emit("macro", e, q)
            if exit_val:
                self._emit("exit", e, q)
            return DIV if str(e[1]).split("::")[-1] in PANIC_MACROS else q
        if t == "bin" and e[1] in ("&&", "||"):
            self.cond(e, q)
            if exit_val:
                self._emit("exit", e, q)
            return q
        if t == "call":
            if not path_of(e[1]):
                self.expr(e[1], q)
            for a in e[2]:
                self.expr(a, q)
            self._emit("call", e, q)
            if exit_val:
                self._emit("exit", e, q)
            p = path_of(e[1])
            return DIV if (p and PANICS.search(p)) else q
        if t == "mcall":
            self.expr(e[1], q)
            for a in e[4]:
                self.expr(a, q)
            self._emit("mcall", e, q)
            if exit_val:
                self._emit("exit", e, q)
            return q
        if t == "letc":
            self.expr(e[2], q)
            return q
        if t == "struct":
            for f in e[2]:
                if isinstance(f, list) and len(f) == 2:
                    self.expr(f[1], q)
            if len(e) > 3:
                self.expr(e[3], q)
            if exit_val:
                self._emit("exit", e, q)
            return q
        if t == "assign":
            self.expr(e[1], q)
            r = self.expr(e[2], q)
            self._emit("assign", e, q)
            return r
        # every other expression: visit the operands in order
        for c in e[1:]:
            self._children(c, q)
        if exit_val:
            self._emit("exit", e, q)
        return q

    def _children(self, c, q):
        if is_node(c):
            if c[0] in ("let", "expr"):
                self.block([c], q)
            elif c[0][:1] == "p" and c[0] != "path":
                return
            else:
                self.expr(c, q)
        elif isinstance(c, list):
            for x in c:
                self._children(x, q)

    def _match_facts(self, scrut, arms):
        if self.match_hook is not None:
            f = self.match_hook(scrut, arms, self)
            if f is not None:
                return f
        v = self.cond_value(scrut)
        out = []
        if v is None:
            return [set() for _ in arms]
        covered = set()
        for arm in arms:
            p = arm[0]
            vals = set()
            for alt in (p[1] if is_node(p) and p[0] == "por" else [p]):
                if is_node(alt) and alt[0] == "plit" and is_node(alt[1]) and alt[1][0] == "bool":
                    vals.add(bool(alt[1][1]))
                elif is_node(alt) and alt[0] in ("pwild", "pident"):
                    vals |= ({True, False} - covered) or {True, False}
            if len(vals) == 1:
                b = next(iter(vals))
                out.append(self.implied(scrut, b))
            else:
                out.append(set())
            if arm[1] is None:
                covered |= vals
        return out
