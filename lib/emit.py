"""Symbolic evaluation of the string-building code of a formatter method (text mode).

Result: a template = list of parts
   ("lit", text) | ("fld", path) | ("opt", path, parts) | ("list", path, sep_parts, elem_parts) | ("unk", why)
`path` names the field of the node the text comes from ("name", "increment", "0" for a tuple position ...).
"""
import re
from lib.facts import find, walk, is_node, path_of, render, render_pat, last_seg

STRINGISH = {"to_string", "to_owned", "clone", "into", "as_str", "as_ref", "borrow", "deref", "trim_end", "to_lowercase_NOT"}
ITERISH = {"iter", "into_iter", "enumerate", "iter_mut", "by_ref", "peekable", "cloned", "copied"}


def parse_format(raw):
    """raw token text of format_args!(...) -> (format string, [arg token texts])"""
    m = re.match(r'\s*"((?:[^"\\]|\\.)*)"\s*(?:,(.*))?$', raw, re.S)
    if not m:
        return None, []
    fmt = bytes(m.group(1), "utf-8").decode("unicode_escape") if "\\" in m.group(1) else m.group(1)
    try:
        fmt = fmt.encode("latin-1").decode("utf-8")
    except (UnicodeEncodeError, UnicodeDecodeError):
        pass
    args = []
    rest = m.group(2) or ""
    depth = 0
    cur = ""
    for ch in rest:
        if ch in "([{":
            depth += 1
        elif ch in ")]}":
            depth -= 1
        if ch == "," and depth == 0:
            args.append(cur.strip())
            cur = ""
        else:
            cur += ch
    if cur.strip():
        args.append(cur.strip())
    return fmt, args


def split_format(fmt):
    """format string -> list of ("lit", s) / ("hole", index)"""
    out = []
    i = 0
    auto = 0
    buf = ""
    while i < len(fmt):
        c = fmt[i]
        if c == "{" and i + 1 < len(fmt) and fmt[i + 1] == "{":
            buf += "{"
            i += 2
            continue
        if c == "}" and i + 1 < len(fmt) and fmt[i + 1] == "}":
            buf += "}"
            i += 2
            continue
        if c == "{":
            j = fmt.index("}", i)
            spec = fmt[i + 1:j]
            if buf:
                out.append(("lit", buf))
                buf = ""
            idx = spec.split(":")[0]
            if idx.isdigit():
                out.append(("hole", int(idx)))
            elif idx == "":
                out.append(("hole", auto))
                auto += 1
            else:
                out.append(("named", idx))
            i = j + 1
            continue
        buf += c
        i += 1
    if buf:
        out.append(("lit", buf))
    return out


def text_stmts(stmts):
    """statements on the text path, descending into if/match/blocks but not into html-only branches"""
    for st in stmts or []:
        if st[0] == "expr" and is_node(st[1]):
            e = st[1]
            if e[0] == "if":
                c = render(e[1]).replace(" ", "")
                if c == "self.html":
                    if e[3] is not None:
                        yield from text_stmts(e[3][1] if e[3][0] == "block" else [["expr", e[3], False]])
                    continue
                if c == "!self.html":
                    yield from text_stmts(e[2])
                    continue
                yield from text_stmts(e[2])
                if e[3] is not None:
                    yield from text_stmts(e[3][1] if e[3][0] == "block" else [["expr", e[3], False]])
                continue
            if e[0] in ("block", "unsafe"):
                yield from text_stmts(e[1])
                continue
            if e[0] == "match":
                for a in e[2]:
                    yield from text_stmts(a[2][1] if is_node(a[2]) and a[2][0] == "block" else [["expr", a[2], False]])
                continue
        yield st


class Emitter:
    def __init__(self, it, node_param):
        self.it = it
        self.node = node_param
        self.env = {}        # var -> parts
        self.closures = {}   # local closure name -> closure node
        self.ref = {node_param: ""}        # var -> field path it aliases ("" = the node itself)
        self.template = self.run_block(it["body"])

    # ---- references to node fields
    def ref_of(self, e):
        """field path if e denotes (a part of) the node, else None"""
        while is_node(e) and e[0] in ("ref", "paren", "un"):
            e = e[2] if e[0] in ("ref", "un") else e[1]
        if not is_node(e):
            return None
        if e[0] == "path":
            return self.ref.get(e[1])
        if e[0] == "field":
            b = self.ref_of(e[1])
            if b is None:
                return None
            return (b + "." if b else "") + str(e[2])
        if e[0] == "mcall" and e[2] in ("clone", "as_ref", "borrow", "deref", "iter", "into_iter", "enumerate", "as_slice", "unwrap", "to_vec", "as_deref", "cloned") and not e[4]:
            return self.ref_of(e[1])
        if e[0] == "index":
            b = self.ref_of(e[1])
            return None if b is None else b + "[]"
        return None

    def bind_pattern(self, pat, path):
        """bind variables of a destructuring pattern to sub-paths of `path`"""
        if not is_node(pat):
            return
        if pat[0] == "pident":
            self.ref[pat[1]] = path
            self.env.pop(pat[1], None)
        elif pat[0] == "ptuple":
            for i, p in enumerate(pat[1]):
                self.bind_pattern(p, (path + "." if path else "") + str(i))
        elif pat[0] == "pts":
            subs = pat[2]
            if len(subs) == 1:
                self.bind_pattern(subs[0], path)
            else:
                for i, p in enumerate(subs):
                    self.bind_pattern(p, (path + "." if path else "") + str(i))
        elif pat[0] in ("pref", "ptype"):
            self.bind_pattern(pat[2] if pat[0] == "pref" else pat[1], path)
        elif pat[0] == "pstruct":
            for f in pat[2]:
                self.bind_pattern(f[1], (path + "." if path else "") + f[0])

    # ---- expressions
    def ev(self, e, depth=0):
        if depth > 40 or not is_node(e):
            return [("unk", "depth")]
        t = e[0]
        if t == "str":
            return [("lit", e[1])] if e[1] != "" else []
        if t == "paren":
            return self.ev(e[1], depth + 1)
        if t == "ref":
            return self.ev(e[2], depth + 1)
        if t == "path":
            if e[1] in self.env:
                return list(self.env[e[1]])
            r = self.ref.get(e[1])
            if r is not None:
                return [("fld", r)]
            return [("unk", e[1])]
        if t == "macro":
            nm = last_seg(e[1])
            if nm in ("format_args", "format"):
                fmt, args = parse_format(e[3] if len(e) > 3 else e[2])
                if fmt is None:
                    return [("unk", "format")]
                out = []
                for kind, v in split_format(fmt):
                    if kind == "lit":
                        out.append(("lit", v))
                    elif kind == "hole" and v < len(args):
                        out += self.ev_tokens(args[v], depth + 1)
                    else:
                        out.append(("unk", "hole"))
                return out
            return [("unk", nm)]
        if t == "call":
            f = path_of(e[1]) or ""
            ls = last_seg(f)
            if f.endswith("must_use") or f.endswith("fmt::format") or ls in ("String::from", "from"):
                return self.ev(e[2][0], depth + 1) if e[2] else []
            if f in ("String::new",):
                return []
            if f in getattr(self, "closures", {}):
                clo = self.closures[f]
                saved = (dict(self.env), dict(self.ref))
                for cp, a in zip(clo[1], e[2]):
                    ra = self.ref_of(a)
                    if ra is not None:
                        self.bind_pattern(cp[1] if is_node(cp) and cp[0] == "ptype" else cp, ra)
                out_ = self.ev(clo[2], depth + 1)
                self.env, self.ref = saved
                return out_
            r = [self.ref_of(a) for a in e[2]]
            r = [x for x in r if x is not None]
            if r:
                return [("fld", r[0])]
            return [("unk", ls)]
        if t in ("block", "unsafe"):
            return self.run_block(e[1], nested=True)
        if t == "mcall":
            recv, m, args = e[1], e[2], e[4]
            if path_of(recv) == "self":
                refs = [self.ref_of(a) for a in args]
                refs = [x for x in refs if x is not None]
                if refs:
                    return [("fld", refs[0], m, len(args))]
                vals = [self.ev(a, depth + 1) for a in args]
                vals = [v for v in vals if v and not all(p[0] == "unk" for p in v)]
                if vals:
                    return vals[0]
                return [("unk", "self." + m)]
            if m == "join" and args:
                # <iter>.map(|x| ...).collect().join(SEP)
                inner = recv
                while is_node(inner) and inner[0] == "mcall" and inner[2] in ("collect",):
                    inner = inner[1]
                if is_node(inner) and inner[0] == "mcall" and inner[2] == "map" and inner[4] and inner[4][0][0] == "closure":
                    src = inner[1]
                    clo = inner[4][0]
                    p = self.ref_of(src)
                    if p is None and is_node(src) and src[0] == "mcall":
                        p = self.ref_of(src[1])
                    if p is not None:
                        sub = Emitter.__new__(Emitter)
                        sub.it, sub.node, sub.env, sub.ref = self.it, self.node, dict(self.env), dict(self.ref)
                        for cp in clo[1]:
                            sub.bind_pattern(cp if not (is_node(cp) and cp[0] == "ptuple" and len(cp[1]) == 2 and src[2] == "enumerate") else cp[1][1], p + "[]")
                        elem = sub.ev(clo[2], depth + 1)
                        sep = self.ev(args[0], depth + 1)
                        return [("list", p, sep, elem)]
                p = self.ref_of(recv)
                if p is not None:
                    return [("list", p, self.ev(args[0], depth + 1), [("fld", p + "[]")])]
                return [("unk", "join")]
            if m in STRINGISH or m in ("to_string",):
                r = self.ref_of(recv)
                if r is not None:
                    return [("fld", r)]
                return self.ev(recv, depth + 1)
            if m in ("unwrap_or_else", "unwrap_or", "unwrap_or_default") :
                return self.ev(recv, depth + 1)
            if m == "map" and args and args[0][0] == "closure":
                p = self.ref_of(recv)
                if p is None and is_node(recv) and recv[0] == "mcall":
                    p = self.ref_of(recv[1])
                if p is not None:
                    sub = Emitter.__new__(Emitter)
                    sub.it, sub.node, sub.env, sub.ref = self.it, self.node, dict(self.env), dict(self.ref)
                    for cp in args[0][1]:
                        sub.bind_pattern(cp, p)
                    return [("opt", p, sub.ev(args[0][2], depth + 1))]
            r = self.ref_of(e)
            if r is not None:
                return [("fld", r)]
            return [("unk", m)]
        if t == "if":
            c = render(e[1]).replace(" ", "")
            if c == "self.html":
                return self.ev(e[3], depth + 1) if e[3] is not None else []
            if c == "!self.html":
                return self.run_block(e[2], nested=True)
            if is_node(e[1]) and e[1][0] == "letc":
                p = self.ref_of(e[1][2])
                if p is not None:
                    saved = (dict(self.env), dict(self.ref))
                    self.bind_pattern(e[1][1], p)
                    a = self.run_block(e[2], nested=True)
                    self.env, self.ref = saved
                    return [("opt", p, a)]
            a = self.run_block(e[2], nested=True)
            b = self.ev(e[3], depth + 1) if e[3] is not None else []
            if a == b:
                return a
            pa = {x[1] for x in a if x[0] in ("fld", "opt", "list")}
            return [("alt", a, b)]
        if t == "match":
            p = self.ref_of(e[1])
            arms = e[2]
            if p is not None:
                outs = []
                for a in arms:
                    saved = (dict(self.env), dict(self.ref))
                    self.bind_pattern(a[0], p)
                    outs.append((render_pat(a[0]), self.ev(a[2], depth + 1)))
                    self.env, self.ref = saved
                nonempty = [o for _, o in outs if o]
                if all(all(x[0] == "lit" for x in o) for _, o in outs):
                    return [("fld", p)]            # literal spelling of an operator / flag field
                pats = [pt for pt, _ in outs]
                if any(pt.startswith("Some") for pt in pats) and any(pt in ("None", "_") for pt in pats) and len(nonempty) <= 1:
                    return [("opt", p, nonempty[0] if nonempty else [])]
                if len(nonempty) == 1:
                    return nonempty[0]
                return [("alt",) + tuple(o for _, o in outs)]
            return [("unk", "match")]
        if t == "letc":
            return [("unk", "let-cond")]
        return [("unk", t)]

    def ev_tokens(self, txt, depth):
        """format argument given as token text: a variable, a field access, or a small expression"""
        txt = txt.strip()
        ms = re.match(r'^"((?:[^"\\]|\\.)*)"(?:\s*\.\s*to_string\s*\(\s*\))?$', txt)
        if ms:
            return [("lit", ms.group(1))] if ms.group(1) else []
        txt = re.sub(r"(\s*\.\s*(to_string|clone|to_owned|as_str)\s*\(\s*\))+$", "", txt).strip()
        txt = re.sub(r"^&\s*", "", txt)
        if re.match(r"^\w+$", txt):
            return self.ev(["path", txt], depth)
        m = re.match(r"^(\w+(?:\s*\.\s*\w+)+)$", txt)
        if m:
            segs = [s.strip() for s in m.group(1).split(".")]
            if segs[-1] in ("to_string", "clone"):
                segs = segs[:-1]
            base = self.ref.get(segs[0])
            if base is not None:
                return [("fld", ".".join([base] + segs[1:]).strip("."))]
        mm = re.match(r"^self\s*\.\s*(\w+)\s*\(\s*&?\s*(\w+(?:\s*\.\s*\w+)*)\s*\)$", txt)
        if mm:
            segs = [s.strip() for s in mm.group(2).split(".")]
            base = self.ref.get(segs[0])
            if base is not None:
                return [("fld", ".".join([base] + segs[1:]).strip("."), mm.group(1))]
        return [("unk", txt[:30])]

    # ---- statements
    def run_block(self, stmts, nested=False):
        tail = []
        for i, st in enumerate(stmts):
            if st[0] == "let":
                pat, init = st[1], st[2]
                if init is None:
                    continue
                r = self.ref_of(init)
                if r is not None and not (is_node(init) and init[0] == "mcall" and init[2] in ("to_string",)):
                    self.bind_pattern(pat, r)
                    continue
                if pat[0] == "pident" and is_node(init) and init[0] == "closure":
                    self.closures[pat[1]] = init
                    continue
                if pat[0] == "pident":
                    self.env[pat[1]] = self.ev(init)
                    self.ref.pop(pat[1], None)
                elif pat[0] == "ptuple":
                    # let (a, b) = match &node.f { Some((x, y)) => (render x, render y), None => ("", "") }
                    done = False
                    if is_node(init) and init[0] == "match" and self.ref_of(init[1]) is not None:
                        p_ = self.ref_of(init[1])
                        some = [a for a in init[2] if render_pat(a[0]).startswith("Some")]
                        if len(some) == 1 and is_node(some[0][2]) and some[0][2][0] == "tuple" and len(some[0][2][1]) == len(pat[1]):
                            saved = (dict(self.env), dict(self.ref))
                            self.bind_pattern(some[0][0], p_)
                            vals = [self.ev(x) for x in some[0][2][1]]
                            self.env, self.ref = saved
                            for sub, v in zip(pat[1], vals):
                                if sub[0] == "pident":
                                    self.env[sub[1]] = [("opt", p_, v)]
                            done = True
                    if not done:
                        for p in find(pat, "pident"):
                            self.env[p[1]] = [("unk", "tuple-let")]
            elif st[0] == "expr":
                e = st[1]
                last = (i == len(stmts) - 1)
                if is_node(e) and e[0] == "for":
                    self.run_for(e)
                elif is_node(e) and e[0] == "assign" and is_node(e[1]) and e[1][0] == "path":
                    self.env[e[1][1]] = self.ev(e[2])
                elif is_node(e) and e[0] == "mcall" and e[2] in ("push_str", "push") and is_node(e[1]) and e[1][0] == "path" and e[4]:
                    self.env[e[1][1]] = self.env.get(e[1][1], []) + self.ev(e[4][0])
                elif is_node(e) and e[0] == "match" and not (last and not st[2]):
                    p_ = self.ref_of(e[1])
                    assigned = {a[1][1] for a in find(e, "assign") if is_node(a[1]) and a[1][0] == "path"} | \
                               {m_[1][1] for m_ in find(e, "mcall") if m_[2] in ("push_str",) and is_node(m_[1]) and m_[1][0] == "path"}
                    some = [a for a in e[2] if render_pat(a[0]).startswith("Some")]
                    if p_ is not None and len(some) == 1 and len(e[2]) == 2:
                        saved = (dict(self.env), dict(self.ref))
                        for v in assigned:
                            self.env[v] = []
                        self.bind_pattern(some[0][0], p_)
                        self.run_block(some[0][2][1] if is_node(some[0][2]) and some[0][2][0] == "block" else [["expr", some[0][2], True]], nested=True)
                        delta = {v: self.env.get(v, []) for v in assigned}
                        self.env, self.ref = saved
                        for v in assigned:
                            self.env[v] = self.env.get(v, []) + [("opt", p_, delta[v])]
                    else:
                        for v in assigned:
                            self.env[v] = [("unk", "assigned in match")]
                elif is_node(e) and e[0] == "if" and render(e[1]).replace(" ", "") not in ("self.html", "!self.html") and not (last and not st[2]):
                    assigned = {a[1][1] for a in find(e, "assign") if is_node(a[1]) and a[1][0] == "path"} | \
                               {m_[1][1] for m_ in find(e, "mcall") if m_[2] in ("push_str",) and is_node(m_[1]) and m_[1][0] == "path"}
                    if is_node(e[1]) and e[1][0] == "letc" and self.ref_of(e[1][2]) is not None and e[3] is None:
                        p_ = self.ref_of(e[1][2])
                        saved = (dict(self.env), dict(self.ref))
                        for v in assigned:
                            self.env[v] = []
                        self.bind_pattern(e[1][1], p_)
                        self.run_block(e[2], nested=True)
                        delta = {v: self.env.get(v, []) for v in assigned}
                        self.env, self.ref = saved
                        for v in assigned:
                            self.env[v] = self.env.get(v, []) + [("opt", p_, delta[v])]
                    else:
                        for v in assigned:
                            self.env[v] = [("unk", "assigned under a condition")]
                elif is_node(e) and e[0] in ("while", "loop"):
                    for a in find(e, "assign"):
                        if is_node(a[1]) and a[1][0] == "path":
                            self.env[a[1][1]] = [("unk", "assigned in a loop")]
                elif is_node(e) and e[0] == "ret":
                    if last:
                        tail = self.ev(e[1]) if e[1] is not None else []
                elif last and not st[2]:
                    tail = self.ev(e)
                elif is_node(e) and e[0] == "if" and render(e[1]).replace(" ", "") in ("self.html", "!self.html"):
                    c = render(e[1]).replace(" ", "")
                    blk = (e[3][1] if (e[3] is not None and e[3][0] == "block") else []) if c == "self.html" else e[2]
                    r_ = self.run_block(blk, nested=True)
                    if last:
                        tail = r_
        return tail

    def run_for(self, f):
        pat, it_, body = f[1], f[2], f[3]
        p = self.ref_of(it_)
        enumerated = "enumerate" in render(it_)
        if p is None:
            # unknown iteration: poison every variable assigned in the body
            for a in find(body, "assign"):
                if is_node(a[1]) and a[1][0] == "path":
                    self.env[a[1][1]] = [("unk", "loop over " + render(it_)[:30])]
            return
        saved_ref = dict(self.ref)
        if enumerated and pat[0] == "ptuple" and len(pat[1]) == 2:
            self.bind_pattern(pat[1][1], p + "[]")
        else:
            self.bind_pattern(pat, p + "[]")
        before = dict(self.env)
        accs = {}
        # run the body once; assignments to outer variables (anywhere on the text path) are accumulations
        for st in text_stmts(body):
            if st[0] == "let" and st[2] is not None and st[1][0] == "pident":
                self.env[st[1][1]] = self.ev(st[2])
                self.ref.pop(st[1][1], None)
            elif st[0] == "let" and st[2] is not None and self.ref_of(st[2]) is not None:
                self.bind_pattern(st[1], self.ref_of(st[2]))
            elif st[0] == "expr" and is_node(st[1]):
                e = st[1]
                if e[0] == "assign" and is_node(e[1]) and e[1][0] == "path":
                    v = e[1][1]
                    saved = self.env.get(v)
                    self.env[v] = [("ACC",)]
                    val = self.ev(e[2])
                    self.env[v] = saved if saved is not None else []
                    accs.setdefault(v, []).append(val)
                elif e[0] == "mcall" and e[2] in ("push_str", "push") and is_node(e[1]) and e[1][0] == "path" and e[4]:
                    accs.setdefault(e[1][1], []).append([("ACC",)] + self.ev(e[4][0]))
                elif e[0] == "for":
                    for a in find(e, "assign"):
                        if is_node(a[1]) and a[1][0] == "path":
                            accs.setdefault(a[1][1], []).append([("unk", "nested loop")])
        self.ref = saved_ref
        for v, vals in accs.items():
            withacc = [x for x in vals if any(p_[0] == "ACC" for p_ in x)]
            val = withacc[0] if withacc else vals[0]
            # several differently shaped updates of one accumulator (first / middle / last element written differently): the per-element
            # text depends on the position, which this reader does not model -> mark the element as partly undecided
            def shape(x):
                return tuple((p_[0], p_[1] if p_[0] == "lit" else None) for p_ in x if p_[0] != "ACC")
            lits_first = [x for x in vals if not any(p_[0] == "ACC" for p_ in x) and any(p_[0] == "lit" and p_[1].strip() for p_ in x)]
            varied = len({shape(x) for x in withacc}) > 1 or bool(lits_first)
            if any(p_[0] == "ACC" for p_ in val):
                k = [i for i, p_ in enumerate(val) if p_[0] == "ACC"][0]
                rest = val[k + 1:]
                sep = []
                while rest and rest[0][0] == "lit":
                    sep.append(rest.pop(0))
                pre = val[:k]
                elem = pre + rest
            else:
                sep, elem = [], val
            if varied:
                elem = elem + [("unk", "element text depends on its position")]
            self.env[v] = list(before.get(v, [])) + [("list", p, sep, elem)]


def flatten(parts, out=None, optional=False):
    """template -> linear sequence of ("L", text) / ("F", top-level field, optional?) / ("U", why)"""
    out = [] if out is None else out
    for p in parts:
        k = p[0]
        if k == "lit":
            out.append(("L", p[1]))
        elif k == "fld":
            out.append(("F", p[1], optional))
        elif k == "opt":
            inner = flatten(p[2], [], True)
            own = re.split(r"[.\[]", p[1])[0]
            others = [x for x in inner if x[0] in ("F", "LIST", "OPEN") and re.split(r"[.\[]", x[1])[0] != own]
            inner_fields = [x for x in inner if x[0] in ("F", "LIST", "OPEN")]
            if not inner_fields or (not others and any(x[0] == "U" for x in inner)):
                out.append(("F", p[1], True))        # the group as a whole is the rendering of that optional field
            elif not others:
                # literals inside a group that renders only its own field may be that field's own syntax (e.g. the braces of an option map)
                out.append(("OPEN", p[1]))
                out += [("L~", x[1]) if x[0] == "L" else x for x in inner]
                out.append(("CLOSE", p[1]))
            else:
                out.append(("OPEN", p[1]))
                out += inner
                out.append(("CLOSE", p[1]))
        elif k == "list":
            out.append(("LIST", p[1], "".join(x[1] for x in p[2] if x[0] == "lit"), flatten(p[3], [], optional)))
        elif k == "alt":
            out.append(("U", "alternative"))
        else:
            out.append(("U", p[1] if len(p) > 1 else k))
    return out


def show(parts):
    s = []
    for p in parts:
        k = p[0]
        if k == "lit":
            s.append(repr(p[1]))
        elif k == "fld":
            s.append("<%s>" % p[1])
        elif k == "opt":
            s.append("[%s]?" % show(p[2]))
        elif k == "list":
            s.append("{%s / sep %s}*" % (show(p[3]), repr("".join(x[1] for x in p[2] if x[0] == "lit"))))
        elif k == "alt":
            s.append("(" + " | ".join(show(x) for x in p[1:]) + ")")
        else:
            s.append("?%s" % (p[1] if len(p) > 1 else ""))
    return " ".join(s)
