"""MIR queries for GATES: a check in front of an effect (`if !admissible(declared, given) { return Err(..) }` before the call that does the work).

Reusable pieces (all on one lib.facts.Body, normally the result of lib.mirinline.inline_body so that private helpers are transparent):

  variant_reach(body, starts, avoid, cut_edges)   reachability that remembers which Result / Option / ControlFlow variant was built on the path
                                                 (as lib.mirinline.feasible_reach) and additionally (i) knows that `from_residual` yields the failing
                                                 variant - `helper(..)?` inside an expanded helper that is itself called with `?` - and (ii) can cut
                                                 single CFG edges (one outcome of a switch) instead of whole blocks
  depends(body, operand)                         may-depend slice: every local the operand can derive from through statements and THROUGH ALL CALLS
                                                 (arguments -> result), stopped at `Iterator::next` (the element a loop works on is a root, so the
                                                 two halves of a zipped pair are told apart); -> (locals, item roots = blocks of the `next` calls,
                                                 index locals used in projections)
  place_type(body, place, adts)                  declared type of a place with simple projections (`*`, `.N`, `@Variant.N`), or None
  option_edges(body, blk)                        for a switch on the discriminant of an Option place: (place, some_target, none_target) else None
  count_comparisons(body, flow, elem_a, elem_b)  switches that compare `len()` of a sequence of elem_a with `len()` of a sequence of elem_b
"""
import re

from lib.mirinline import _TRACKED_ADT, _VARIANT_INDEX, _BRANCH_OF

ITER_NEXT = re.compile(r"::Iterator::next$|::next$")
LEN_CALL = re.compile(r"(Vec::<T, A>|<impl \[T\]>|VecDeque::<T, A>|slice::<impl \[T\]>)::len$")


def callee(t):
    return t.get("f") or t["tf"]


def variant_reach(body, starts, avoid=(), cut_edges=(), limit=80000):
    avoid = set(avoid)
    cut_edges = set(cut_edges)
    seen_blocks = set()
    seen = set()
    work = [(s, frozenset()) for s in starts if s not in avoid]
    steps = 0
    while work:
        blk, st0 = work.pop()
        if (blk, st0) in seen:
            continue
        seen.add((blk, st0))
        seen_blocks.add(blk)
        steps += 1
        if steps > limit:
            out = set()
            todo = [s for s in starts if s not in avoid]
            while todo:
                x = todo.pop()
                if x in out:
                    continue
                out.add(x)
                todo += [y for y in body.succ(x) if y not in avoid and (x, y) not in cut_edges]
            return out
        st = dict(st0)
        bl = body.blocks[blk]
        for s in bl["s"]:
            d = s["d"]
            rk, src = s.get("rk"), s.get("src") or []
            val = None
            if d[1] == "":
                if rk == "agg" and _TRACKED_ADT.search(s.get("adt", "")) and s.get("var") in _VARIANT_INDEX:
                    val = s["var"]
                elif rk in ("use", "ref") and len(src) == 1 and isinstance(src[0], list) and src[0][1] == "" and isinstance(st.get(src[0][0]), str):
                    val = st[src[0][0]]
                elif rk == "discr" and len(src) == 1 and isinstance(src[0], list) and src[0][1] in ("", "*") and isinstance(st.get(src[0][0]), str):
                    val = _VARIANT_INDEX[st[src[0][0]]]
            if val is None:
                st.pop(d[0], None)
            else:
                st[d[0]] = val
        t = bl["t"]
        succ = body.succ(blk)
        if t["k"] == "call":
            d = t["d"]
            val = None
            cal = callee(t)
            if d[1] == "" and cal.endswith("::branch") and t["args"] and isinstance(t["args"][0], list) and t["args"][0][1] == "":
                v = st.get(t["args"][0][0])
                if isinstance(v, str) and v in _BRANCH_OF:
                    val = _BRANCH_OF[v]
            elif d[1] == "" and cal.endswith("from_residual"):
                ty = body.locals[d[0]] if d[0] < len(body.locals) else ""
                if ty.startswith("core::result::Result<"):
                    val = "Err"
                elif ty.startswith("core::option::Option<"):
                    val = "None"
            if val is None:
                st.pop(d[0], None)
            else:
                st[d[0]] = val
        elif t["k"] == "switch" and isinstance(t["on"], list) and t["on"][1] == "" and isinstance(st.get(t["on"][0]), int):
            idx = st[t["on"][0]]
            hit = [tg for v, tg in t["targets"] if v == idx]
            succ = hit[:1] if hit else [t["else"]]
        nst = frozenset(st.items())
        for x in succ:
            if x not in avoid and (blk, x) not in cut_edges:
                work.append((x, nst))
    return seen_blocks


def depends(body, operand, limit=6000, through_next=False, reads=None):
    """see module doc; through_next=True follows the loop element back into the iterated containers; `reads` (a list) receives every place read on the way"""
    defs = body.defs()
    seen, items, index_locals = set(), set(), set()
    st = []

    def push(o):
        if isinstance(o, list) and o and isinstance(o[0], int):
            if reads is not None:
                reads.append((o[0], o[1] or ""))
            st.append(o[0])
            for m in re.findall(r"\[_(\d+)\]", o[1] or ""):
                index_locals.add(int(m))
                st.append(int(m))
    push(operand)
    n = 0
    while st and n < limit:
        n += 1
        l = st.pop()
        if l in seen:
            continue
        seen.add(l)
        for blk, s in defs.get(l, []):
            if s.get("k") == "call":
                if ITER_NEXT.search(s.get("tf") or "") or ITER_NEXT.search(callee(s)):
                    items.add(blk)
                    if not through_next:
                        continue
                for a in s["args"]:
                    push(a)
            else:
                for o in s.get("src") or []:
                    push(o)
    return seen, items, index_locals


def _strip_refs(ty):
    return re.sub(r"^(&(mut )?|\*(const|mut) )+", "", ty.strip())


def _generic_args(ty):
    i = ty.find("<")
    if i < 0 or not ty.endswith(">"):
        return ty, []
    head, inner = ty[:i], ty[i + 1:-1]
    out, depth, cur = [], 0, ""
    for ch in inner:
        if ch in "<([":
            depth += 1
        elif ch in ">)]":
            depth -= 1
        if ch == "," and depth == 0:
            out.append(cur.strip())
            cur = ""
        else:
            cur += ch
    if cur.strip():
        out.append(cur.strip())
    return head, out


def split_type(ty):
    """(head, [generic arguments]) of a type string as the MIR facts print it; a tuple type `(A,B)` has head "(" """
    ty = ty.strip()
    if ty.startswith("(") and ty.endswith(")"):
        _, args = _generic_args("T<" + ty[1:-1] + ">")
        return "(", args
    return _generic_args(ty)


def place_type(body, place, adts):
    """type of `local.proj` for projections made of `*`, `.N` (struct / tuple field) and `@Variant.N`"""
    ty = body.locals[place[0]]
    proj = place[1] or ""
    by_name = {}
    for a in adts:
        by_name.setdefault(a["name"], a)
    toks = re.findall(r"\*|@[A-Za-z_0-9]+\.\d+|\.\d+", proj)
    if "".join(toks) != proj:
        return None
    for tk in toks:
        if tk == "*":
            ty2 = re.sub(r"^(&(mut )?|\*(const|mut) )", "", ty.strip(), count=1)
            if ty2 == ty.strip():
                head, args = split_type(ty)
                if head.endswith("::Box") and args:
                    ty2 = args[0]
                else:
                    return None
            ty = ty2
            continue
        head, args = split_type(_strip_refs(ty) if tk.startswith("@") else ty)
        if tk.startswith("@"):
            var, idx = tk[1:].split(".")
            idx = int(idx)
            if head == "core::option::Option" and var == "Some" and args:
                ty = args[0]
                continue
            a = by_name.get(head)
            if a is None:
                return None
            vs = [v for v in a["variants"] if v["name"] == var]
            if not vs or idx >= len(vs[0]["fields"]):
                return None
            ty = vs[0]["fields"][idx][1]
            continue
        idx = int(tk[1:])
        if head == "(":
            if idx >= len(args):
                return None
            ty = args[idx]
            continue
        a = by_name.get(head)
        if a is None or a.get("enum") or idx >= len(a["variants"][0]["fields"]):
            return None
        ty = a["variants"][0]["fields"][idx][1]
    return ty


def field_reads(body, reads, adts):
    """{(struct def path, field name)} for the places in `reads` that project a field out of a struct-typed local (through derefs)"""
    by_name = {}
    for a in adts:
        by_name.setdefault(a["name"], a)
    out = set()
    for l, proj in reads:
        m = re.match(r"^(\**)\.(\d+)", proj or "")
        if not m:
            continue
        ty = body.locals[l]
        if m.group(1):
            ty = _strip_refs(ty)
        a = by_name.get(split_type(ty)[0])
        if a is None or a.get("enum") or int(m.group(2)) >= len(a["variants"][0]["fields"]):
            continue
        out.add((a["name"], a["variants"][0]["fields"][int(m.group(2))][0]))
    return out


def option_edges(body, blk, adts):
    """switch at the end of `blk` on the discriminant of an Option-typed place -> (type of the Option, some_target, none_target) else None"""
    t = body.blocks[blk]["t"]
    if t["k"] != "switch" or not isinstance(t["on"], list):
        return None
    src = [s for s in body.blocks[blk]["s"] if s["d"][0] == t["on"][0] and s.get("rk") == "discr"]
    if not src or not isinstance(src[0]["src"][0], list):
        return None
    ty = place_type(body, src[0]["src"][0], adts)
    if ty is None:
        return None
    ty = _strip_refs(ty)
    if not ty.startswith("core::option::Option<"):
        return None
    tg = dict((v, x) for v, x in t["targets"])
    return ty, tg.get(1, t.get("else")), tg.get(0, t.get("else"))


def count_comparisons(body, flow, elem_a, elem_b):
    """switches whose condition compares the length of a sequence of `elem_a` with the length of a sequence of `elem_b`.
    -> [(switch block, op, a_is_left, polarity, {True: target, False: target})]: the switch operand equals (len_left OP len_right) if polarity else its negation"""
    def elem_of(op):
        o = flow.origin(op, through_calls=False)
        if o[0] == "call" and LEN_CALL.search(callee(o[2])) and (o[2].get("ga") or [None])[0] is not None:
            return o[2]["ga"][0]
        return None
    out = []
    for i in range(len(body.blocks)):
        if body.blocks[i]["cl"]:
            continue
        be = flow.bool_edges(i)
        if not be:
            continue
        c = flow.cond(be[0])
        if c[0] != "cmp":
            continue
        op, lhs, rhs, _blk = c[1]
        el, er = elem_of(lhs), elem_of(rhs)
        if {el, er} == {elem_a, elem_b} and el != er:
            out.append((i, op, el == elem_a, c[2], be[1]))
    return out
