"""Extraction of Mech's function protocol from the expanded syntax facts:
function structs (fields, solve / out / new / compile), registry descriptors, kind tables."""
import re
from collections import defaultdict
from lib.facts import find, walk, path_of, last_seg, strip_generics, render, is_node

FXN_CRATES = ["mech_core.lib", "mech_interpreter.lib", "mech_math.lib", "mech_compare.lib", "mech_logic.lib", "mech_set.lib",
              "mech_range.lib", "mech_matrix.lib", "mech_stats.lib", "mech_string.lib", "mech_combinatorics.lib", "mech_io.lib"]

ARITY = {"Nullary": 0, "Unary": 1, "Binary": 2, "Ternary": 3, "Quaternary": 4, "Variadic": -1}
EMIT = {"emit_nullop": 0, "emit_unop": 1, "emit_binop": 2, "emit_ternop": 3, "emit_quadop": 4, "emit_varop": -1}


def split_top(s, sep=","):
    out, depth, cur, instr, esc = [], 0, [], False, False
    for ch in s:
        if instr:
            cur.append(ch)
            if esc:
                esc = False
            elif ch == "\\":
                esc = True
            elif ch == '"':
                instr = False
            continue
        if ch == '"':
            instr = True
            cur.append(ch)
        elif ch in "([{<":
            depth += 1
            cur.append(ch)
        elif ch in ")]}>":
            depth -= 1
            cur.append(ch)
        elif ch == sep and depth == 0:
            out.append("".join(cur).strip())
            cur = []
        else:
            cur.append(ch)
    if cur:
        out.append("".join(cur).strip())
    return out


def type_head(t):
    """`SubVDVD<T>` -> `SubVDVD`; `crate::x::Foo<A,B>` -> `Foo`"""
    return strip_generics(t).split("::")[-1].strip()


def type_args(t):
    m = re.match(r"[^<]*<(.*)>\s*$", t)
    if not m:
        return []
    return split_top(m.group(1))


def generic_names(igen):
    """`<T:Foo,R1,const N:usize>` -> [T, R1, N]"""
    if not igen:
        return []
    inner = igen.strip()
    if inner.startswith("<"):
        inner = inner[1:-1]
    names = []
    for part in split_top(inner):
        part = part.strip()
        if part.startswith("'"):
            continue
        part = re.sub(r"^const\s+", "", part)
        names.append(re.split(r"[:=\s]", part)[0])
    return names


class FxnStruct:
    def __init__(self, crate, name):
        self.crate = crate
        self.name = name
        self.fields = []          # [(name, type)]
        self.generics = []        # impl generics of the MechFunctionImpl impl
        self.self_args = []       # type args of Self in that impl
        self.solve = None
        self.out_expr = None
        self.new = None           # dict(arity, variant, binds{field: arg}, out_field)
        self.compile = None       # dict(fmt, fmt_args, emit, arity, regs[field...])
        self.line = 0
        self.mod = ""

    def __repr__(self):
        return "<FxnStruct %s>" % self.name


def parse_format_args(tokens):
    parts = split_top(tokens)
    if not parts or not parts[0].startswith('"'):
        return None
    try:
        import json
        fmt = json.loads(parts[0])
    except Exception:
        fmt = parts[0].strip('"')
    return fmt, parts[1:]


def name_template(body):
    """find `let name = format!(..)` / `let name = "..."` in a compile body; returns (fmt, args) or None"""
    for st in body:
        if st[0] == "let" and is_node(st[1]) and st[1][0] == "pident" and st[1][1] == "name":
            init = st[2]
            for m in find(init, "macro"):
                if last_seg(m[1]) in ("format_args", "format"):
                    return parse_format_args(m[2])
            for s in find(init, "str"):
                return s[1], []
    return None


def self_field(e):
    """self.x / self.x.clone() / &self.x -> x"""
    while is_node(e) and e[0] in ("ref", "mcall") and (e[0] == "ref" or e[2] in ("clone", "borrow", "addr", "as_ref")):
        e = e[2] if e[0] == "ref" else e[1]
    if is_node(e) and e[0] == "field" and path_of(e[1]) == "self":
        return e[2]
    return None


def parse_compile(body):
    info = {"name": name_template(body), "emit": None, "arity": None, "regs": [], "reg_exprs": []}
    # registers[i] = { let addr = self.F.addr(); ... }
    regs = {}
    for n in walk(body):
        # the register array is whatever local is assigned by constant index from an `.addr()` value (no dependence on its spelling)
        if n[0] == "assign" and is_node(n[1]) and n[1][0] == "index" and path_of(n[1][1]) and "::" not in path_of(n[1][1]) \
                and any(m[2] == "addr" for m in find(n[2], "mcall")):
            idx = n[1][2]
            if is_node(idx) and idx[0] == "int":
                fld = None
                for m in find(n[2], "mcall"):
                    if m[2] == "addr":
                        fld = self_field(m[1]) or render(m[1])
                        break
                regs[int(idx[1])] = fld
        if n[0] == "mcall" and n[2] in EMIT and path_of(n[1]) and "::" not in path_of(n[1]):   # the compile context: whatever local receives emit_*
            info["emit"] = n[2]
            info["arity"] = EMIT[n[2]]
            info["emit_args"] = [render(a) for a in n[4]]
    info["regs"] = [regs[i] for i in sorted(regs)]
    if not regs:
        # other style: `let out_reg = compile_register!(self.x)` - every register is a named local bound to a block that takes `.addr()` of a field, and
        # the emit call lists those locals: register k is the field behind the k-th register argument of emit_* (the first argument is the function id)
        named = {}
        for st in find(body, "let"):
            if len(st) == 4 and st[2] is not None and is_node(st[1]) and st[1][0] == "pident":
                for m in find(st[2], "mcall"):
                    if m[2] == "addr":
                        named[st[1][1]] = self_field(m[1]) or render(m[1])
                        break
        if named:
            for n in walk(body):
                if n[0] == "mcall" and n[2] in EMIT and path_of(n[1]) and "::" not in path_of(n[1]):
                    order = []
                    for a in n[4][1:]:
                        e = a
                        while is_node(e) and e[0] in ("ref", "paren", "cast") or (is_node(e) and e[0] == "mcall" and e[2] == "clone"):
                            e = e[2] if e[0] == "ref" else e[1]
                        nm = path_of(e) if is_node(e) else None
                        if nm in named:
                            order.append(named[nm])
                        else:
                            order = []
                            break
                    if order:
                        info["regs"] = order
    return info


def parse_new(body, selfname):
    """match args { FunctionArgs::Binary(out, arg1, arg2) => { let f: T = unsafe{argN.as_unchecked()}.clone(); Ok(Box::new(Self{..})) } }"""
    res = []
    for m in find(body, "match"):
        # the argument pack is whatever the match over FunctionArgs::* patterns scrutinises (no dependence on the parameter's spelling)
        if not any(arm[0][0] == "pts" and str(arm[0][1]).startswith("FunctionArgs::") for arm in m[2]):
            continue
        for arm in m[2]:
            p = arm[0]
            if p[0] == "pts" and p[1].startswith("FunctionArgs::"):
                variant = p[1].split("::")[-1]
                argnames = []
                for sp in p[2]:
                    argnames.append(sp[1] if sp[0] == "pident" else "_")
                # bindings: local -> arg
                binds = {}
                for st in find(arm[2], "let") if False else []:
                    pass
                local_from = {}
                stmts = arm[2][1] if arm[2][0] == "block" else [["expr", arm[2], False]]
                for st in stmts:
                    if st[0] == "let":
                        pat = st[1]
                        while pat[0] == "ptype":
                            pat = pat[1]
                        if pat[0] == "pident" and st[2] is not None:
                            used = [a for a in argnames if any(path_of(x) == a for x in find(st[2], "path"))]
                            # transitively through earlier locals
                            for x in find(st[2], "path"):
                                if x[1] in local_from:
                                    used += local_from[x[1]]
                            local_from[pat[1]] = sorted(set(used))
                fields = {}
                for s in find(arm[2], "struct"):
                    if s[1] in ("Self", selfname) or type_head(s[1]) == selfname:
                        for f, e in s[2]:
                            used = []
                            for x in find(e, "path"):
                                if x[1] in local_from:
                                    used += local_from[x[1]]
                                elif x[1] in argnames:
                                    used.append(x[1])
                            fields[f] = sorted(set(used))
                res.append({"variant": variant, "arity": ARITY.get(variant), "args": argnames, "fields": fields})
    return res


def load_fxn_structs(F, crates=FXN_CRATES):
    structs = {}
    for crate in crates:
        items = F.syn(crate)
        sdef = {}
        for it in items:
            if it["k"] == "struct":
                sdef[it["name"]] = it
        for it in items:
            if it["k"] != "method" or not it["trait"]:
                continue
            tr = last_seg(it["trait"])
            if tr not in ("MechFunctionImpl", "MechFunctionFactory", "MechFunctionCompiler"):
                continue
            head = type_head(it["self"])
            key = (crate, head)
            fs = structs.get(key)
            if fs is None:
                fs = structs[key] = FxnStruct(crate, head)
                sd = sdef.get(head)
                if sd:
                    fs.fields = [(f[0], f[1]) for f in sd["fields"]]
                    fs.line = sd["line"]
                    fs.mod = sd["mod"]
                    fs.struct_generics = generic_names(sd["gen"])
                else:
                    fs.struct_generics = []
            if tr == "MechFunctionImpl":
                fs.generics = generic_names(it["igen"])
                fs.self_args = type_args(it["self"])
                if it["name"] == "solve":
                    fs.solve = it["body"]
                    fs.solve_line = it["line"]
                elif it["name"] == "out":
                    fs.out_expr = it["body"]
            elif tr == "MechFunctionFactory" and it["name"] == "new":
                fs.new = parse_new(it["body"], head)
                fs.new_self_args = type_args(it["self"])
                fs.new_generics = generic_names(it["igen"])
            elif tr == "MechFunctionCompiler" and it["name"] == "compile":
                fs.compile = parse_compile(it["body"])
                fs.compile_self_args = type_args(it["self"])
                fs.compile_generics = generic_names(it["igen"])
    return structs


def load_registry(F, crates=FXN_CRATES):
    """every FunctionDescriptor{name, ptr} -> list of dict(crate, name, ptr, struct, targs, where)"""
    out = []
    comp = []
    for crate in crates:
        for it in F.syn(crate):
            ctx = it.get("name", "")
            for n in find(it, "struct"):
                ls = last_seg(n[1])
                if ls == "FunctionDescriptor":
                    d = {f[0]: f[1] for f in n[2]}
                    nm = d.get("name")
                    ptr = d.get("ptr")
                    name = nm[1] if is_node(nm) and nm[0] == "str" else render(nm)
                    p = path_of(ptr) or render(ptr)
                    segs = split_top_path(p)
                    struct = None
                    targs = []
                    if len(segs) >= 2 and segs[-1] == "new":
                        # S::<A>::new  or S<A>::new
                        struct = segs[-3] if segs[-2].startswith("<") and len(segs) >= 3 else strip_generics(segs[-2])
                        targs = type_args("X" + segs[-2]) if segs[-2].startswith("<") else type_args(segs[-2])
                    out.append({"crate": crate, "name": name, "ptr": p, "struct": struct, "targs": targs, "in": ctx})
                elif ls == "FunctionCompilerDescriptor":
                    d = {f[0]: f[1] for f in n[2]}
                    nm = d.get("name")
                    name = nm[1] if is_node(nm) and nm[0] == "str" else render(nm)
                    comp.append({"crate": crate, "name": name, "ptr": render(d.get("ptr")), "in": ctx})
    return out, comp


def split_top_path(p):
    """split `A::<B::C>::new` at top-level `::`"""
    out, depth, cur = [], 0, []
    i = 0
    while i < len(p):
        ch = p[i]
        if ch == "<":
            depth += 1
        elif ch == ">":
            depth -= 1
        if depth == 0 and p.startswith("::", i):
            out.append("".join(cur))
            cur = []
            i += 2
            continue
        cur.append(ch)
        i += 1
    out.append("".join(cur))
    return [x for x in out if x != ""]


# ---------------- kind tables ----------------

def as_value_kind_table(F):
    """rust type -> display string of T::as_value_kind(), computed from `impl AsValueKind for T` and `Display for ValueKind`"""
    core = F.syn("mech_core.lib")
    disp = {}
    for it in core:
        if it["k"] == "method" and it["trait"] and last_seg(it["trait"]) == "Display" and type_head(it["self"]) == "ValueKind" and it["name"] == "fmt":
            for m in find(it["body"], "match"):
                for arm in m[2]:
                    pats = arm[0][1] if arm[0][0] == "por" else [arm[0]]
                    lits = [s[1] for s in find(arm[2], "str")]
                    macs = [mm for mm in find(arm[2], "macro") if last_seg(mm[1]) in ("format_args", "write")]
                    for p in pats:
                        pn = p[1] if p[0] in ("ppath", "pts", "pstruct") else None
                        if pn and pn.startswith("ValueKind::"):
                            v = pn.split("::")[-1]
                            fm = None
                            for mm in macs:
                                pf = parse_format_args(mm[2])
                                if pf:
                                    fm = pf
                            disp[v] = (fm, p)
    table = {}
    for it in core:
        if it["k"] == "method" and it["trait"] and last_seg(it["trait"]) == "AsValueKind" and it["name"] == "as_value_kind":
            # body: ValueKind::X
            vk = None
            for p in find(it["body"], "path"):
                if p[1].startswith("ValueKind::"):
                    vk = p[1].split("::")[-1]
                    break
            table[it["self"].replace(" ", "")] = vk
    return table, disp


def kind_display(vk, disp):
    d = disp.get(vk)
    if not d or not d[0]:
        return None
    fmt, args = d[0]
    if not args:
        return fmt
    return None


# ---------------- canonical types (MIR strings and syn strings -> one form) ----------------

def parse_type(s):
    """parse `a::b::C<X,Y<Z>>` into (head, [args]); tuples/refs/others are kept as opaque heads"""
    s = s.strip()
    if not s:
        return ("", [])
    if s[0] in "(&*[" or s.startswith("dyn ") or s.startswith("fn("):
        return (s, [])
    i = s.find("<")
    if i < 0 or not s.endswith(">"):
        return (s, [])
    head = s[:i].rstrip(":")
    args = split_top(s[i + 1:-1])
    return (head, [parse_type(a) for a in args])


NA_FIXED = {("2", "2"): "Matrix2", ("3", "3"): "Matrix3", ("4", "4"): "Matrix4", ("1", "1"): "Matrix1", ("2", "3"): "Matrix2x3", ("3", "2"): "Matrix3x2",
            ("1", "2"): "RowVector2", ("1", "3"): "RowVector3", ("1", "4"): "RowVector4", ("2", "1"): "Vector2", ("3", "1"): "Vector3", ("4", "1"): "Vector4"}


def canon_tree(t):
    head, args = t
    h = head.split("::")[-1] if not head.startswith(("(", "&", "*", "[", "dyn ", "fn(")) else head
    args = [canon_tree(a) for a in args]
    if h == "Matrix" and len(args) == 4 and head.startswith("nalgebra"):
        def dim(a):
            if a[0] == "Dyn":
                return "D"
            if a[0] == "Const" and a[1]:
                return a[1][0][0]
            return "?"
        r, c = dim(args[1]), dim(args[2])
        if (r, c) == ("D", "1"):
            return ("DVector", [args[0]])
        if (r, c) == ("1", "D"):
            return ("RowDVector", [args[0]])
        if (r, c) == ("D", "D"):
            return ("DMatrix", [args[0]])
        if (r, c) in NA_FIXED:
            return (NA_FIXED[(r, c)], [args[0]])
    if h == "Ref" and head.startswith("mech_core"):
        return ("Ref", args)
    return (h, args)


def tree_str(t):
    head, args = t
    if args:
        return "%s<%s>" % (head, ",".join(tree_str(a) for a in args))
    return head


def canon_type(s):
    return tree_str(canon_tree(parse_type(s)))


def canon_args(aga):
    """MIR aggregate generic args `<A,B>` -> [canonical strings]"""
    aga = aga.strip()
    if not aga:
        return []
    return [canon_type(a) for a in split_top(aga[1:-1])]
