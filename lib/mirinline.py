"""MIR-level inlining: treat `helper(args)` as the helper's body with its parameters bound to the arguments.

A rule that inspects ONE body (dominance of a guard over an effect, Err exits reachable after an effect, provenance of a value handed to a
callee) keeps working when a maintainer extracts part of that body into a private helper - or merges two copies of a block into one helper -
if it runs on `inline_body(body, cg, want)` instead of `body`: every call whose resolved callee satisfies `want(callee)` is replaced by a
renumbered copy of the callee's blocks (parameters become plain `use` copies of the argument operands, the return place becomes the call's
destination, `return` becomes a jump to the call's successor).  Nothing is inlined on a tree where no callee satisfies `want`, so a rule
ported to this view gives bit-identical results on the unrefactored shape.

The result is an ordinary lib.facts.Body (CFG, dominators, defs, Slice all work); extra attributes:
    .inlined        list of {"callee", "site_line", "entry", "blocks": set of block indices, "depth"} for every expansion
    .origin         block index -> def path of the function the block's code was written in (the root body's own blocks map to body.fn)
"""
import copy
import re

from lib.facts import Body

_IDX = re.compile(r"\[_(\d+)\]")


def _map_place(p, lm):
    """[local, projection] with the local and the index locals inside the projection renumbered"""
    return [lm(p[0]), _IDX.sub(lambda m: "[_%d]" % lm(int(m.group(1))), p[1])] + list(p[2:])


def _map_op(o, lm):
    if isinstance(o, list) and o and isinstance(o[0], int):
        return _map_place(o, lm)
    return o


def _map_stmt(s, lm):
    s = dict(s)
    s["d"] = _map_place(s["d"], lm)
    if "src" in s:
        s["src"] = [_map_op(o, lm) for o in s["src"]]
    return s


def _map_term(t, lm, bm):
    t = copy.deepcopy(t)
    for k in ("d", "on", "p", "cond"):
        if k in t and isinstance(t[k], list):
            t[k] = _map_op(t[k], lm)
    for k in ("args", "ops"):
        if k in t:
            t[k] = [_map_op(o, lm) for o in t[k]]
    if "fp" in t:
        t["fp"] = _map_op(t["fp"], lm)
    for k in ("t", "u", "else"):
        if k in t and isinstance(t[k], int):
            t[k] = bm(t[k])
    if "targets" in t:
        t["targets"] = [[v, bm(x)] for v, x in t["targets"]]
    if "succ" in t:
        t["succ"] = [bm(x) for x in t["succ"]]
    return t


def inline_body(body, cg, want, max_depth=3, _stack=None):
    """Body with every call to a callee satisfying `want(callee_def_path)` expanded in place (recursively up to max_depth levels; a function is
    never expanded inside its own expansion, so recursion terminates and the innermost recursive call stays an ordinary call)."""
    stack = (_stack or ()) + (body.fn,)
    sites = []
    for i, t in body.calls():
        cal = t.get("f") or t["tf"]
        cb = cg.bodies.get(cal)
        if cb is None or cal in stack or max_depth <= 0 or not want(cal):
            continue
        if cb.nargs != len(t["args"]):
            continue                                    # "rust-call" ABI (closures): argument tuple is spread, not modelled
        sites.append((i, t, cal, cb))
    if not sites:
        if not hasattr(body, "inlined"):
            body.inlined = []
            body.origin = {}
        return body
    blocks = [dict(b, s=list(b["s"])) for b in body.blocks]
    locals_ = list(body.locals)
    vars_ = dict(body.vars)
    origin = dict(getattr(body, "origin", {}))
    inlined = list(getattr(body, "inlined", []))
    for n, (i, t, cal, cb) in enumerate(sites):
        cb = inline_body(cb, cg, want, max_depth - 1, stack)
        loff, boff = len(locals_), len(blocks)
        dest = t["d"]
        direct = dest[1] == ""

        def lm(l, loff=loff, dest=dest, direct=direct):
            return dest[0] if (l == 0 and direct) else loff + l

        def bm(x, boff=boff):
            return boff + x
        locals_.extend(cb.locals)
        tag = cal.split("::")[-1]
        for name, v in cb.vars.items():
            vars_["%s@%s#%d.%d" % (name.split("#")[0], tag, i, len(vars_))] = [lm(v[0])] + list(v[1:])
        # the call block: bind the parameters, jump to the callee's entry
        line = t.get("l", 0)
        for k, a in enumerate(t["args"]):
            blocks[i]["s"].append({"d": [loff + 1 + k, ""], "l": line, "rk": "use", "src": [a], "inl": "param"})
        blocks[i]["t"] = {"k": "goto", "t": boff, "l": line, "inl": cal}
        mine = set()
        for j, cblk in enumerate(cb.blocks):
            nb = {"cl": cblk["cl"], "s": [_map_stmt(s, lm) for s in cblk["s"]]}
            ct = cblk["t"]
            if ct["k"] == "ret":
                if not direct:
                    nb["s"].append({"d": list(dest), "l": line, "rk": "use", "src": [[loff, ""]], "inl": "ret"})
                nb["t"] = {"k": "goto", "t": t["t"], "l": line} if "t" in t else {"k": "unreachable"}
            elif ct["k"] == "resume" and "u" in t:
                nb["t"] = {"k": "goto", "t": t["u"]}
            else:
                nb["t"] = _map_term(ct, lm, bm)
            blocks.append(nb)
            mine.add(boff + j)
            origin[boff + j] = getattr(cb, "origin", {}).get(j, cb.fn)
        for rec in getattr(cb, "inlined", []):
            inlined.append(dict(rec, entry=boff + rec["entry"], blocks={boff + x for x in rec["blocks"]}, depth=rec["depth"] + 1))
        inlined.append({"callee": cal, "site_line": line, "site_block": i, "entry": boff, "blocks": mine, "depth": 1})
    r = dict(body.r)
    r["blocks"], r["locals"], r["vars"] = blocks, locals_, vars_
    r["file"] = body.file
    out = Body(r, None)
    out.inlined = inlined
    out.origin = origin
    return out


def result_flow_exits(body):
    """Ok / Err exits by VALUE FLOW instead of by the spelling `_0 = Err(..)`: a block is an exit of the given polarity when it builds a
    `Result::Ok/Err` aggregate (or receives a `from_residual` result) in the return place or in a local that reaches the return place through
    plain whole-local moves (`let r = helper(..); r`, `return helper(..)` after expansion of the helper, a named local for the result)."""
    ret_locals = {0}
    changed = True
    while changed:
        changed = False
        for _, s in body.stmts():
            if s["d"][0] in ret_locals and s["d"][1] == "" and s.get("rk") == "use" and s["src"] and isinstance(s["src"][0], list) and s["src"][0][1] == "":
                l = s["src"][0][0]
                if l not in ret_locals and not (1 <= l <= body.nargs):
                    ret_locals.add(l)
                    changed = True
    ok, err = set(), set()
    for i, blk in enumerate(body.blocks):
        for s in blk["s"]:
            if s["d"][0] in ret_locals and s["d"][1] == "" and s.get("rk") == "agg" and s.get("adt", "").endswith("result::Result"):
                (ok if s["var"] == "Ok" else err).add(i)
        t = blk["t"]
        if t["k"] == "call" and t["d"][0] in ret_locals and t["d"][1] == "" and (t.get("f") or t["tf"]).endswith("from_residual"):
            err.add(i)
    return ok, err


def _value_aliases(body, local, through_refs=False):
    """locals that hold the value first written to `local` (a call result): whole-local moves/copies into locals written exactly once
    (`let found = table.contains(id);`), with the polarity kept for bools: `!x`, `x == false`, `x != true` flip it. -> {local: same_polarity}"""
    defs = body.defs()
    pol = {local: True}
    changed = True
    while changed:
        changed = False
        for _, s in body.stmts():
            d = s["d"]
            if d[1] != "" or d[0] in pol or len(defs.get(d[0], ())) != 1:
                continue
            rk, src = s.get("rk"), s.get("src") or []
            ops = [o for o in src if isinstance(o, list) and o and isinstance(o[0], int)]
            consts = [o for o in src if isinstance(o, dict)]
            if rk == "use" and len(ops) == 1 and ops[0][1] == "" and ops[0][0] in pol:
                pol[d[0]] = pol[ops[0][0]]
            elif through_refs and rk == "ref" and len(ops) == 1 and ops[0][1] == "" and ops[0][0] in pol:
                pol[d[0]] = pol[ops[0][0]]
            elif rk == "un" and s.get("op") == "Not" and len(ops) == 1 and ops[0][1] == "" and ops[0][0] in pol:
                pol[d[0]] = not pol[ops[0][0]]
            elif rk == "bin" and s.get("op") in ("Eq", "Ne") and len(ops) == 1 and ops[0][1] == "" and ops[0][0] in pol and len(consts) == 1 and str(consts[0].get("c")) in ("true", "false"):
                same = (str(consts[0].get("c")) == "true") == (s["op"] == "Eq")
                pol[d[0]] = pol[ops[0][0]] if same else not pol[ops[0][0]]
            else:
                continue
            changed = True
    return pol


def switches_on_bool_result(body, blk, term):
    """every switch that tests the bool returned by the call `term` (terminator of block `blk`), wherever it is - directly after the call, after the
    temporaries of the call expression were dropped, after the value was bound to a named local, negated or compared with a constant.
    -> [(switch_block, target_when_result_true, target_when_result_false)]"""
    if term["d"][1] != "" or len(body.defs().get(term["d"][0], ())) != 1:
        return []
    pol = _value_aliases(body, term["d"][0])
    out = []
    for j, bl in enumerate(body.blocks):
        t = bl["t"]
        if t["k"] != "switch" or not isinstance(t["on"], list) or t["on"][1] != "" or t["on"][0] not in pol or not body.dominates(blk, j):
            continue
        false_t = None
        for v, tgt in t["targets"]:
            if v == 0:
                false_t = tgt
        true_t = t["else"]
        if false_t is None:
            continue
        out.append((j, true_t, false_t) if pol[t["on"][0]] else (j, false_t, true_t))
    return out


def switches_on_option_result(body, blk, term):
    """every switch on the discriminant of the Option returned by the call `term` (`match x.get(..) {..}`, `if let Some(v) = ..`, `let .. else`,
    also after the Option was bound to a named local or matched by reference). -> [(switch_block, some_target, none_target)]"""
    if term["d"][1] != "" or len(body.defs().get(term["d"][0], ())) != 1:
        return []
    al = _value_aliases(body, term["d"][0], through_refs=True)
    discr = set()
    for _, s in body.stmts():
        if s.get("rk") == "discr" and s["src"] and isinstance(s["src"][0], list) and s["src"][0][0] in al and s["src"][0][1] in ("", "*") and s["d"][1] == "":
            discr.add(s["d"][0])
    out = []
    for j, bl in enumerate(body.blocks):
        t = bl["t"]
        if t["k"] != "switch" or not isinstance(t["on"], list) or t["on"][0] not in discr or not body.dominates(blk, j):
            continue
        none_t = [tg for v, tg in t["targets"] if v == 0] or [t["else"]]
        some_t = [tg for v, tg in t["targets"] if v == 1] or [t["else"]]
        out.append((j, some_t[0], none_t[0]))
    return out


NONE_PRESERVING = re.compile(r"option::Option::<T>::(map|cloned|copied|as_ref|as_mut|as_deref|as_deref_mut|inspect)$")


def switches_on_option_result_through_adaptors(body, blk, term, depth=3):
    """switches_on_option_result, also when the Option first goes through adaptors whose result is None exactly when their receiver is
    (`table.get_mutable(id).map(|c| c.borrow().clone())`, `.cloned()`, `.as_ref()`): `match opt.map(f) { Some(v) => A, None => B }` tests the same
    presence as `match opt { Some(c) => A', None => B }`. -> [(switch_block, some_target, none_target)]"""
    out = switches_on_option_result(body, blk, term)
    if out or depth <= 0 or term["d"][1] != "":
        return out
    al = set(_value_aliases(body, term["d"][0], through_refs=True))
    for i, t in body.calls():
        cal = t.get("f") or t["tf"]
        if NONE_PRESERVING.search(cal) and t["args"] and isinstance(t["args"][0], list) and t["args"][0][0] in al and t["args"][0][1] == "" and body.dominates(blk, i):
            out += switches_on_option_result_through_adaptors(body, i, t, depth - 1)
    return out


_VARIANT_INDEX = {"Ok": 0, "Err": 1, "None": 0, "Some": 1, "Continue": 0, "Break": 1}
_BRANCH_OF = {"Ok": "Continue", "Err": "Break", "Some": "Continue", "None": "Break"}
_TRACKED_ADT = re.compile(r"(result::Result|option::Option|ops::control_flow::ControlFlow)$")


def feasible_reach(body, starts, avoid=(), limit=60000):
    """Blocks reachable from `starts` (never entering `avoid`) when the variant of a Result / Option / ControlFlow value that was BUILT on the path
    is remembered: after `r = Err(e)` the `?` on r (Try::branch + switch on the discriminant) can only take its Break arm, a `match r` only its
    Err arm. This is what makes an expanded helper `fn guard(..) -> MResult<()> { if c { return Err(..) } Ok(()) }` + `guard(..)?` equivalent to
    the inline `if c { return Err(..) }`: the path through the helper's Err cannot continue into the caller's success path.
    Knowledge is only ever dropped (any other write to the local forgets it), so the result is a subset of Body.reachable_from and a superset of
    the truly feasible blocks. Falls back to plain reachability if the exploration grows beyond `limit` states."""
    avoid = set(avoid)
    seen_blocks = set()
    seen = set()
    work = [(s, frozenset()) for s in starts if s not in avoid]
    steps = 0
    while work:
        blk, st0 = work.pop()
        if (blk, st0) in seen:
            continue
        seen.add((blk, st0))
        seen_blocks.add(blk)
        steps += 1
        if steps > limit:
            return body.reachable_from(starts, avoid=avoid)
        st = dict(st0)
        bl = body.blocks[blk]
        for s in bl["s"]:
            d = s["d"]
            rk, src = s.get("rk"), s.get("src") or []
            val = None
            if d[1] == "":
                if rk == "agg" and _TRACKED_ADT.search(s.get("adt", "")) and s.get("var") in _VARIANT_INDEX:
                    val = s["var"]
                elif rk in ("use", "ref") and len(src) == 1 and isinstance(src[0], list) and src[0][1] == "" and isinstance(st.get(src[0][0]), str):
                    val = st[src[0][0]]
                elif rk == "discr" and len(src) == 1 and isinstance(src[0], list) and src[0][1] in ("", "*") and isinstance(st.get(src[0][0]), str):
                    val = _VARIANT_INDEX[st[src[0][0]]]
            if val is None:
                st.pop(d[0], None)
            else:
                st[d[0]] = val
        t = bl["t"]
        succ = body.succ(blk)
        if t["k"] == "call":
            d = t["d"]
            val = None
            cal = t.get("f") or t["tf"]
            if d[1] == "" and cal.endswith("::branch") and t["args"] and isinstance(t["args"][0], list) and t["args"][0][1] == "":
                v = st.get(t["args"][0][0])
                if isinstance(v, str) and v in _BRANCH_OF:
                    val = _BRANCH_OF[v]
            if val is None:
                st.pop(d[0], None)
            else:
                st[d[0]] = val
        elif t["k"] == "switch" and isinstance(t["on"], list) and t["on"][1] == "" and isinstance(st.get(t["on"][0]), int):
            idx = st[t["on"][0]]
            hit = [tg for v, tg in t["targets"] if v == idx]
            succ = hit[:1] if hit else [t["else"]]
        nst = frozenset(st.items())
        for x in succ:
            if x not in avoid:
                work.append((x, nst))
    return seen_blocks


def option_none_becomes_err(body, blk, term):
    """the Option returned by the call `term` is turned into a Result by `ok_or` / `ok_or_else` and that Result is propagated with `?`
    (Try::branch) or returned: `let cell = table.get_mutable(id).ok_or_else(|| not_writable(..))?` == `match table.get_mutable(id) { Some(c) => c,
    None => return Err(not_writable(..)) }`. -> True / False"""
    if term["d"][1] != "":
        return False
    al = set(_value_aliases(body, term["d"][0]))
    ret_locals = {0}
    for _, s in body.stmts():
        if s["d"][0] == 0 and s.get("rk") == "use" and s["src"] and isinstance(s["src"][0], list):
            ret_locals.add(s["src"][0][0])
    for i, t in body.calls():
        cal = t.get("f") or t["tf"]
        if re.search(r"option::Option::<T>::ok_or(_else)?$", cal) and t["args"] and isinstance(t["args"][0], list) and t["args"][0][0] in al and body.dominates(blk, i):
            res = set(_value_aliases(body, t["d"][0]))
            if res & ret_locals:
                return True
            for j, u in body.calls():
                if (u.get("f") or u["tf"]).endswith("::branch") and u["args"] and isinstance(u["args"][0], list) and u["args"][0][0] in res:
                    return True
    return False
