"""Single-assignment locals of a function body (syn AST): lets a rule see `let n = xs.len(); .. n` as `xs.len()`.
A refactoring that names a sub-expression (or inlines a named one) then does not change what a rule sees."""
from collections import defaultdict
from lib.facts import find, is_node


def local_inits(body):
    """name -> initialiser of `let name = init` where the name is bound exactly once in the function body and is not `mut`"""
    seen = defaultdict(list)
    for st in find(body, "let"):
        if len(st) >= 3 and is_node(st[1]):
            p = st[1]
            if p[0] == "ptype":
                p = p[1]
            if is_node(p) and p[0] == "pident" and st[2] is not None:
                # a `mut` local can be assigned again: its initialiser says nothing about its later value
                seen[p[1]].append(st[2] if not p[3] else None)
            else:
                for q in find(st[1], "pident"):
                    seen[q[1]].append(None)
    return {k: v[0] for k, v in seen.items() if len(v) == 1 and v[0] is not None}


def through_locals(e, inits, depth=4):
    """follow a plain local back to the expression it was initialised with (`let n = gs.len(); .. += n`)"""
    while depth > 0 and is_node(e):
        if e[0] == "paren":
            e = e[1]
        elif e[0] == "path" and e[1] in inits:
            e = inits[e[1]]
        else:
            break
        depth -= 1
    return e
