"""Concrete evaluation of value-CONVERSION code over symbolic element tokens (finite tables, nothing of mech is run).

Purpose: decide that a chain of helper functions which carries a sequence of elements from one container to another (an index value to the index
operand of a kernel, a matrix to its flattened vector, a vector to a matrix of a given shape ...) keeps every element AT ITS POSITION.  The chain is
executed on the syn JSON AST with the container filled by tokens `Tok(src, i)` ("the i-th element in storage order of input `src`"); casts and
arithmetic applied to a token are recorded on it, so the result shows for every output position which input position it came from and what was done
to it.  Control flow is decided concretely (shapes are concrete integers from a small table), so a guard clause, a nested if, an if-let chain, a match
with merged or split arms, an iterator pipeline, an explicit loop and a private helper all evaluate to the same result when they compute the same thing.

Values
  int / bool / str / tuple / list (Vec, slice, array: by reference, `.clone()` copies) / range
  Tok      one symbolic element                               Store    a nalgebra storage (form, rows, cols, column-major data)
  En       an enum value `Type::Variant(payload..)` (also Ok / Err / Some / None)      StructV  a struct literal
  Ast      the payload of a syntax node (whatever evaluates it is the `hook`)          Opaque   something the evaluation does not need to know
  It       an iterator (eager list of items)                  Closure

`NoEval` = the code uses something this evaluator does not model (the caller records `undecided`, never a violation); `Panic` = the evaluated code
panics for this input (an error, not a wrong element).
"""
import re
from lib.facts import is_node, strip_generics


class NoEval(Exception):
    pass


class Panic(Exception):
    pass


class Done(Exception):
    """raised by the `stop` callback: the evaluation reached the point the caller is interested in"""
    def __init__(self, value):
        self.value = value


class _Return(Exception):
    def __init__(self, value):
        self.value = value


class _Break(Exception):
    def __init__(self, value=None):
        self.value = value


class _Continue(Exception):
    pass


INT_KINDS = ("u8", "u16", "u32", "u64", "u128", "usize", "i8", "i16", "i32", "i64", "i128", "isize")
NUM_KINDS = INT_KINDS + ("f32", "f64")


class Tok:
    """`val`: an optional concrete truth value of a bool element (lets `filter(|b| *b).count()` style size computations run; the token keeps its identity)"""
    __slots__ = ("src", "pos", "kind", "ops", "val")

    def __init__(self, src, pos, kind, ops=(), val=None):
        self.src, self.pos, self.kind, self.ops, self.val = src, pos, kind, ops, val

    def with_op(self, op, kind=None):
        val = self.val
        if op == ("!",) and isinstance(val, bool):
            val = not val
        elif op[0] != "as":
            val = None
        return Tok(self.src, self.pos, kind or self.kind, self.ops + (op,), val)

    def key(self):
        return (self.src, self.pos, self.kind, self.ops)

    def __repr__(self):
        s = "%s[%d]" % (self.src, self.pos)
        for op in self.ops:
            s = "(%s %s)" % (s, " ".join(map(str, op)))
        return s


class Store:
    """nalgebra storage: data in column-major order"""
    __slots__ = ("form", "rows", "cols", "data")

    def __init__(self, form, rows, cols, data):
        self.form, self.rows, self.cols, self.data = form, rows, cols, list(data)

    def copy(self):
        return Store(self.form, self.rows, self.cols, self.data)

    def __repr__(self):
        return "%s(%dx%d %r)" % (self.form, self.rows, self.cols, self.data)


class En:
    __slots__ = ("path", "args")

    def __init__(self, path, args=()):
        self.path, self.args = path, list(args)

    def __repr__(self):
        return "%s(%s)" % (self.path, ", ".join(map(repr, self.args))) if self.args else self.path


class StructV:
    __slots__ = ("name", "fields")

    def __init__(self, name, fields):
        self.name, self.fields = name, fields

    def __repr__(self):
        return "%s{%s}" % (self.name, ", ".join("%s: %r" % kv for kv in self.fields.items()))


class Opaque:
    __slots__ = ("tag",)

    def __init__(self, tag="?"):
        self.tag = tag

    def __repr__(self):
        return "<%s>" % self.tag


class Ast:
    __slots__ = ("slot",)

    def __init__(self, slot):
        self.slot = slot

    def __repr__(self):
        return "<ast %s>" % (self.slot,)


class SliceCopy(list):
    """the elements of `v[a..b]`: reading is exact, writing THROUGH it is not modelled (the evaluator holds a copy) and gives NoEval"""


class ElemRef:
    """`&mut seq[i]` as produced by iter_mut / get_mut / last_mut / `for x in &mut v`: reading the variable gives the element, `*x = ..` writes it"""
    __slots__ = ("seq", "i")

    def __init__(self, seq, i):
        self.seq, self.i = seq, i

    def get(self):
        return self.seq[self.i]


class It:
    __slots__ = ("items",)

    def __init__(self, items):
        self.items = list(items)


class Closure:
    __slots__ = ("params", "body", "scope", "selfty")

    def __init__(self, params, body, scope, selfty):
        self.params, self.body, self.scope, self.selfty = params, body, scope, selfty


NONE = En("None")
UNIT = ()

# nalgebra storage forms: name -> (rows, cols); None = dynamic.  Fixed vocabulary of an external crate.
def storage_form(name):
    """('DMatrix' | 'Matrix2x3' | 'RowVector3' | 'Vector4' ...) -> (rows|None, cols|None) or None when `name` is not a nalgebra storage type"""
    if name == "DMatrix":
        return (None, None)
    if name == "DVector":
        return (None, 1)
    if name == "RowDVector":
        return (1, None)
    m = re.match(r"^RowVector(\d)$", name)
    if m:
        return (1, int(m.group(1)))
    m = re.match(r"^Vector(\d)$", name)
    if m:
        return (int(m.group(1)), 1)
    m = re.match(r"^Matrix(\d)x(\d)$", name)
    if m:
        return (int(m.group(1)), int(m.group(2)))
    m = re.match(r"^Matrix(\d)$", name)
    if m:
        return (int(m.group(1)), int(m.group(1)))
    return None


TRANSPARENT = {"borrow", "borrow_mut", "as_ref", "as_mut", "deref", "deref_mut", "to_owned", "into", "as_ptr", "as_mut_ptr", "by_ref", "into_boxed_slice", "as_deref"}
PANICS = ("panicking::panic", "panicking::panic_fmt", "panicking::unreachable_display", "panicking::panic_display", "panicking::assert_failed", "panicking::panic_explicit",
          "panicking::begin_panic", "rt::begin_panic", "rt::panic_fmt", "panicking::panic_nounwind")


def norm_path(p):
    p = strip_generics(p).replace(" ", "")
    p = re.sub(r"::+", "::", p)
    return p.strip(":")


def type_head(t):
    """'&mut Vec<usize>' -> 'Vec' ; 'Matrix<T>' -> 'Matrix'"""
    t = re.sub(r"^(&\s*)?('\w+\s+)?(mut\s+)?", "", (t or "").strip())
    return norm_path(t).split("::")[-1]


class Index:
    """functions, methods and enums of the given crates, by name"""

    def __init__(self, F, crates):
        self.fns, self.methods, self.enums, self.variant_of, self.consts = {}, {}, {}, {}, {}
        for ci, crate in enumerate(crates):
            for it in F.syn(crate):
                k = it["k"]
                if k == "fn" and it.get("body") is not None:
                    self.fns.setdefault(it["name"], []).append((ci, it))
                elif k == "method" and it.get("body") is not None:
                    self.methods.setdefault(it["name"], []).append((ci, it))
                elif k in ("const", "iconst", "static") and it.get("val") is not None and it.get("name") not in (None, "_"):
                    self.consts.setdefault(it["name"], []).append(it)
                elif k == "enum":
                    self.enums.setdefault(it["name"], it)
                    for v in it["variants"]:
                        self.variant_of.setdefault(v["name"], set()).add(it["name"])

    def is_variant(self, enum, var):
        e = self.enums.get(enum)
        return bool(e) and any(v["name"] == var for v in e["variants"])


class SeqEval:
    """hook(ev, kind, name, recv, args) -> value or None: consulted for every call / method call that has an `Ast` among its receiver and arguments.
    stop(ev, recv, name, args) -> bool: consulted for every method call on a struct literal value; True ends the evaluation with Done((recv, name, args))."""
    MAX_DEPTH = 24

    def __init__(self, index, hook=None, stop=None, fuel=400000):
        self.ix = index
        self.hook, self.stop = hook, stop
        self.fuel = fuel
        self.frames = []          # names of the crate functions currently being evaluated
        self.entered = []         # (qualified name) of every crate function entered, in order
        self.on_return = None     # callback(qualified name, value, [self value] + arguments)

    # ------------------------------------------------------------ scopes
    def lookup(self, scope, name):
        s = scope
        while s is not None:
            if name in s[0]:
                return s[0][name]
            s = s[1]
        raise KeyError(name)

    def assign_name(self, scope, name, v):
        s = scope
        while s is not None:
            if name in s[0]:
                s[0][name] = v
                return
            s = s[1]
        raise NoEval("assignment to unknown name")

    # ------------------------------------------------------------ calling crate code
    def call_item(self, it, args, self_val=None):
        if len(self.frames) >= self.MAX_DEPTH:
            raise NoEval("call depth")
        scope = ({}, None)
        params = [p for p in it["sig"]["inputs"] if not (p and p[0] == "self")]
        has_self = any(p and p[0] == "self" for p in it["sig"]["inputs"])
        if has_self:
            scope[0]["self"] = self_val
        if len(params) != len(args):
            raise NoEval("arity of %s" % it["name"])
        for p, a in zip(params, args):
            if not self.pmatch(p[0], a, scope[0]):
                raise NoEval("parameter pattern")
        qn = ("%s::%s" % (type_head(it["self"]), it["name"])) if it.get("self") else it["name"]
        self.frames.append((qn, it.get("self")))
        self.entered.append(qn)
        try:
            try:
                v = self.block(it["body"], scope)
            except _Return as r:
                v = r.value
        finally:
            self.frames.pop()
        if self.on_return:
            self.on_return(qn, v, ([self_val] if has_self else []) + list(args))
        return v

    def self_type(self):
        return self.frames[-1][1] if self.frames else None

    def pick(self, cands, what):
        if not cands:
            return None
        first = cands[0][1]
        # the same item compiled into several crates / cfg twins with one body are one candidate
        pref = min(c[0] for c in cands)
        cands = [c for c in cands if c[0] == pref]
        if any(c[1]["body"] != cands[0][1]["body"] for c in cands[1:]):
            raise NoEval("ambiguous %s" % what)
        return cands[0][1]

    def find_fn(self, name):
        return self.pick(self.ix.fns.get(name, []), "function " + name)

    def value_type(self, v):
        """(type head, full type text or None) of a value, for method lookup"""
        if isinstance(v, En):
            if "::" in v.path:
                return v.path.split("::")[0], None
            return {"Ok": "Result", "Err": "Result", "Some": "Option", "None": "Option"}.get(v.path), None
        if isinstance(v, list):
            kinds = {x.kind for x in v if isinstance(x, Tok)}
            return "Vec", ("Vec<%s>" % kinds.pop()) if len(kinds) == 1 and all(isinstance(x, Tok) for x in v) else None
        if isinstance(v, Tok):
            return v.kind, v.kind
        if isinstance(v, bool):
            return "bool", "bool"
        if isinstance(v, int):
            return "usize", "usize"
        if isinstance(v, StructV):
            return v.name, None
        return None, None

    def find_method(self, head, full, name):
        cands = [c for c in self.ix.methods.get(name, []) if type_head(c[1].get("self")) == head]
        if full is not None:
            exact = [c for c in cands if norm_path_keep(c[1].get("self")) == full]
            generic = [c for c in cands if re.search(r"<[A-Z]\w*>$", (c[1].get("self") or "").replace(" ", ""))]
            cands = exact or generic or ([] if any("<" in (c[1].get("self") or "") for c in cands) else cands)
        return self.pick(cands, "method %s::%s" % (head, name))

    # ------------------------------------------------------------ patterns
    def pmatch(self, pat, v, binds):
        t = pat[0]
        if t == "pwild":
            return True
        if t == "ptype":
            return self.pmatch(pat[1], v, binds)
        if t == "pref":
            return self.pmatch(pat[2], v, binds)
        if t == "pident":
            nm = pat[1]
            if nm == "None":
                return isinstance(v, En) and v.path == "None"
            if nm[:1].isupper() and not pat[2] and not pat[3]:
                if isinstance(v, En) and v.path.split("::")[-1] == nm and not v.args:
                    return True
                raise NoEval("constant pattern " + nm)
            if pat[4] is not None and not self.pmatch(pat[4], v, binds):
                return False
            binds[nm] = v
            return True
        if t == "plit":
            lit = pat[1]
            if isinstance(v, (Tok, Opaque, Ast)):
                raise NoEval("literal pattern on a symbolic value")
            if lit[0] == "int":
                return isinstance(v, int) and not isinstance(v, bool) and v == int(lit[1])
            if lit[0] == "bool":
                return isinstance(v, bool) and v == bool(lit[1])
            if lit[0] == "str":
                return v == lit[1]
            if lit[0] == "un" and lit[1] == "-" and lit[2][0] == "int":
                return isinstance(v, int) and v == -int(lit[2][1])
            raise NoEval("literal pattern")
        if t == "prange":
            if isinstance(v, (Tok, Opaque, Ast)):
                raise NoEval("range pattern on a symbolic value")
            m = re.match(r"^(\d+)?(\.\.=?)(\d+)?$", pat[1].replace(" ", ""))
            if not m or not isinstance(v, int):
                raise NoEval("range pattern")
            lo = int(m.group(1)) if m.group(1) else None
            hi = int(m.group(3)) if m.group(3) else None
            if lo is not None and v < lo:
                return False
            if hi is not None and (v > hi if m.group(2) == "..=" else v >= hi):
                return False
            return True
        if t == "ptuple":
            if isinstance(v, (Opaque, Ast)):
                raise NoEval("tuple pattern on an opaque value")
            if not isinstance(v, tuple) or len(v) != len(pat[1]):
                raise NoEval("tuple pattern")
            return all(self.pmatch(p, x, binds) for p, x in zip(pat[1], v))
        if t == "pslice":
            if isinstance(v, Store):
                v = v.data
            if not isinstance(v, list):
                raise NoEval("slice pattern on a non-sequence")
            ps = pat[1]
            rest = [i for i, p in enumerate(ps) if p[0] == "prest" or (p[0] == "pident" and is_node(p[4]) and p[4][0] == "prest")]
            if not rest:
                return len(v) == len(ps) and all(self.pmatch(p, x, binds) for p, x in zip(ps, v))
            r = rest[0]
            after = len(ps) - r - 1
            if len(v) < r + after:
                return False
            if not all(self.pmatch(p, x, binds) for p, x in zip(ps[:r], v[:r])):
                return False
            if after and not all(self.pmatch(p, x, binds) for p, x in zip(ps[r + 1:], v[len(v) - after:])):
                return False
            if ps[r][0] == "pident":
                binds[ps[r][1]] = v[r:len(v) - after]
            return True
        if t in ("pts", "ppath"):
            if isinstance(v, (Opaque, Ast)):
                raise NoEval("variant pattern on an opaque value")
            path = self.variant_path(pat[1])
            subs = pat[2] if t == "pts" else []
            if not isinstance(v, En):
                raise NoEval("variant pattern on a non-enum value")
            if not same_variant(path, v.path):
                return False
            if len(subs) == 1 and subs[0][0] == "prest":
                return True
            if len(subs) != len(v.args):
                raise NoEval("variant arity")
            return all(self.pmatch(p, x, binds) for p, x in zip(subs, v.args))
        if t == "pstruct":
            if not isinstance(v, StructV):
                raise NoEval("struct pattern")
            if norm_path(pat[1]).split("::")[-1] != v.name:
                return False
            return all(f[0] in v.fields and self.pmatch(f[1], v.fields[f[0]], binds) for f in pat[2])
        if t == "por":
            for p in pat[1]:
                b = {}
                if self.pmatch(p, v, b):
                    binds.update(b)
                    return True
            return False
        raise NoEval("pattern " + t)

    def variant_path(self, p):
        p = norm_path(p)
        segs = p.split("::")
        if segs[0] == "Self" and self.self_type():
            segs[0] = type_head(self.self_type())
        if len(segs) >= 2:
            return "::".join(segs[-2:])
        return segs[-1]

    # ------------------------------------------------------------ statements
    def block(self, stmts, scope, new_scope=True):
        if new_scope:
            scope = ({}, scope)
        last = UNIT
        for st in stmts:
            self.tick()
            k = st[0]
            if k == "let":
                if st[2] is None:
                    for b in _binders(st[1]):
                        scope[0][b] = Opaque("uninit")
                    last = UNIT
                    continue
                v = self.E(st[2], scope)
                b = {}
                if not self.pmatch(st[1], v, b):
                    if len(st) > 3 and st[3] is not None:
                        self.E(st[3], scope)
                        raise NoEval("let-else falls through")
                    raise NoEval("refutable let")
                scope[0].update(b)
                last = UNIT
            elif k == "expr":
                v = self.E(st[1], scope)
                last = UNIT if (len(st) > 2 and st[2]) else v
            elif k == "item":
                last = UNIT
            else:
                raise NoEval("statement " + str(k))
        return last

    def tick(self):
        self.fuel -= 1
        if self.fuel < 0:
            raise NoEval("fuel")

    # ------------------------------------------------------------ expressions
    def E(self, e, scope):
        self.tick()
        if not is_node(e):
            raise NoEval("not a node")
        f = getattr(self, "x_" + e[0], None)
        if f is None:
            raise NoEval("expression " + str(e[0]))
        return f(e, scope)

    def x_path(self, e, scope):
        p = e[1]
        if "::" not in p:
            try:
                v = self.lookup(scope, p)
                return v.get() if isinstance(v, ElemRef) else v
            except KeyError:
                pass
            if p == "None":
                return NONE
            if p in self.ix.fns:
                return ("fnref", p)
            c = self.const_value(p)
            if c is not None:
                return c
            if p[:1].isupper():
                return StructV(p, {})
            raise NoEval("name " + p)
        vp = self.variant_path(p)
        en, var = vp.split("::")[0], vp.split("::")[-1]
        if self.ix.is_variant(en, var):
            return En(vp)
        if vp.endswith("::MAX") or vp.endswith("::MIN"):
            raise NoEval("constant " + vp)
        if var.isupper():
            c = self.const_value(var)
            if c is not None:
                return c
        return ("fnref", p)

    def const_value(self, name):
        """a `const NAME: T = <expr>` of the crates (one definition, or several with the same value expression), evaluated in an empty scope"""
        cands = self.ix.consts.get(name, [])
        if not cands or any(c["val"] != cands[0]["val"] for c in cands[1:]):
            return None
        return self.E(cands[0]["val"], ({}, None))

    def x_int(self, e, scope):
        return int(re.sub(r"[^0-9].*$", "", str(e[1])) or 0)

    def x_bool(self, e, scope):
        return bool(e[1])

    def x_str(self, e, scope):
        return e[1]

    def x_char(self, e, scope):
        return e[1]

    def x_lit(self, e, scope):
        try:
            return float(re.sub(r"(f32|f64)$", "", str(e[1]).replace("_", "")))
        except ValueError:
            raise NoEval("literal")

    def x_macro(self, e, scope):
        # only met in raw (unexpanded) sources: rustc's expansion has no macro calls left except format_args!
        if norm_path(str(e[1])).split("::")[-1] in ("panic", "todo", "unreachable", "unimplemented"):
            raise Panic("explicit panic")
        return Opaque("macro")

    def x_ref(self, e, scope):
        return self.E(e[2], scope)

    def x_rawaddr(self, e, scope):
        return self.E(e[2], scope)

    def x_cast(self, e, scope):
        v = self.E(e[1], scope)
        ty = str(e[2]).replace(" ", "")
        if isinstance(v, Tok):
            if ty == v.kind:
                return v
            return v.with_op(("as", ty), ty)
        if isinstance(v, bool):
            return int(v)
        if isinstance(v, float) and ty in INT_KINDS:
            return int(v)
        if isinstance(v, int) and ty in ("f32", "f64"):
            return float(v)
        if isinstance(v, (int, float)):
            return v
        if ty.startswith("*") or ty.startswith("&") or ty not in NUM_KINDS + ("bool", "char"):
            return v          # pointer / unsizing casts (`x as Box<dyn Trait>`) do not change the value
        raise NoEval("cast")

    def x_try(self, e, scope):
        v = self.E(e[1], scope)
        if isinstance(v, En):
            if v.path in ("Ok", "Some"):
                return v.args[0]
            if v.path in ("Err", "None"):
                raise _Return(v)
        if isinstance(v, Opaque):
            return v
        raise NoEval("`?` on a value that is not a Result / Option")

    def x_un(self, e, scope):
        v = self.E(e[2], scope)
        op = e[1]
        if isinstance(v, ElemRef):
            v = v.get()
        if op == "*":
            return v
        if isinstance(v, Tok):
            return v.with_op((op,))
        if isinstance(v, Opaque):
            return v
        if op == "!":
            return (not v) if isinstance(v, bool) else ~v
        if op == "-":
            return -v
        raise NoEval("unary " + op)

    def x_tuple(self, e, scope):
        return tuple(self.E(x, scope) for x in e[1])

    def x_array(self, e, scope):
        return [self.E(x, scope) for x in e[1]]

    def x_repeat(self, e, scope):
        v, n = self.E(e[1], scope), self.E(e[2], scope)
        if not isinstance(n, int):
            raise NoEval("repeat length")
        return [v] * n

    def x_range(self, e, scope):
        lo = self.E(e[1], scope) if e[1] is not None else None
        hi = self.E(e[2], scope) if e[2] is not None else None
        for b in (lo, hi):
            if b is not None and (isinstance(b, bool) or not isinstance(b, int)):
                raise NoEval("range bound")
        return ("range", lo, (hi + 1) if (e[3] and hi is not None) else hi)

    def x_struct(self, e, scope):
        name = norm_path(e[1]).split("::")[-1]
        if name == "Self" and self.self_type():
            name = type_head(self.self_type())
        fields = {}
        for f in e[2]:
            try:
                fields[f[0]] = self.E(f[1], scope)
            except NoEval:
                fields[f[0]] = Opaque("field")
        return StructV(name, fields)

    def x_closure(self, e, scope):
        return Closure(e[1], e[2], scope, self.frames[-1] if self.frames else None)

    def apply(self, cl, args):
        if isinstance(cl, Closure):
            if len(cl.params) != len(args):
                if len(cl.params) == 1 and len(args) > 1:
                    args = [tuple(args)]
                else:
                    raise NoEval("closure arity")
            sc = ({}, cl.scope)
            for p, a in zip(cl.params, args):
                if not self.pmatch(p, a, sc[0]):
                    raise NoEval("closure parameter pattern")
            try:
                return self.E(cl.body, sc)
            except _Return as r:
                return r.value
        if isinstance(cl, tuple) and cl and cl[0] == "fnref":
            return self.call_path(cl[1], args, None, None)
        if isinstance(cl, tuple) and cl and cl[0] == "ctor":
            return En(cl[1], args)
        raise NoEval("call of a non-function value")

    def x_block(self, e, scope):
        return self.block(e[1], scope)

    x_unsafe = x_block

    def x_ret(self, e, scope):
        raise _Return(self.E(e[1], scope) if e[1] is not None else UNIT)

    def x_break(self, e, scope):
        raise _Break(self.E(e[1], scope) if e[1] is not None else None)

    def x_continue(self, e, scope):
        raise _Continue()

    def cond(self, c, scope, binds):
        """evaluate a condition, `let` conditions bind into `binds`"""
        if is_node(c) and c[0] == "letc":
            v = self.E(c[2], scope)
            return self.pmatch(c[1], v, binds)
        if is_node(c) and c[0] == "bin" and c[1] == "&&":
            if not self.cond(c[2], scope, binds):
                return False
            return self.cond(c[3], (binds, scope), binds)
        v = self.E(c, scope)
        if isinstance(v, bool):
            return v
        if isinstance(v, Tok) and isinstance(v.val, bool):
            return v.val
        raise NoEval("condition on a symbolic value")

    def x_if(self, e, scope):
        b = {}
        if self.cond(e[1], scope, b):
            return self.block(e[2], (b, scope))
        if e[3] is not None:
            return self.E(e[3], scope)
        return UNIT

    def x_letc(self, e, scope):
        return self.cond(e, scope, {})

    def x_match(self, e, scope):
        v = self.E(e[1], scope)
        if isinstance(v, Opaque):
            raise NoEval("match on an opaque value")
        for arm in e[2]:
            b = {}
            if not self.pmatch(arm[0], v, b):
                continue
            sc = (b, scope)
            if arm[1] is not None:
                g = self.cond(arm[1], sc, b)
                if not g:
                    continue
            return self.E(arm[2], sc)
        raise Panic("no arm matches")

    def iterate(self, v):
        if isinstance(v, It):
            return v.items
        if isinstance(v, list):
            return list(v)
        if isinstance(v, Store):
            return list(v.data)
        if isinstance(v, tuple) and v and v[0] == "range":
            if v[1] is None or v[2] is None:
                raise NoEval("unbounded range")
            if v[2] - v[1] > 4096:
                raise NoEval("long range")
            return list(range(v[1], v[2]))
        if isinstance(v, En) and v.path in ("Some", "None", "Ok", "Err"):
            return list(v.args) if v.path in ("Some", "Ok") else []
        raise NoEval("iteration over an unknown value")

    def x_for(self, e, scope):
        src = self.E(e[2], scope)
        if is_node(e[2]) and e[2][0] == "ref" and e[2][1] and isinstance(src, (list, Store)) and not isinstance(src, SliceCopy):
            seq = src.data if isinstance(src, Store) else src
            items = [ElemRef(seq, i) for i in range(len(seq))]
        else:
            items = self.iterate(src)
        for x in items:
            self.tick()
            b = {}
            if not self.pmatch(e[1], x, b):
                raise NoEval("for pattern")
            try:
                self.block(e[3], (b, scope))
            except _Continue:
                continue
            except _Break:
                break
        return UNIT

    def x_while(self, e, scope):
        while True:
            self.tick()
            b = {}
            if not self.cond(e[1], scope, b):
                break
            try:
                self.block(e[2], (b, scope))
            except _Continue:
                continue
            except _Break:
                break
        return UNIT

    def x_loop(self, e, scope):
        while True:
            self.tick()
            try:
                self.block(e[1], scope)
            except _Continue:
                continue
            except _Break as b:
                return b.value if b.value is not None else UNIT

    def x_bin(self, e, scope):
        op = e[1]
        if op == "&&":
            a = self.E(e[2], scope)
            if a is False:
                return False
            b = self.E(e[3], scope)
            if isinstance(a, bool) and isinstance(b, bool):
                return a and b
            raise NoEval("&& on symbolic values")
        if op == "||":
            a = self.E(e[2], scope)
            if a is True:
                return True
            b = self.E(e[3], scope)
            if isinstance(a, bool) and isinstance(b, bool):
                return a or b
            raise NoEval("|| on symbolic values")
        if op.endswith("=") and op not in ("==", "!=", "<=", ">="):
            cur = self.E(e[2], scope)
            val = self.arith(op[:-1], cur, self.E(e[3], scope))
            self.store(e[2], val, scope)
            return UNIT
        return self.arith(op, self.E(e[2], scope), self.E(e[3], scope))

    def arith(self, op, a, b):
        if isinstance(a, Tok) or isinstance(b, Tok):
            if op in ("==", "!="):
                ca = a.val if isinstance(a, Tok) else a
                cb = b.val if isinstance(b, Tok) else b
                if isinstance(ca, bool) and isinstance(cb, bool):
                    return (ca == cb) if op == "==" else (ca != cb)
            if op in ("==", "!=", "<", ">", "<=", ">="):
                raise NoEval("comparison of a symbolic element")
            if isinstance(a, Tok):
                return a.with_op((op, b if not isinstance(b, Tok) else repr(b)))
            return b.with_op(("r" + op, a))
        if isinstance(a, Opaque) or isinstance(b, Opaque):
            raise NoEval("arithmetic on an opaque value")
        try:
            if op == "==":
                return self.equal(a, b)
            if op == "!=":
                return not self.equal(a, b)
            if isinstance(a, bool) or isinstance(b, bool):
                if op in ("&", "|", "^") and isinstance(a, bool) and isinstance(b, bool):
                    return {"&": a and b, "|": a or b, "^": a != b}[op]
                raise NoEval("bool arithmetic")
            if op == "-":
                if isinstance(a, int) and isinstance(b, int) and a - b < 0:
                    raise Panic("usize underflow %d - %d" % (a, b))
                return a - b
            if op in ("/", "%") and b == 0:
                raise Panic("division by zero")
            if op == "/":
                return a // b if isinstance(a, int) and isinstance(b, int) else a / b
            return {"<": lambda: a < b, ">": lambda: a > b, "<=": lambda: a <= b, ">=": lambda: a >= b, "+": lambda: a + b, "*": lambda: a * b, "%": lambda: a % b,
                    "&": lambda: a & b, "|": lambda: a | b, "^": lambda: a ^ b, "<<": lambda: a << b, ">>": lambda: a >> b}[op]()
        except (KeyError, TypeError):
            raise NoEval("operator " + op)

    def equal(self, a, b):
        if isinstance(a, (Tok, Opaque, Ast)) or isinstance(b, (Tok, Opaque, Ast)):
            raise NoEval("comparison of a symbolic value")
        if isinstance(a, (list, tuple)) and isinstance(b, (list, tuple)):
            return len(a) == len(b) and all(self.equal(x, y) for x, y in zip(a, b))
        if isinstance(a, (int, float, str, bool)) and isinstance(b, (int, float, str, bool)):
            return a == b
        raise NoEval("comparison")

    def x_assign(self, e, scope):
        self.store(e[1], self.E(e[2], scope), scope)
        return UNIT

    def store(self, lhs, val, scope):
        derefs = 0
        while is_node(lhs) and lhs[0] == "un" and lhs[1] == "*":
            lhs = lhs[2]
            derefs += 1
        if lhs[0] == "path" and "::" not in lhs[1]:
            try:
                cur = self.lookup(scope, lhs[1])
            except KeyError:
                raise NoEval("assignment to unknown name")
            if isinstance(cur, ElemRef):
                cur.seq[cur.i] = val
                return
            if derefs:
                # `*r = v` through a reference held in a local / parameter: in place for containers, otherwise not tracked
                if isinstance(cur, list) and isinstance(val, list) and not isinstance(cur, SliceCopy):
                    cur[:] = val
                    return
                if isinstance(cur, Store) and isinstance(val, Store):
                    cur.form, cur.rows, cur.cols, cur.data = val.form, val.rows, val.cols, list(val.data)
                    return
                raise NoEval("write through a reference the evaluator does not track")
            self.assign_name(scope, lhs[1], val)
            return
        if lhs[0] == "index":
            base, i = self.E(lhs[1], scope), self.E(lhs[2], scope)
            if isinstance(base, SliceCopy):
                raise NoEval("assignment through a sub-slice")
            if isinstance(base, list) and isinstance(i, int) and not isinstance(i, bool):
                if not (0 <= i < len(base)):
                    raise Panic("index %d out of %d" % (i, len(base)))
                base[i] = val
                return
            if isinstance(base, Store):
                base.data[self.store_pos(base, i)] = val
                return
        if lhs[0] == "field":
            base = self.E(lhs[1], scope)
            if isinstance(base, StructV):
                base.fields[str(lhs[2])] = val
                return
        if lhs[0] == "tuple" and isinstance(val, tuple) and len(val) == len(lhs[1]):
            for l, v in zip(lhs[1], val):
                self.store(l, v, scope)
            return
        raise NoEval("assignment target")

    def store_pos(self, st, i):
        if isinstance(i, tuple) and len(i) == 2 and all(isinstance(x, int) and not isinstance(x, bool) for x in i):
            if not (0 <= i[0] < st.rows and 0 <= i[1] < st.cols):
                raise Panic("matrix index (%d,%d) out of %dx%d" % (i[0], i[1], st.rows, st.cols))
            return i[1] * st.rows + i[0]
        if isinstance(i, int) and not isinstance(i, bool):
            if not (0 <= i < len(st.data)):
                raise Panic("matrix index %d out of %d" % (i, len(st.data)))
            return i
        raise NoEval("matrix index")

    def x_index(self, e, scope):
        base, i = self.E(e[1], scope), self.E(e[2], scope)
        if isinstance(base, Opaque):
            return base
        if isinstance(base, Store):
            return base.data[self.store_pos(base, i)]
        if isinstance(base, (list, tuple)) and not (isinstance(base, tuple) and base and base[0] == "range"):
            seq = base
            if isinstance(i, tuple) and i and i[0] == "range":
                lo = 0 if i[1] is None else i[1]
                hi = len(seq) if i[2] is None else i[2]
                if not (0 <= lo <= hi <= len(seq)):
                    raise Panic("slice %d..%d out of %d" % (lo, hi, len(seq)))
                return SliceCopy(seq[lo:hi])
            if isinstance(i, int) and not isinstance(i, bool):
                if not (0 <= i < len(seq)):
                    raise Panic("index %d out of %d" % (i, len(seq)))
                return seq[i]
        raise NoEval("index expression")

    def x_field(self, e, scope):
        base = self.E(e[1], scope)
        f = str(e[2])
        if isinstance(base, Opaque):
            return base
        if f.isdigit():
            if isinstance(base, tuple):
                return base[int(f)]
            if isinstance(base, En) and int(f) < len(base.args):
                return base.args[int(f)]
            raise NoEval("tuple field")
        if isinstance(base, StructV) and f in base.fields:
            return base.fields[f]
        if isinstance(base, Store) and f == "data":
            return base
        raise NoEval("field " + f)

    # ------------------------------------------------------------ calls
    def x_call(self, e, scope):
        fe = e[1]
        if is_node(fe) and fe[0] == "path":
            p = fe[1]
            np_ = norm_path(p)
            last = np_.split("::")[-1]
            if "::" not in p:
                try:
                    cl = self.lookup(scope, p)
                    return self.apply(cl, [self.E(a, scope) for a in e[2]])
                except KeyError:
                    pass
            if last == "Err" and len(e[2]) == 1:
                return En("Err", [Opaque("error")])          # the error value itself is irrelevant (and may use anything)
            if any(np_.endswith(x) for x in PANICS):
                raise Panic("explicit panic")
            return self.call_path(p, [self.E(a, scope) for a in e[2]], e, scope)
        cl = self.E(fe, scope)
        return self.apply(cl, [self.E(a, scope) for a in e[2]])

    def call_path(self, p, args, e, scope):
        np_ = norm_path(p)
        segs = np_.split("::")
        last = segs[-1]
        if last in ("Ok", "Some") and len(segs) <= 3 and len(args) == 1:
            return En(last, args)
        # vec![a, b, c]
        if last in ("box_assume_init_into_vec_unsafe", "into_vec", "box_new", "write_box_via_move"):
            return args[-1]
        if last == "new_uninit":
            return Opaque("uninit")
        if last == "from_elem" and len(args) == 2 and isinstance(args[1], int):
            return [args[0]] * args[1]
        if len(segs) >= 2:
            ty = segs[-2]
            if ty == "Self" and self.self_type():
                ty = type_head(self.self_type())
            # enum constructors
            if self.ix.is_variant(ty, last):
                return En("%s::%s" % (ty, last), args)
            if ty in ("Ref", "Box", "Rc", "RefCell", "Arc", "Cell") and last in ("new", "from") and len(args) == 1:
                return args[0]
            if ty in ("Vec", "VecDeque") and last in ("new", "with_capacity"):
                return []
            if ty == "Vec" and last in ("from", "from_iter") and len(args) == 1:
                return list(self.iterate(args[0]))
            if ty in ("mem",) and last == "swap":
                raise NoEval("mem::swap")
            sf = storage_form(ty)
            if sf is not None:
                return self.store_ctor(ty, sf, last, args)
            if ty in ("Some", "Ok") and False:
                pass
            if any(isinstance(a, Ast) for a in args) and self.hook:
                r = self.hook(self, "call", np_, None, args)
                if r is not None:
                    return r
            # Type::method(..)  (inherent / trait static call, or UFCS with the receiver first)
            for recv_first in (False, True):
                cands = [c for c in self.ix.methods.get(last, []) if type_head(c[1].get("self")) == ty or (ty in NUM_KINDS + ("bool",) and (c[1].get("self") or "") == ty)]
                if recv_first:
                    cands = [c for c in cands if any(p_ and p_[0] == "self" for p_ in c[1]["sig"]["inputs"])]
                else:
                    cands = [c for c in cands if not any(p_ and p_[0] == "self" for p_ in c[1]["sig"]["inputs"])]
                it = self.pick(cands, "method %s::%s" % (ty, last)) if cands else None
                if it is not None:
                    if recv_first:
                        if not args:
                            raise NoEval("UFCS call without receiver")
                        return self.call_item(it, args[1:], args[0])
                    return self.call_item(it, args)
            if last == "default" and not args:
                if ty in INT_KINDS:
                    return 0
                if ty == "bool":
                    return False
                return Opaque("default")
        else:
            if any(isinstance(a, Ast) for a in args) and self.hook:
                r = self.hook(self, "call", np_, None, args)
                if r is not None:
                    return r
            it = self.find_fn(last)
            if it is not None:
                return self.call_item(it, args)
        if len(segs) >= 2 and len(segs[-2]) and not segs[-2][:1].isupper():
            # module-qualified free function
            if any(isinstance(a, Ast) for a in args) and self.hook:
                r = self.hook(self, "call", np_, None, args)
                if r is not None:
                    return r
            it = self.find_fn(last)
            if it is not None:
                return self.call_item(it, args)
        if last in ("drop", "black_box") and len(args) == 1:
            return UNIT if last == "drop" else args[0]
        if args and all(isinstance(a, (Opaque, Ast)) for a in args):
            return Opaque("call " + last)
        if not args and last in ("new", "default"):
            return Opaque("call " + np_)
        raise NoEval("call " + np_)

    def store_ctor(self, ty, sf, name, args):
        def dims(n_lead):
            d = args[:n_lead]
            if not all(isinstance(x, int) and not isinstance(x, bool) for x in d):
                raise NoEval("storage dimensions")
            return d
        dyn = [i for i, x in enumerate(sf) if x is None]
        nd = len(dyn)

        def shape_for(d, n=None):
            r, c = sf
            if nd == 2:
                r, c = d
            elif nd == 1:
                if d:
                    if sf[0] is None:
                        r = d[0]
                    else:
                        c = d[0]
                else:
                    if sf[0] is None:
                        r = n
                    else:
                        c = n
            return r, c
        if name == "from_vec":
            if nd == 2:
                r, c = shape_for(dims(2))
                data = list(self.iterate(args[2]))
            else:
                data = list(self.iterate(args[-1]))
                r, c = shape_for([], len(data))
            if r * c != len(data):
                raise Panic("%s::from_vec: %d elements for %dx%d" % (ty, len(data), r, c))
            return Store(ty, r, c, data)
        if name in ("from_column_slice", "from_row_slice", "from_iterator", "from_row_iterator"):
            lead = nd if (nd == 2 or len(args) > 1) else 0
            d = dims(lead)
            data = list(self.iterate(args[-1]))
            r, c = shape_for(d, len(data))
            if name == "from_iterator" or name == "from_row_iterator":
                data = data[:r * c]
            if r * c != len(data):
                raise Panic("%s::%s: %d elements for %dx%d" % (ty, name, len(data), r, c))
            if name in ("from_row_slice", "from_row_iterator"):
                data = [data[i * c + j] for j in range(c) for i in range(r)]
            return Store(ty, r, c, data)
        if name in ("from_element", "repeat"):
            d = dims(len(args) - 1)
            r, c = shape_for(d, None)
            if r is None or c is None:
                raise NoEval("from_element shape")
            return Store(ty, r, c, [args[-1]] * (r * c))
        if name in ("zeros", "identity"):
            d = dims(len(args))
            r, c = shape_for(d, None)
            return Store(ty, r, c, [0] * (r * c))
        if name == "from_fn":
            d = dims(len(args) - 1)
            r, c = shape_for(d, None)
            return Store(ty, r, c, [self.apply(args[-1], [i, j]) for j in range(c) for i in range(r)])
        if name in ("new",) and nd == 0:
            r, c = sf
            if len(args) != r * c:
                raise NoEval("fixed-size constructor")
            return Store(ty, r, c, [args[i * c + j] for j in range(c) for i in range(r)])      # `new` takes the components row by row
        raise NoEval("constructor %s::%s" % (ty, name))

    def x_mcall(self, e, scope):
        recv = self.E(e[1], scope)
        name = e[2]
        args = [self.E(a, scope) for a in e[4]]
        return self.method(recv, name, args, e)

    def method(self, recv, name, args, e=None):
        if isinstance(recv, ElemRef):
            recv = recv.get()
        args = [a.get() if isinstance(a, ElemRef) else a for a in args]
        if (isinstance(recv, Ast) or any(isinstance(a, Ast) for a in args)) and self.hook:
            r = self.hook(self, "method", name, recv, args)
            if r is not None:
                return r
        if isinstance(recv, StructV) and self.stop and self.stop(self, recv, name, args):
            raise Done((recv, name, args))
        if isinstance(recv, (Opaque, Ast)):
            return Opaque("method " + name)
        if name in TRANSPARENT and not args:
            return recv
        if name in ("clone", "cloned", "copied") and not args and not isinstance(recv, It):
            if isinstance(recv, list):
                return list(recv)
            if isinstance(recv, Store):
                return recv.copy()
            if isinstance(recv, En) and recv.path in ("Some", "None") and name != "clone":
                return recv
            return recv
        if isinstance(recv, Tok):
            if name in ("min", "max", "saturating_sub", "wrapping_sub", "checked_sub", "saturating_add", "wrapping_add", "checked_add", "abs", "floor", "ceil", "round", "trunc", "pow", "rem_euclid"):
                return recv.with_op((name,) + tuple(a if not isinstance(a, Tok) else repr(a) for a in args))
            if name in ("try_into", "try_from"):
                return En("Ok", [recv.with_op(("as", "?"))])
            if name in ("eq", "ne", "lt", "gt", "le", "ge", "cmp", "partial_cmp", "is_nan", "is_positive", "is_negative"):
                raise NoEval("comparison of a symbolic element")
        if isinstance(recv, (int, float)) and not isinstance(recv, bool):
            r = self.num_method(recv, name, args)
            if r is not NotImplemented:
                return r
        if isinstance(recv, En) and recv.path in ("Ok", "Err", "Some", "None"):
            r = self.optres_method(recv, name, args)
            if r is not NotImplemented:
                return r
        if isinstance(recv, Store):
            r = self.store_method(recv, name, args)
            if r is not NotImplemented:
                return r
        if isinstance(recv, (list, It)) or (isinstance(recv, tuple) and recv and recv[0] == "range"):
            r = self.seq_method(recv, name, args)
            if r is not NotImplemented:
                return r
        if isinstance(recv, tuple) and name in ("clone",):
            return recv
        head, full = self.value_type(recv)
        if head is not None:
            it = self.find_method(head, full, name)
            if it is not None:
                if not any(p and p[0] == "self" for p in it["sig"]["inputs"]):
                    raise NoEval("static method called with a receiver")
                return self.call_item(it, args, recv)
        raise NoEval("method %s on %s" % (name, type(recv).__name__ if head is None else head))

    def num_method(self, v, name, args):
        if name in ("min", "max") and len(args) == 1 and isinstance(args[0], (int, float)):
            return min(v, args[0]) if name == "min" else max(v, args[0])
        if name in ("saturating_sub",) and len(args) == 1 and isinstance(args[0], int):
            return max(0, v - args[0])
        if name in ("checked_sub",) and len(args) == 1 and isinstance(args[0], int):
            return En("Some", [v - args[0]]) if v - args[0] >= 0 else NONE
        if name in ("checked_add", "checked_mul") and len(args) == 1 and isinstance(args[0], int):
            return En("Some", [v + args[0] if name == "checked_add" else v * args[0]])
        if name in ("wrapping_add", "saturating_add") and len(args) == 1:
            return v + args[0]
        if name == "pow" and len(args) == 1:
            return v ** args[0]
        if name in ("try_into", "try_from"):
            return En("Ok", [v])
        if name in ("is_power_of_two",):
            return v > 0 and (v & (v - 1)) == 0
        if name == "abs_diff" and len(args) == 1:
            return abs(v - args[0])
        if name in ("div_ceil",) and len(args) == 1:
            return -(-v // args[0])
        return NotImplemented

    def optres_method(self, v, name, args):
        ok = v.path in ("Ok", "Some")
        if name in ("unwrap", "expect", "unwrap_unchecked"):
            if ok:
                return v.args[0]
            raise Panic("unwrap on %s" % v.path)
        if name in ("is_ok", "is_some"):
            return ok
        if name in ("is_err", "is_none"):
            return not ok
        if name == "ok":
            return En("Some", v.args) if v.path == "Ok" else NONE
        if name == "err":
            return En("Some", v.args) if v.path == "Err" else NONE
        if name in ("map_err", "with_compiler_loc", "with_tokens", "or_insert"):
            return v
        if name in ("ok_or", "ok_or_else"):
            return En("Ok", v.args) if ok else En("Err", [Opaque("error")])
        if name in ("unwrap_or", "unwrap_or_default"):
            if ok:
                return v.args[0]
            if args:
                return args[0]
            raise NoEval("unwrap_or_default")
        if name == "unwrap_or_else":
            return v.args[0] if ok else self.apply(args[0], list(v.args) if v.path == "Err" else [])
        if name == "map":
            return En(v.path, [self.apply(args[0], [v.args[0]])]) if ok else v
        if name == "and_then":
            return self.apply(args[0], [v.args[0]]) if ok else v
        if name in ("or_else",):
            return v if ok else self.apply(args[0], list(v.args) if v.path == "Err" else [])
        if name == "or":
            return v if ok else args[0]
        if name in ("iter", "into_iter"):
            return It(v.args if ok else [])
        return NotImplemented

    def store_method(self, st, name, args):
        if name == "len" and not args:
            return len(st.data)
        if name == "nrows":
            return st.rows
        if name == "ncols":
            return st.cols
        if name == "shape":
            return (st.rows, st.cols)
        if name == "is_empty":
            return len(st.data) == 0
        if name in ("as_mut_slice", "get_mut", "index_mut", "row_mut", "column_mut", "column_iter_mut", "row_iter_mut"):
            raise NoEval("mutable view " + name)
        if name in ("as_slice", "to_vec", "as_vec", "into_vec"):
            return list(st.data)
        if name == "iter_mut":
            return It([ElemRef(st.data, i) for i in range(len(st.data))])
        if name in ("iter", "into_iter"):
            return It(st.data)
        if name == "transpose":
            form = {"DVector": "RowDVector", "RowDVector": "DVector"}.get(st.form)
            if form is None:
                m = re.match(r"^(Row)?Vector(\d)$", st.form)
                form = ("Vector" if m.group(1) else "RowVector") + m.group(2) if m else ("Matrix%dx%d" % (st.cols, st.rows) if re.match(r"^Matrix\dx\d$", st.form) else st.form)
            return Store(form, st.cols, st.rows, [st.data[j * st.rows + i] for i in range(st.rows) for j in range(st.cols)])
        if name == "row_iter":
            return It([Store("RowDVector", 1, st.cols, [st.data[j * st.rows + i] for j in range(st.cols)]) for i in range(st.rows)])
        if name == "column_iter":
            return It([Store("DVector", st.rows, 1, st.data[j * st.rows:(j + 1) * st.rows]) for j in range(st.cols)])
        if name in ("row", "column") and len(args) == 1 and isinstance(args[0], int):
            i = args[0]
            if name == "row":
                if not 0 <= i < st.rows:
                    raise Panic("row out of range")
                return Store("RowDVector", 1, st.cols, [st.data[j * st.rows + i] for j in range(st.cols)])
            if not 0 <= i < st.cols:
                raise Panic("column out of range")
            return Store("DVector", st.rows, 1, st.data[i * st.rows:(i + 1) * st.rows])
        if name == "index" and len(args) == 1:
            return st.data[self.store_pos(st, args[0])]
        if name == "get" and len(args) == 1:
            try:
                return En("Some", [st.data[self.store_pos(st, args[0])]])
            except Panic:
                return NONE
        if name in ("clone_owned", "into_owned"):
            return st.copy()
        if name == "map" and len(args) == 1:
            return Store(st.form, st.rows, st.cols, [self.apply(args[0], [x]) for x in st.data])
        if name in ("reshape_generic", "resize", "resize_vertically", "resize_horizontally", "insert_row", "remove_row", "fill"):
            raise NoEval("storage method " + name)
        return NotImplemented

    def seq_method(self, v, name, args):
        is_it = isinstance(v, It)
        is_range = isinstance(v, tuple)
        items = self.iterate(v)
        n = lambda i: isinstance(args[i], int) and not isinstance(args[i], bool)
        if name == "iter_mut" and not args and isinstance(v, list) and not isinstance(v, SliceCopy):
            return It([ElemRef(v, i) for i in range(len(v))])
        if name in ("last_mut", "first_mut") and not args and isinstance(v, list) and not isinstance(v, SliceCopy):
            return En("Some", [ElemRef(v, len(v) - 1 if name == "last_mut" else 0)]) if v else NONE
        if name == "get_mut" and len(args) == 1 and isinstance(v, list) and not isinstance(v, SliceCopy) and n(0):
            return En("Some", [ElemRef(v, args[0])]) if 0 <= args[0] < len(v) else NONE
        if name in ("iter_mut", "last_mut", "first_mut", "get_mut", "as_mut_slice", "split_at_mut", "chunks_mut"):
            raise NoEval("mutable view " + name)
        if name in ("iter", "into_iter", "drain") and (not args or name == "drain"):
            if name == "drain":
                if not isinstance(v, list) or len(args) != 1:
                    raise NoEval("drain")
                r = args[0]
                if not (isinstance(r, tuple) and r and r[0] == "range"):
                    raise NoEval("drain range")
                lo, hi = r[1] or 0, len(v) if r[2] is None else r[2]
                out = v[lo:hi]
                del v[lo:hi]
                return It(out)
            return It(items)
        if name in ("cloned", "copied", "by_ref", "peekable", "fuse") and not args:
            return It(items)
        if name in ("len", "count") and not args:
            return len(items)
        if name == "is_empty" and not args:
            return len(items) == 0
        if name in ("to_vec", "as_slice", "collect", "into_vec", "to_owned") and not args:
            return list(items)
        if name == "rev" and not args:
            return It(items[::-1])
        if name == "enumerate" and not args:
            return It([(i, x) for i, x in enumerate(items)])
        if name == "map" and len(args) == 1:
            return It([self.apply(args[0], [x]) for x in items])
        if name == "for_each" and len(args) == 1:
            for x in items:
                self.apply(args[0], [x])
            return UNIT
        if name == "zip" and len(args) == 1:
            return It(list(zip(items, self.iterate(args[0]))))
        if name == "chain" and len(args) == 1:
            return It(items + self.iterate(args[0]))
        if name in ("skip", "take", "step_by", "nth", "chunks", "chunks_exact", "windows", "truncate", "split_off", "remove", "split_at", "rotate_left", "rotate_right") and args and not n(0):
            raise NoEval("symbolic count for " + name)
        if name == "skip" and len(args) == 1:
            return It(items[args[0]:])
        if name == "take" and len(args) == 1:
            return It(items[:args[0]])
        if name == "step_by" and len(args) == 1:
            if args[0] <= 0:
                raise Panic("step_by(0)")
            return It(items[::args[0]])
        if name in ("chunks", "chunks_exact") and len(args) == 1:
            k = args[0]
            if k <= 0:
                raise Panic("chunk size 0")
            ch = [items[i:i + k] for i in range(0, len(items), k)]
            if name == "chunks_exact":
                ch = [c for c in ch if len(c) == k]
            return It(ch)
        if name == "windows" and len(args) == 1:
            k = args[0]
            return It([items[i:i + k] for i in range(0, len(items) - k + 1)])
        if name in ("flatten",) and not args:
            out = []
            for x in items:
                out += self.iterate(x)
            return It(out)
        if name == "flat_map" and len(args) == 1:
            out = []
            for x in items:
                out += self.iterate(self.apply(args[0], [x]))
            return It(out)
        if name in ("filter", "take_while", "skip_while", "position", "any", "all", "find") and len(args) == 1:
            flags = []
            for x in items:
                b = self.apply(args[0], [x])
                if isinstance(b, Tok) and isinstance(b.val, bool):
                    b = b.val
                if not isinstance(b, bool):
                    raise NoEval("predicate on a symbolic element")
                flags.append(b)
            if name == "filter":
                return It([x for x, b in zip(items, flags) if b])
            if name == "any":
                return any(flags)
            if name == "all":
                return all(flags)
            if name == "position":
                return En("Some", [flags.index(True)]) if True in flags else NONE
            if name == "find":
                return En("Some", [items[flags.index(True)]]) if True in flags else NONE
            k = flags.index(False) if False in flags else len(flags)
            return It(items[:k] if name == "take_while" else items[k:])
        if name == "filter_map" and len(args) == 1:
            out = []
            for x in items:
                r = self.apply(args[0], [x])
                if not (isinstance(r, En) and r.path in ("Some", "None")):
                    raise NoEval("filter_map result")
                out += r.args
            return It(out)
        if name == "fold" and len(args) == 2:
            acc = args[0]
            for x in items:
                acc = self.apply(args[1], [acc, x])
            return acc
        if name in ("sum", "product") and not args:
            if all(isinstance(x, int) and not isinstance(x, bool) for x in items):
                r = 0 if name == "sum" else 1
                for x in items:
                    r = r + x if name == "sum" else r * x
                return r
            raise NoEval("sum of symbolic elements")
        if name in ("max", "min") and not args and items and all(isinstance(x, int) and not isinstance(x, bool) for x in items):
            return En("Some", [max(items) if name == "max" else min(items)])
        if name in ("last", "first", "next") and not args:
            if name == "next" and is_it:
                if v.items:
                    return En("Some", [v.items.pop(0)])
                return NONE
            if not items:
                return NONE
            return En("Some", [items[-1] if name == "last" else items[0]])
        if name == "nth" and len(args) == 1:
            return En("Some", [items[args[0]]]) if args[0] < len(items) else NONE
        if name in ("get",) and len(args) == 1 and not is_it:
            if n(0):
                return En("Some", [items[args[0]]]) if 0 <= args[0] < len(items) else NONE
            if isinstance(args[0], tuple) and args[0] and args[0][0] == "range":
                lo = args[0][1] or 0
                hi = len(items) if args[0][2] is None else args[0][2]
                return En("Some", [items[lo:hi]]) if 0 <= lo <= hi <= len(items) else NONE
            raise NoEval("get")
        if name == "repeat" and len(args) == 1 and n(0) and not is_it:
            return list(items) * args[0]
        if name == "unzip" and not args:
            return ([x[0] for x in items], [x[1] for x in items])
        if is_range:
            if name == "contains" and len(args) == 1 and n(0):
                return args[0] in items
            return NotImplemented
        if not isinstance(v, list):
            return NotImplemented
        # ---- mutating Vec methods
        if isinstance(v, SliceCopy) and name not in ("concat", "contains", "binary_search"):
            raise NoEval("mutation through a sub-slice (%s)" % name)
        if name == "push" and len(args) == 1:
            v.append(args[0])
            return UNIT
        if name in ("extend", "extend_from_slice", "append") and len(args) == 1:
            src = args[0]
            add = self.iterate(src)
            v.extend(add)
            if name == "append" and isinstance(src, list):
                del src[:]
            return UNIT
        if name == "insert" and len(args) == 2 and n(0):
            if not 0 <= args[0] <= len(v):
                raise Panic("insert out of range")
            v.insert(args[0], args[1])
            return UNIT
        if name == "pop" and not args:
            return En("Some", [v.pop()]) if v else NONE
        if name == "remove" and len(args) == 1:
            if not 0 <= args[0] < len(v):
                raise Panic("remove out of range")
            return v.pop(args[0])
        if name == "swap_remove" and len(args) == 1 and n(0):
            if not 0 <= args[0] < len(v):
                raise Panic("swap_remove out of range")
            x = v[args[0]]
            v[args[0]] = v[-1]
            v.pop()
            return x
        if name == "reverse" and not args:
            v.reverse()
            return UNIT
        if name == "swap" and len(args) == 2 and n(0) and n(1):
            if not (0 <= args[0] < len(v) and 0 <= args[1] < len(v)):
                raise Panic("swap out of range")
            v[args[0]], v[args[1]] = v[args[1]], v[args[0]]
            return UNIT
        if name == "truncate" and len(args) == 1:
            del v[args[0]:]
            return UNIT
        if name == "clear" and not args:
            del v[:]
            return UNIT
        if name == "split_off" and len(args) == 1:
            if args[0] > len(v):
                raise Panic("split_off out of range")
            tail = v[args[0]:]
            del v[args[0]:]
            return tail
        if name == "split_at" and len(args) == 1:
            if args[0] > len(v):
                raise Panic("split_at out of range")
            return (v[:args[0]], v[args[0]:])
        if name in ("rotate_left", "rotate_right") and len(args) == 1:
            k = args[0] % len(v) if v else 0
            if name == "rotate_right":
                k = (len(v) - k) % len(v) if v else 0
            v[:] = v[k:] + v[:k]
            return UNIT
        if name == "resize" and len(args) == 2 and n(0):
            if args[0] < len(v):
                del v[args[0]:]
            else:
                v.extend([args[1]] * (args[0] - len(v)))
            return UNIT
        if name in ("reserve", "shrink_to_fit", "reserve_exact"):
            return UNIT
        if name in ("copy_from_slice", "clone_from_slice") and len(args) == 1:
            src = self.iterate(args[0])
            if len(src) != len(v):
                raise Panic("%s: length mismatch" % name)
            v[:] = src
            return UNIT
        if name == "fill" and len(args) == 1:
            v[:] = [args[0]] * len(v)
            return UNIT
        if name == "concat" and not args:
            out = []
            for x in v:
                out += self.iterate(x)
            return out
        if name in ("sort", "sort_unstable", "dedup", "sort_by", "sort_by_key", "retain", "contains", "binary_search"):
            if name in ("sort", "sort_unstable") and all(isinstance(x, int) and not isinstance(x, bool) for x in v):
                v.sort()
                return UNIT
            if name == "contains" and all(isinstance(x, int) for x in v) and len(args) == 1 and isinstance(args[0], int):
                return args[0] in v
            raise NoEval("value-dependent Vec method " + name)
        return NotImplemented


def norm_path_keep(t):
    return re.sub(r"\s+", "", t or "")


def same_variant(a, b):
    if a == b:
        return True
    sa, sb = a.split("::"), b.split("::")
    if len(sa) == 1 or len(sb) == 1:
        return sa[-1] == sb[-1] and sa[-1] in ("Ok", "Err", "Some", "None")
    return False


def _binders(pat):
    out = []

    def go(p):
        if not is_node(p):
            return
        if p[0] == "pident":
            out.append(p[1])
        for x in p[1:]:
            if isinstance(x, list):
                if x and isinstance(x[0], str):
                    go(x)
                else:
                    for y in x:
                        go(y)
    go(pat)
    return out


# ---------------------------------------------------------------- helpers for rules
def elements_of(v, depth=0):
    """the element sequence a value holds in storage order: a scalar token -> [tok]; Store / list -> its data; enum / Ref wrappers are looked through"""
    if depth > 6:
        return None
    if isinstance(v, Tok):
        return [v]
    if isinstance(v, Store):
        return list(v.data)
    if isinstance(v, list):
        return list(v)
    if isinstance(v, En) and len(v.args) == 1 and v.path not in ("Err",):
        return elements_of(v.args[0], depth + 1)
    return None


def fill(src, kind, n):
    """n position tokens; bool elements get a concrete truth value (all true but the second), so mask sizes are computable"""
    return [Tok(src, i, kind, (), (i != 1) if kind == "bool" else None) for i in range(n)]
