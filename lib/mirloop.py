"""Control-flow queries over MIR bodies that do not depend on how the source spells a mechanism:

  * natural loops, iterator (`for`) loops with the iterated type, their exhaustion edge and their exit edges;
  * a module "closure": a root function plus the private helpers (same module) it calls, with call chains, so that a
    site found inside an extracted helper can be located relative to the loops of its callers ("virtual inlining");
  * canonical places (follow copies / re-borrows of single-assignment temporaries) so that two operands can be compared
    for "same object" without looking at names, and lifted from a helper's parameter to the caller's argument;
  * must-call summaries ("every non-error return of H has passed a call of X");
  * a small explicit-state exploration that is sensitive to boolean flags that are only ever assigned constants
    (`done = true; break` ... `if done { break }`), so that flag + break and labelled continue look the same;
  * origin of a scalar (field of a parameter, through named locals and one-line getters).

Used by rules/c17.py; nothing here mentions a local variable name."""
import re
from lib.mirq import result_exits

ITER_NEXT = "core::iter::traits::iterator::Iterator::next"


def callee_of(t):
    return t.get("f") or t.get("tf") or ""


def callee_names(t):
    return [x for x in (t.get("f"), t.get("tf")) if x]


# ------------------------------------------------------------------ natural loops
class Loop:
    def __init__(self, body, header, nodes):
        self.body = body
        self.header = header
        self.nodes = nodes
        self._it = False

    def exits(self):
        """edges (u, v) leaving the loop over normal control flow"""
        out = []
        for u in sorted(self.nodes):
            for v in self.body.succ(u):
                if v not in self.nodes:
                    out.append((u, v))
        return out

    def iter_info(self):
        """for an iterator-driven loop (`for`, `while let Some(..) = it.next()`): dict(type, switch, some, none) else None"""
        if self._it is not False:
            return self._it
        self._it = None
        b = self.body
        t = b.blocks[self.header]["t"]
        if t["k"] == "call" and t.get("tf") == ITER_NEXT and "t" in t:
            nb = t["t"]
            hops = 0
            while b.blocks[nb]["t"]["k"] == "goto" and hops < 3:
                nb = b.blocks[nb]["t"]["t"]
                hops += 1
            sw = b.blocks[nb]["t"]
            if sw["k"] == "switch":
                tg = dict((v, x) for v, x in sw["targets"])
                if 0 in tg and (1 in tg or sw.get("else") is not None):
                    some = tg.get(1, sw.get("else"))
                    ga = t.get("ga") or []
                    self._it = {"type": ga[0] if ga else "", "switch": nb, "some": some, "none": tg[0], "line": t.get("l")}
        return self._it

    def region(self):
        """the loop body as written: the natural loop plus, for an iterator loop, everything dominated by the `Some` edge (blocks that can only
        leave the loop - the tail of a `break` / `return` branch - are not part of the natural loop but are inside the body)"""
        if getattr(self, "_region", None) is None:
            r = set(self.nodes)
            it = self.iter_info()
            if it and it["some"] is not None and len(self.body.pred(it["some"])) == 1:
                idom = self.body.idom()
                for x in idom:
                    if x not in r and self.body.dominates(it["some"], x):
                        r.add(x)
            self._region = r
        return self._region

    def iter_type(self):
        i = self.iter_info()
        return i["type"] if i else None


def natural_loops(body):
    """list of Loop (one per header), innermost loops have the smaller node sets"""
    if getattr(body, "_nat_loops", None) is not None:
        return body._nat_loops
    heads = {}
    idom = body.idom()
    for a in range(len(body.blocks)):
        if a not in idom:
            continue
        for h in body.succ(a):
            if h in idom and body.dominates(h, a):
                nodes = heads.setdefault(h, {h})
                st = [a]
                while st:
                    x = st.pop()
                    if x in nodes:
                        continue
                    nodes.add(x)
                    for p in body.pred(x):
                        if p in idom:
                            st.append(p)
    body._nat_loops = [Loop(body, h, n) for h, n in sorted(heads.items())]
    return body._nat_loops


def loops_containing(body, blk):
    """outermost first"""
    return sorted([l for l in natural_loops(body) if blk in l.region()], key=lambda l: -len(l.region()))


# ------------------------------------------------------------------ closure of a root function inside its module
class Closure:
    """root + the functions of the same module (def-path prefix) reachable from it through direct calls (closures included)."""

    def __init__(self, cg, root, prefix, stop=(), max_depth=4):
        self.cg = cg
        self.root = root
        self.prefix = prefix
        self.fns = {}           # name -> Body
        self.callers = {}       # callee -> [(caller name, block, term)]
        self.depth = {}
        todo = [(root, 0)]
        while todo:
            f, d = todo.pop(0)
            if f in self.fns or f not in cg.bodies:
                continue
            self.fns[f] = cg.bodies[f]
            self.depth[f] = d
            if d >= max_depth:
                continue
            b = cg.bodies[f]
            for i, t in b.calls():
                for g in callee_names(t):
                    if g.startswith(prefix) and g in cg.bodies and g != f and not any(re.search(s, g) for s in stop):
                        self.callers.setdefault(g, [])
                        if (f, i) not in [(c[0], c[1]) for c in self.callers[g]]:
                            self.callers[g].append((f, i, t))
                        todo.append((g, d + 1))
                        break
            # closures created in this body (passed to combinators): part of the function for our purposes
            for g in b.mentioned_fns():
                if g.startswith(f + "::{closure") and g in cg.bodies:
                    todo.append((g, d + 1))

    def chains(self, fn, limit=6):
        """all call chains root -> fn: each a list [(caller name, call block), ...] outermost first ([] for the root itself)"""
        if fn == self.root:
            return [[]]
        out = []
        if limit <= 0:
            return out
        for g, i, t in self.callers.get(fn, []):
            for ch in self.chains(g, limit - 1):
                if (g, i) not in ch:
                    out.append(ch + [(g, i)])
        return out

    def calls(self, rx):
        """(fn name, block, term) of every call in the closure whose callee matches rx"""
        if isinstance(rx, str):
            rx = re.compile(rx)
        out = []
        for f, b in self.fns.items():
            for i, t in b.calls():
                if any(rx.search(x) for x in callee_names(t)):
                    out.append((f, i, t))
        return out

    def loop_nest(self, fn, blk):
        """loops enclosing the site (fn, blk) after virtual inlining along every call chain: list (one per chain) of lists of (fn name, Loop), outermost first"""
        out = []
        for ch in self.chains(fn):
            nest = []
            for g, i in ch:
                nest += [(g, l) for l in loops_containing(self.fns[g], i)]
            nest += [(fn, l) for l in loops_containing(self.fns[fn], blk)]
            out.append(nest)
        return out


# ------------------------------------------------------------------ canonical places
def _single_def(body, local):
    ds = body.defs().get(local, [])
    whole = [(blk, s) for blk, s in ds if s["d"][1] == ""]
    if len(ds) == 1 and len(whole) == 1:
        return whole[0]
    return None


def canon_place(body, local, proj, limit=40):
    """follow copies and re-borrows of single-assignment locals: returns (base local, projection)"""
    while limit > 0:
        limit -= 1
        if 1 <= local <= body.nargs:
            break
        d = _single_def(body, local)
        if d is None:
            break
        s = d[1]
        if s.get("k") == "call":
            break
        rk = s.get("rk")
        src = s.get("src") or []
        if len(src) != 1 or not isinstance(src[0], list):
            break
        l2, p2 = src[0][0], src[0][1]
        if rk in ("use", "cast"):
            local, proj = l2, p2 + proj
        elif rk in ("ref", "rawptr"):
            if proj.startswith("*"):
                local, proj = l2, p2 + proj[1:]
            else:
                break
        else:
            break
    return local, proj


def pointee(body, operand):
    """canonical place a reference-typed operand points to (None for constants)"""
    if not isinstance(operand, list):
        return None
    return canon_place(body, operand[0], operand[1] + "*")


def value_place(body, operand):
    if not isinstance(operand, list):
        return None
    return canon_place(body, operand[0], operand[1])


def lift_place(clo, fn, place, deref_arg=True):
    """a place rooted in a parameter of helper `fn` expressed in each caller: list of (caller fn, call block, place in caller).
    `place` is (local, proj) in fn with 1 <= local <= nargs."""
    out = []
    local, proj = place
    for g, i, t in clo.callers.get(fn, []):
        a = t["args"][local - 1] if local - 1 < len(t["args"]) else None
        if not isinstance(a, list):
            continue
        out.append((g, i, canon_place(clo.fns[g], a[0], a[1] + proj)))
    return out


# ------------------------------------------------------------------ results, must-call summaries
def nonerror_writes(body):
    """blocks that write the return place with something that is not an Err (Ok(..), a plain value, a forwarded call result)"""
    ok, err = result_exits(body)
    out = set()
    for i, blk in enumerate(body.blocks):
        if blk["cl"]:
            continue
        if i in err:
            continue
        if any(s["d"][0] == 0 for s in blk["s"]):
            out.add(i)
        t = blk["t"]
        if t["k"] == "call" and t["d"][0] == 0:
            out.add(i)
    return out, err


def returns_result(body):
    return body.locals[0].startswith("core::result::Result<")


def must_pass_on_ok(body, targets):
    """every path entry -> return that is not an error exit passes one of the target blocks"""
    ok, err = nonerror_writes(body)
    avoid = set(targets) | (err if returns_result(body) else set())
    if 0 in avoid:
        return True
    seen = body.reachable_from([0], avoid=avoid)
    return not any(r in seen for r in body.ret_blocks())


class CallSummary:
    """classifies call blocks of a body as MUST / MAY / NO with respect to "calls a function matching rx" (helpers of the closure are summarised)"""

    def __init__(self, clo, rx):
        self.clo = clo
        self.rx = re.compile(rx) if isinstance(rx, str) else rx
        self._must = {}
        self._may = {}

    def is_target(self, t):
        return any(self.rx.search(x) for x in callee_names(t))

    def helper_of(self, t):
        for g in callee_names(t):
            if g in self.clo.fns and g != self.clo.root:
                return g
        return None

    def may(self, fn, depth=4):
        if fn in self._may:
            return self._may[fn]
        self._may[fn] = False
        b = self.clo.fns.get(fn) or self.clo.cg.bodies.get(fn)
        r = False
        if b is not None:
            for i, t in b.calls():
                if self.is_target(t):
                    r = True
                    break
                h = self.helper_of(t)
                if h and depth > 0 and self.may(h, depth - 1):
                    r = True
                    break
            if not r:
                for g in b.mentioned_fns():
                    if g.startswith(fn + "::{closure") and g in self.clo.cg.bodies and depth > 0 and self.may(g, depth - 1):
                        r = True
                        break
        self._may[fn] = r
        return r

    def must(self, fn, depth=4):
        if fn in self._must:
            return self._must[fn]
        self._must[fn] = False
        b = self.clo.fns.get(fn)
        r = False
        if b is not None:
            r = must_pass_on_ok(b, self.blocks(b, depth - 1)[0])
        self._must[fn] = r
        return r

    def blocks(self, body, depth=4):
        """(must blocks, may-only blocks) of `body`"""
        must, may = set(), set()
        for i, t in body.calls():
            if self.is_target(t):
                must.add(i)
                continue
            h = self.helper_of(t)
            if h and depth > 0:
                if self.must(h, depth):
                    must.add(i)
                elif self.may(h, depth):
                    may.add(i)
        return must, may


# ------------------------------------------------------------------ flag-sensitive exploration
def flag_locals(body):
    """bool locals that are only ever assigned the constants true / false (user flags and drop flags)"""
    out = set()
    defs = body.defs()
    borrowed = set()        # a flag that is handed out `&mut` can change behind our back
    for blk in body.blocks:
        for s in blk["s"]:
            if (s.get("rk") == "ref" and s.get("mut")) or s.get("rk") == "rawptr":
                for o in s.get("src") or []:
                    if isinstance(o, list):
                        borrowed.add(o[0])
    for l, ty in enumerate(body.locals):
        if ty != "bool" or 1 <= l <= body.nargs or l in borrowed:
            continue
        ds = defs.get(l, [])
        if not ds:
            continue
        ok = True
        for blk, s in ds:
            src = s.get("src") or []
            if s.get("k") == "call" or s.get("rk") != "use" or s["d"][1] != "" or len(src) != 1 or not isinstance(src[0], dict) or src[0].get("c") not in ("true", "false"):
                ok = False
                break
        if ok:
            out.add(l)
    return out


def explore(body, enter, on_edge, init_user=0, max_states=400000, user_flags_only=True):
    """Explicit-state reachability over (block, values of constant-assigned bool flags, user state).
    enter(block, user) -> user state after executing the block;  on_edge(src, dst, user) is called for every feasible edge and may
    return the user state the target is entered with (None: unchanged).
    A branch on a flag whose value is known takes only the feasible side; a branch on an unknown flag refines it.
    Returns False when the state budget was exhausted (the caller should then treat the result as undecided)."""
    flags = sorted(flag_locals(body))
    # only flags that are ever branched on matter
    used = set()
    for blk in body.blocks:
        t = blk["t"]
        if t["k"] == "switch" and isinstance(t["on"], list):
            used.add(t["on"][0])
        for s in blk["s"]:
            for o in s.get("src") or []:
                if isinstance(o, list) and o[1] == "":
                    used.add(o[0])
    flags = [f for f in flags if f in used]
    if user_flags_only:
        # compiler-generated drop flags only steer drops; following them multiplies states without changing what is reachable
        named = {v[0] for v in body.vars.values() if v[1] == ""}
        flags = [f for f in flags if f in named]
    idx = {f: i for i, f in enumerate(flags)}
    start = (0, tuple([None] * len(flags)), init_user)
    seen = {start}
    st = [start]
    while st:
        if len(seen) > max_states:
            return False
        b, fv, u = st.pop()
        blk = body.blocks[b]
        fv = list(fv)
        alias = {}      # temp -> (flag, negated)
        for s in blk["s"]:
            d = s["d"]
            src = s.get("src") or []
            if d[1] == "" and d[0] in idx and s.get("rk") == "use" and len(src) == 1 and isinstance(src[0], dict):
                fv[idx[d[0]]] = (src[0].get("c") == "true")
                continue
            if d[1] == "" and len(src) == 1 and isinstance(src[0], list) and src[0][1] == "":
                x = src[0][0]
                base = (x, False) if x in idx else alias.get(x)
                if base is not None and s.get("rk") == "use":
                    alias[d[0]] = base
                    continue
                if base is not None and s.get("rk") == "un" and s.get("op") in ("Not", "!", "not"):
                    alias[d[0]] = (base[0], not base[1])
                    continue
            alias.pop(d[0], None)
        u2 = enter(b, u)
        t = blk["t"]
        succ = None
        if t["k"] == "switch" and isinstance(t["on"], list) and t.get("ty") == "bool":
            x = t["on"][0]
            base = (x, False) if x in idx else alias.get(x)
            if base is not None:
                false_t = None
                for v, tgt in t["targets"]:
                    if v == 0:
                        false_t = tgt
                true_t = t["else"]
                if false_t is not None:
                    cur = fv[idx[base[0]]]
                    succ = []
                    for val, tgt in ((True, true_t), (False, false_t)):
                        flagval = (not val) if base[1] else val
                        if cur is None or cur == flagval:
                            f2 = list(fv)
                            f2[idx[base[0]]] = flagval
                            succ.append((tgt, tuple(f2)))
        if succ is None:
            succ = [(s_, tuple(fv)) for s_ in body.succ(b)]
        for s_, f2 in succ:
            u3 = on_edge(b, s_, u2)
            if u3 is None:
                u3 = u2
            n = (s_, f2, u3)
            if n not in seen:
                seen.add(n)
                st.append(n)
    return True


# ------------------------------------------------------------------ origin of a scalar: field of a parameter
def field_name(adts, ty, idx):
    ty = re.sub(r"^(&(mut )?)+", "", ty)
    base = re.sub(r"<.*$", "", ty)
    for a in adts:
        if a["name"] == base and not a["enum"]:
            fs = a["variants"][0]["fields"]
            if idx < len(fs):
                return a["name"], fs[idx][0]
    return None


def scalar_origins(body, operand, adts, cg=None, depth=2, limit=60):
    """set of descriptors of where a scalar operand comes from: ('field', adt, field) | ('const', text) | ('other', text)"""
    out = set()
    if isinstance(operand, dict):
        out.add(("const", str(operand.get("c"))))
        return out
    local, proj = value_place(body, operand)
    if proj:
        m = re.match(r"^(\*?)\.(\d+)$", proj)
        if m:
            fn_ = field_name(adts, body.locals[local], int(m.group(2)))
            if fn_:
                out.add(("field",) + fn_)
                return out
        out.add(("other", "%s%s" % (body.locals[local], proj)))
        return out
    ds = body.defs().get(local, [])
    if not ds:
        out.add(("other", "param" if 1 <= local <= body.nargs else "undef"))
        return out
    for blk, s in ds:
        if s.get("k") == "call":
            g = None
            for x in callee_names(s):
                if cg is not None and x in cg.bodies:
                    g = cg.bodies[x]
                    break
            if g is not None and depth > 0 and len(g.blocks) <= 6:
                # a one-line getter: origin of its return value
                sub = set()
                for b2, s2 in g.defs().get(0, []):
                    if s2.get("k") == "call":
                        sub.add(("other", callee_of(s2)))
                    elif s2.get("rk") in ("use", "cast") and s2.get("src"):
                        sub |= scalar_origins(g, s2["src"][0], adts, cg, depth - 1)
                    else:
                        sub.add(("other", str(s2.get("rk"))))
                out |= sub or {("other", callee_of(s))}
            else:
                out.add(("other", callee_of(s)))
        elif s.get("rk") in ("use", "cast") and s.get("src") and limit > 0:
            out |= scalar_origins(body, s["src"][0], adts, cg, depth, limit - 1)
        else:
            out.add(("other", str(s.get("rk")) + ":" + str(s.get("op", ""))))
    return out


# ------------------------------------------------------------------ bounded loops
UNBOUNDED_ITER = re.compile(r"\b(RangeFrom|Repeat|RepeatWith|Cycle|Successors|FromFn|OnceWith|Lines|Incoming|Receiver|TryIter|Iter<.*mpsc)\b")


def unbounded_loops(body):
    """loops of a body that are not driven by `Iterator::next` of a finite iterator: list of descriptions (empty = every loop is counted by the data it walks)"""
    out = []
    for l in natural_loops(body):
        it = l.iter_info()
        if it is None:
            out.append("loop at line %s is not driven by an iterator" % body.blocks[l.header]["t"].get("l", "?"))
        elif UNBOUNDED_ITER.search(it["type"]):
            out.append("loop over %s" % it["type"])
    return out
