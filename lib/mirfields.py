"""Field-sensitive backward value flow on one MIR body: WHICH COMPONENT of which producer does a component of a value come from.

lib.mirq.Slice answers "which calls / arguments feed this operand" for a whole local.  That is not enough where the question is about the
POSITION of a value inside a tuple / struct / enum payload - e.g. "which parser application does the FIRST token of the pair stored in
`RealNumber::Float((a, b))` come from, and which the second": a whole-local slice of the pair gives the union for both.

    ff = FieldFlow(body, is_stop=lambda block, term: ...)     # `is_stop`: calls that are producers of interest (the flow ends there)
    ff.sources(operand, proj=())                              # operand: a MIR operand ([local, "projection"] or a constant); proj: further
                                                              # projection elements applied to it (parse_proj syntax)
        -> frozenset of Src(kind, key, proj, exact)
             kind "site"     key = block of a stop call            proj = projection into the call's RESULT that the value is
             kind "arg"      key = parameter local                 proj = projection into the parameter
             kind "default"  key = type text (`Default::default()` / `T::default()`)
             kind "const"    key = constant text     kind "fn" key = fn item     kind "agg" key = fieldless ADT value     kind "call" key = callee (no operands)
           exact: the value IS that component (moves, copies, references, projections, tuple / ADT construction and destructuring, `?`,
           unwrap, clone, Box::new ...); False when an opaque call or an operator stands in between (the value is COMPUTED FROM the component)

Projection elements: ".N" (field N of a tuple / struct / variant), "@Variant" (downcast), "[]" (index); dereferences are dropped (a reference to
a place and the place are the same thing for provenance).  The flow is path-insensitive (union over all definitions of a local) but
variant-sensitive: a query for `@Float.0` does not flow into a definition that builds another variant.
Mutation through `&mut local` handed to an opaque call (`v.append(&mut other)`) counts as a definition of `local` computed from the other operands.
"""
import re
from collections import namedtuple, defaultdict

Src = namedtuple("Src", "kind key proj exact")

_ELEM = re.compile(r"\.(\d+)|@(\w+)|(\*)|\[([^\]]*)\]")

# callees whose result is their first operand (same shape): a projection of the result is the same projection of the operand
IDENTITY = re.compile(r"(::clone$|::to_owned$|::borrow$|::borrow_mut$|::deref$|::deref_mut$|::as_ref$|::as_mut$|::into$|::from$|boxed::Box::<T>::new$|"
                      r"::into_inner$|::as_deref$|::as_deref_mut$|::by_ref$|::to_vec$|::into_boxed_slice$|mem::take$|mem::replace$)")
# callees that return the payload of their first operand (Option::Some / Result::Ok)
UNWRAP = re.compile(r"::unwrap$|::expect$|::unwrap_or$|::unwrap_or_default$|::unwrap_or_else$|::unwrap_unchecked$")


def parse_proj(s):
    out = []
    for m in _ELEM.finditer(s or ""):
        if m.group(1) is not None:
            out.append("." + m.group(1))
        elif m.group(2) is not None:
            out.append("@" + m.group(2))
        elif m.group(3):
            continue
        else:
            out.append("[]")
    return tuple(out)


def _payload_variant(ty):
    """the variant that carries the payload of an Option / Result type (by the type's own path), else None"""
    m = re.match(r"^&?(?:mut )?core::(option::Option|result::Result)<", ty or "")
    return None if not m else ("@Some" if m.group(1).startswith("option") else "@Ok")


def _callee(t):
    return t.get("f") or t["tf"]


class FieldFlow:
    def __init__(self, body, is_stop=None, limit=20000):
        self.b = body
        self.defs = body.defs()
        self.is_stop = is_stop or (lambda blk, t: False)
        self.limit = limit
        self._memo = {}
        # &mut borrows: local holding `&mut L.proj` -> (L, proj)
        self.mutref = {}
        changed = True
        rounds = 0
        while changed and rounds < 4:
            changed, rounds = False, rounds + 1
            for _, s in body.stmts():
                if s.get("rk") == "ref" and s.get("mut") and s["d"][1] == "" and s["src"] and isinstance(s["src"][0], list):
                    base, pj = s["src"][0][0], parse_proj(s["src"][0][1])
                    if base in self.mutref:                       # reborrow `&mut *r`
                        base, pj = self.mutref[base][0], self.mutref[base][1] + pj
                    if self.mutref.get(s["d"][0]) != (base, pj):
                        self.mutref[s["d"][0]] = (base, pj)
                        changed = True
        # opaque calls that are handed `&mut L`: may write L
        self.writes = defaultdict(list)
        for i, t in body.calls():
            for k, a in enumerate(t["args"]):
                if isinstance(a, list) and a[1] == "" and a[0] in self.mutref:
                    self.writes[self.mutref[a[0]][0]].append((i, t, k))

    # ---- public
    def sources(self, operand, proj=()):
        key = (repr(operand), tuple(proj))
        if key not in self._memo:
            out, seen = set(), set()
            self._n = 0
            self._operand(operand, tuple(proj), True, out, seen)
            self._memo[key] = frozenset(out)
        return self._memo[key]

    # ---- internals
    def _operand(self, o, rest, ex, out, seen):
        if isinstance(o, list):
            self._flow(o[0], parse_proj(o[1]) + rest, ex, out, seen)
        elif isinstance(o, dict) and not rest:
            if "fn" in o:
                out.add(Src("fn", o["fn"], (), ex))
            else:
                out.add(Src("const", str(o.get("c")), (), ex))

    def _flow(self, local, proj, ex, out, seen):
        k = (local, proj, ex)
        if k in seen or self._n > self.limit:
            return
        seen.add(k)
        self._n += 1
        if 1 <= local <= self.b.nargs:
            out.add(Src("arg", local, proj, ex))
        for blk, s in self.defs.get(local, ()):
            dproj = parse_proj(s["d"][1])
            if dproj == proj[:len(dproj)]:
                rest, part = proj[len(dproj):], False
            elif proj == dproj[:len(proj)]:
                rest, part = (), True                              # a write into a part of the queried place
            else:
                continue
            if s.get("k") == "call":
                self._call(blk, s, rest, ex and not part, out, seen)
            else:
                self._stmt(blk, s, rest, ex and not part, out, seen)
        for blk, t, k_arg in self.writes.get(local, ()):
            cal = _callee(t)
            if IDENTITY.search(cal) or UNWRAP.search(cal) or self.is_stop(blk, t):
                continue
            for j, a in enumerate(t["args"]):
                if j != k_arg:
                    self._operand(a, (), False, out, seen)

    def _stmt(self, blk, s, rest, ex, out, seen):
        rk = s.get("rk")
        src = s.get("src") or []
        if rk in ("use", "ref", "rawptr", "cast", "copy", "shallowbox"):
            for o in src[:1]:
                self._operand(o, rest, ex if rk != "cast" else False, out, seen)
        elif rk == "agg":
            if s.get("tuple"):
                if rest and rest[0].startswith("."):
                    i = int(rest[0][1:])
                    if i < len(src):
                        self._operand(src[i], rest[1:], ex, out, seen)
                elif not rest:
                    for o in src:
                        self._operand(o, (), ex, out, seen)
            elif "adt" in s:
                r = rest
                if r and r[0].startswith("@"):
                    if r[0][1:] != s.get("var"):
                        return                                    # another variant is asked for: this construction cannot be its source
                    r = r[1:]
                if r and r[0].startswith("."):
                    i = int(r[0][1:])
                    if i < len(src):
                        self._operand(src[i], r[1:], ex, out, seen)
                elif not r:
                    if not src:
                        out.add(Src("agg", "%s::%s" % (s["adt"], s.get("var")), (), ex))
                    for o in src:
                        self._operand(o, (), ex, out, seen)
            else:
                for o in src:
                    self._operand(o, (), False, out, seen)
        elif rk in ("discr", "setdiscr", "len", "nullop"):
            return
        else:
            for o in src:
                self._operand(o, (), False, out, seen)

    def _ty(self, o):
        return self.b.locals[o[0]] if isinstance(o, list) and o[1] == "" and o[0] < len(self.b.locals) else ""

    def _call(self, blk, t, rest, ex, out, seen):
        if self.is_stop(blk, t):
            out.add(Src("site", blk, rest, ex))
            return
        cal = _callee(t)
        args = t["args"]
        if cal.endswith("::branch") and args:
            if rest[:1] == ("@Continue",):
                self._operand(args[0], (_payload_variant(self._ty(args[0])) or "@Ok",) + rest[1:], ex, out, seen)
            elif not rest:
                self._operand(args[0], (), False, out, seen)
            return
        if cal.endswith("::from_residual"):
            return
        if UNWRAP.search(cal) and args and _payload_variant(self._ty(args[0])):
            self._operand(args[0], (_payload_variant(self._ty(args[0])), ".0") + rest, ex, out, seen)
            for a in args[1:]:                                     # unwrap_or(default)
                self._operand(a, rest, ex, out, seen)
            return
        if IDENTITY.search(cal) and args:
            self._operand(args[0], rest, ex, out, seen)
            return
        if re.search(r"(^|::)default::Default::default$|<.* as core::default::Default>::default$", cal) and not args:
            out.add(Src("default", (t.get("ga") or [self.b.locals[t["d"][0]]])[0], (), ex))
            return
        ops = [a for a in args if isinstance(a, list)]
        if not ops:
            out.add(Src("call", cal, (), ex))
        for a in args:
            self._operand(a, (), False, out, seen)


# ---- type strings -----------------------------------------------------------------------------------------------------------------

def split_type_args(s):
    """top-level comma-separated parts of the inside of `(..)` / `<..>`"""
    out, cur, depth = [], [], 0
    for ch in s:
        if ch in "(<[{":
            depth += 1
        elif ch in ")>]}":
            depth -= 1
        if ch == "," and depth == 0:
            out.append("".join(cur).strip())
            cur = []
        else:
            cur.append(ch)
    if "".join(cur).strip():
        out.append("".join(cur).strip())
    return out


def tuple_types(ty):
    """component types of a tuple type string `(A,B,..)`, else None"""
    ty = ty.strip()
    if ty.startswith("(") and ty.endswith(")"):
        return split_type_args(ty[1:-1])
    return None


def generic_args(ty):
    m = re.match(r"^[\w:]+<(.*)>$", ty.strip())
    return split_type_args(m.group(1)) if m else []
