"""Per-path progress of hand-written parser loops (syn AST).

Termination of a hand-written `loop { .. }` / `while C { .. }` / `while let P = p(x) { .. }` that applies parsers to a loop-carried
input needs a MUST-argument: on EVERY path from the loop head back to the loop head (every `continue` and the fall-through end of the
body) the loop-carried input - a binding declared OUTSIDE the loop that the loop's parser applications read - has been ASSIGNED a
remainder that lies strictly behind the position it had at the loop head.  Paths that leave the loop (`break`, `return`, the Err side
of `?`) need nothing.

The analysis is a small path-enumerating abstract interpreter over the statement lists of the loop (if / if-let / match / let-else /
`?` / guard clauses / named tuples / cursor comparisons).  Every use of a name is resolved to the `Binding` that introduces it
(lib/synq.Scope): the abstract store is keyed by BINDING, never by spelling, so `let (input, _) = p(next)?` inside the body is a new
binding and leaves the outer `input` untouched - which is the whole point.

Abstract values
    ("pos", base, lvl, trail)   an input position >= the position the outer binding `base` had at the loop head;
                                lvl = ADV  strictly behind the head position (a parser proven consuming succeeded on the way, or a cursor
                                           comparison on this path says so)
                                      SAME only parsers that can provably succeed without consuming were applied (or none at all)
                                      UNK  a parser that is neither proven consuming nor provably nullable was applied
    ("res", payload)            a parser result / `Ok(payload)`;  ("opt", payload)  `Some(payload)`;  ("err",)  `Err(..)`
    ("tup", (v, ..))            a tuple of values (`(rest, item)`)
    ("parser", cls, dn, sig)    a local that holds a parser (`let p = alt((..));`)
    ("cur", pos, sign, b, snap) `x.cursor` (sign +1) or `x.len()` (sign -1, the remaining length) of the position held by binding b
    ("cmp", op, l, r), ("not", v), ("bool", k)   conditions over the above
    None                        anything else (not tracked)

Monotonicity lemma used: a parser's remainder is never in front of the input it was applied to (the cursor is only ever advanced, C09-R3).
"""
from lib.facts import is_node, path_of, render
from lib.guards import PANIC_CALL

ADV, SAME, UNK = "ADV", "SAME", "UNK"
PASS_METHODS = {"clone", "to_owned", "borrow", "borrow_mut", "as_ref", "as_mut", "by_ref", "into", "deref", "deref_mut"}
CMP_OPS = ("==", "!=", "<=", ">=", "<", ">")
NEG = {"<=": ">", ">": "<=", "<": ">=", ">=": "<", "==": "!=", "!=": "=="}
FLIP = {"<=": ">=", ">=": "<=", "<": ">", ">": "<", "==": "==", "!=": "!="}


def _all_list_ids(n, out):
    st = [n]
    while st:
        x = st.pop()
        if isinstance(x, list):
            out.add(id(x))
            st.extend(y for y in x if isinstance(y, (list, dict)))
        elif isinstance(x, dict):
            st.extend(y for y in x.values() if isinstance(y, (list, dict)))
    return out


def is_pos(v):
    return isinstance(v, tuple) and v and v[0] == "pos"


def head_sig(f):
    """a name-free signature of a parser-valued expression: the resolved callee's last segment (`many0`, `identifier`), never a local"""
    if not is_node(f):
        return "?"
    if f[0] == "path":
        return f[1].split("::")[-1].split("<")[0]
    if f[0] == "call":
        return head_sig(f[1])
    if f[0] == "closure":
        return "closure"
    if f[0] in ("ref",):
        return head_sig(f[2])
    return f[0]


class St:
    """one path's abstract store"""
    __slots__ = ("vals", "log")

    def __init__(self, vals=None, log=()):
        self.vals = vals if vals is not None else {}
        self.log = log

    def set(self, b, v):
        d = dict(self.vals)
        d[b] = v
        return St(d, self.log)

    def logged(self, item):
        return St(self.vals, self.log + (item,))

    def key(self):
        return (frozenset((id(k), v) for k, v in self.vals.items()), self.log)


class TooManyPaths(Exception):
    pass


class Unmodelled(Exception):
    pass


class LoopPaths:
    MAXPATHS = 6000

    def __init__(self, N, dn, sc, fn_body):
        """N: lib.nullable.Nullability, dn: its definitely-nullable set, sc: lib.synq.Scope of the enclosing function (already built),
        fn_body: the statement list of the enclosing function (for parser-valued locals declared before the loop)"""
        self.N = N
        self.dn = dn
        self.sc = sc
        self.fn_body = fn_body
        self.parser_bindings = None

    # ------------------------------------------------------------------------------------------------ entry
    def analyse(self, loop):
        """-> dict(status=..., ...):
             status "n/a"        the loop applies no parser to a binding declared outside it (nothing to decide here)
             status "unmodelled" the loop is of that kind but the analysis gave up (reason)
             status "decided"    vars: {binding: {"paths": [(how, verdict, why, log)], "verdict": "ok"|"bad"|"unk"}}, verdict (of the loop)"""
        self.inner = _all_list_ids(loop, set())
        self.fed = []
        self.backs = []
        self.npaths = 0
        self._parser_locals()
        kind = loop[0]
        try:
            if kind == "loop":
                for _, st in self.block(loop[1], St()):
                    self.back("end-of-body", st)
            elif kind == "while":
                for truth, st in self.cond(loop[1], St()):
                    if truth:
                        for _, st2 in self.block(loop[2], st):
                            self.back("end-of-body", st2)
            else:
                return {"status": "n/a"}
        except TooManyPaths:
            return {"status": "unmodelled", "why": "more than %d paths" % self.MAXPATHS} if self.fed else {"status": "n/a"}
        if not self.fed:
            return {"status": "n/a"}
        out = {}
        for b in self.fed:
            paths = []
            for how, st in self.backs:
                v = st.vals.get(b, "unassigned")
                if v == "unassigned":
                    verdict, why = "bad", "unassigned"
                elif is_pos(v) and v[1] is b:
                    verdict, why = {ADV: ("ok", "advanced"), SAME: ("bad", "nullable-only"), UNK: ("unk", "unproven-parser")}[v[2]]
                else:
                    verdict, why = "unk", "untracked-value"
                shadow = None
                if verdict == "bad":
                    # a binding of the same spelling declared INSIDE the loop that holds a remainder on this path: the slip the message names
                    for k, kv in st.vals.items():
                        if k is not b and k.name == b.name and id(k.owner) in self.inner and is_pos(kv):
                            shadow = kv
                paths.append({"how": how, "verdict": verdict, "why": why, "log": st.log, "value": v if is_pos(v) else None, "shadow": shadow})
            vs = {p["verdict"] for p in paths}
            out[b] = {"paths": paths, "verdict": "bad" if "bad" in vs else ("unk" if "unk" in vs else "ok")}
        vv = [o["verdict"] for o in out.values()]
        verdict = "ok" if "ok" in vv else ("bad" if all(x == "bad" for x in vv) else "unk")
        return {"status": "decided", "vars": out, "verdict": verdict, "back_paths": len(self.backs)}

    def back(self, how, st):
        self.backs.append((how, st))

    def tick(self, n=1):
        self.npaths += n
        if self.npaths > self.MAXPATHS * 40:
            raise TooManyPaths()

    # ------------------------------------------------------------------------------------------------ parser-valued locals
    def _parser_locals(self):
        """locals of the enclosing function that hold a parser: `let p = alt((a, b));` / a vector of boxed alternatives for alt_best"""
        if self.parser_bindings is not None:
            return
        self.parser_bindings = {}
        from lib.facts import find
        for st in find(self.fn_body, "let"):
            if len(st) < 3 or st[2] is None:
                continue
            pv = self.parser_value(st[2])
            if pv is None:
                continue
            bs = self.sc.decl.get(id(st), [])
            core = st[1][1] if is_node(st[1]) and st[1][0] == "ptype" else st[1]
            if len(bs) == 1 and is_node(core) and core[0] == "pident":
                self.parser_bindings[bs[0]] = pv

    def env_for(self, node):
        envb = self.sc.env_at.get(id(node)) or {}
        return {n: self.parser_bindings[b][1] for n, b in envb.items() if b in (self.parser_bindings or {})}

    def parser_value(self, init):
        """("parser", cls, dn, sig) when `init` is a parser-valued expression the nullability analysis can classify (never an application)"""
        if not is_node(init) or init[0] not in ("call", "closure"):
            return None
        if init[0] == "call" and self.N.is_application(init):
            return None
        env = self.env_for(init) if init[0] == "call" else {}
        c = self.N.classify(init, env)
        if c == "?" and init[0] == "call":
            from lib.facts import find
            clos = []
            for tp in find(init, "tuple"):
                if len(tp[1]) == 2 and is_node(tp[1][0]) and tp[1][0][0] == "str" and is_node(tp[1][1]) and tp[1][1][0] == "call" and path_of(tp[1][1][1]) == "Box::new" and tp[1][1][2]:
                    clos.append(tp[1][1][2][0])
            if clos:
                cs = [self.N.classify(x, env) for x in clos]
                c = "C" if all(y == "C" for y in cs) else "?"
        if c not in ("C", "N"):
            return None
        return ("parser", c, c != "C" and self.N.dn_expr(init, self.dn), head_sig(init))

    def classify_callee(self, call, st):
        """(cls, definitely_nullable, sig) of the parser applied by `call`"""
        f = call[1]
        if is_node(f) and f[0] == "path":
            b = self.sc.use.get(id(f))
            if b is not None:
                pv = st.vals.get(b) or self.parser_bindings.get(b)
                if isinstance(pv, tuple) and pv and pv[0] == "parser":
                    return pv[1], pv[2], pv[3]
                return "?", False, "local-parser"
            if (f[1].split("::")[-1]).endswith("alt_best") and len(call[2]) == 2:
                v = call[2][1]
                while is_node(v) and v[0] == "ref":
                    v = v[2]
                vb = self.sc.use.get(id(v)) if is_node(v) else None
                pv = (st.vals.get(vb) or self.parser_bindings.get(vb)) if vb is not None else None
                if isinstance(pv, tuple) and pv and pv[0] == "parser":
                    return pv[1], pv[2], "alt_best"
            c = self.N.classify(f, {})
            return c, c != "C" and self.N.dn_expr(f, self.dn), head_sig(f)
        env = self.env_for(call)
        c = self.N.classify(f, env)
        return c, c != "C" and self.N.dn_expr(f, self.dn), head_sig(f)

    # ------------------------------------------------------------------------------------------------ statements
    def dedupe(self, outs):
        seen = set()
        r = []
        for v, st in outs:
            k = (v, st.key())
            if k not in seen:
                seen.add(k)
                r.append((v, st))
        if len(r) > self.MAXPATHS:
            raise TooManyPaths()
        return r

    def block(self, stmts, st):
        cur = [(None, st)]
        n = len(stmts)
        for i, s in enumerate(stmts):
            nxt = []
            last_value = i == n - 1 and is_node(s) and s[0] == "expr" and not (len(s) > 2 and s[2])
            for _, st1 in cur:
                for v, st2 in self.stmt(s, st1):
                    nxt.append((v if last_value else None, st2))
            cur = self.dedupe(nxt)
            self.tick(len(cur))
            if not cur:
                break
        return cur

    def stmt(self, s, st):
        if not is_node(s):
            return [(None, st)]
        if s[0] == "let":
            pat, init = s[1], s[2] if len(s) > 2 else None
            els = s[3] if len(s) > 3 else None
            if init is None:
                return [(None, self.bind(pat, None, st, s))]
            outs = []
            pv = self.parser_value(init)
            for v, st1 in self.ev(init, st):
                if els is not None:
                    self.ev(els, st1)      # `let P = e else { .. }`: the else block leaves (or continues: recorded by ev)
                if v is None and pv is not None:
                    v = pv
                outs.append((None, self.bind(pat, v, st1, s)))
            return outs
        if s[0] == "expr":
            return self.ev(s[1], st)
        return [(None, st)]

    # ------------------------------------------------------------------------------------------------ patterns
    def bind(self, pat, v, st, owner):
        names = {}
        for b in self.sc.decl.get(id(owner), []):
            names[b.name] = b
        if not names:
            return st
        vals = dict(st.vals)
        self._bind(pat, v, vals, names)
        return St(vals, st.log)

    @staticmethod
    def feasible(pat, v):
        """False when the value is known to be built by the other constructor (`None` against `Some(..)`, `Err(..)` against `Ok(..)`)"""
        while is_node(pat) and pat[0] in ("ptype", "pref"):
            pat = pat[1] if pat[0] == "ptype" else pat[2]
        if not (is_node(pat) and isinstance(v, tuple) and v):
            return True
        if pat[0] == "pts":
            ctor = pat[1].split("::")[-1]
            if ctor == "Some" and v[0] == "none":
                return False
            if ctor == "Ok" and v[0] == "err":
                return False
            if ctor == "Err" and v[0] == "okc":
                return False
        if pat[0] in ("ppath", "pident") and pat[1].split("::")[-1] == "None" and v[0] == "opt":
            return False
        return True

    def _bind(self, pat, v, vals, names):
        if not is_node(pat):
            return
        t = pat[0]
        if t == "ptype":
            return self._bind(pat[1], v, vals, names)
        if t == "pref":
            return self._bind(pat[2], v, vals, names)
        if t == "pident":
            b = names.get(pat[1])
            if b is not None:
                vals[b] = v
            if pat[4] is not None:
                self._bind(pat[4], v, vals, names)
            return
        if t == "ptuple":
            elems = pat[1]
            ok = isinstance(v, tuple) and v and v[0] == "tup" and len(v[1]) == len(elems) and not any(is_node(x) and x[0] == "prest" for x in elems)
            for i, x in enumerate(elems):
                self._bind(x, v[1][i] if ok else None, vals, names)
            return
        if t == "pts":
            ctor = pat[1].split("::")[-1]
            inner = None
            if isinstance(v, tuple) and v and len(pat[2]) == 1:
                if ctor == "Ok" and v[0] == "res":
                    inner = v[1]
                elif ctor == "Some" and v[0] == "opt":
                    inner = v[1]
            for x in pat[2]:
                self._bind(x, inner if len(pat[2]) == 1 else None, vals, names)
            return
        if t == "por":
            for x in pat[1]:
                self._bind(x, v, vals, names)
            return
        # anything else (struct / slice patterns ..): the names are bound to something this analysis does not track
        from lib.facts import find
        for q in find(pat, "pident"):
            b = names.get(q[1])
            if b is not None:
                vals[b] = None

    # ------------------------------------------------------------------------------------------------ conditions
    def cond(self, c, st):
        """-> [(truth, state)] : both outcomes of the condition, with pattern bindings / cursor refinements applied to the state"""
        if not is_node(c):
            return [(True, st), (False, st)]
        t = c[0]
        if t == "letc":
            outs = []
            for v, st1 in self.ev(c[2], st):
                if self.feasible(c[1], v):
                    outs.append((True, self.bind(c[1], v, st1, c)))
                outs.append((False, st1))
            return outs
        if t == "bin" and c[1] in ("&&", "||"):
            short = c[1] == "||"
            outs = []
            for tr, st1 in self.cond(c[2], st):
                if tr == short:
                    outs.append((tr, st1))
                else:
                    outs.extend(self.cond(c[3], st1))
            return outs
        if t == "un" and c[1] == "!":
            return [(not tr, s) for tr, s in self.cond(c[2], st)]
        outs = []
        for v, st1 in self.ev(c, st):
            if isinstance(v, tuple) and v and v[0] == "bool":
                outs.append((bool(v[1]), st1))
                continue
            outs.append((True, self.refine(v, True, st1)))
            outs.append((False, self.refine(v, False, st1)))
        return outs

    def refine(self, v, truth, st):
        if not (isinstance(v, tuple) and v):
            return st
        if v[0] == "not":
            return self.refine(v[1], not truth, st)
        if v[0] != "cmp":
            return st
        op, l, r = v[1], v[2], v[3]
        if l[2] != r[2]:
            return st
        if l[2] < 0:
            # remaining lengths: a.len() OP b.len()  <=>  b.cursor OP a.cursor
            l, r = r, l
        if not truth:
            op = NEG[op]
        if op == "<":
            op, l, r = ">", r, l
        if op == "!=":
            # X != Y where one side IS the loop head position and the other is known to lie at or behind it
            for x, y in ((l, r), (r, l)):
                yp, xp = y[1], x[1]
                if is_pos(yp) and yp[2] == SAME and not yp[3] and is_pos(xp) and xp[1] is yp[1]:
                    return self._advance(x, yp, st)
            return st
        if op == ">":
            if is_pos(r[1]):
                return self._advance(l, r[1], st)
        return st

    def _advance(self, x, ypos, st):
        """the position read through x lies strictly behind ypos (>= head of ypos's base): the binding it was read from is advanced"""
        b, snap = x[3], x[4]
        if b is None:
            return st
        cur = st.vals.get(b, "unassigned")
        if cur != snap or snap == "unassigned":
            # (a binding not assigned on this path still IS the head position: nothing to refine, the branch is infeasible or unrelated)
            return st
        trail = (x[1][3] if is_pos(x[1]) else ()) + (("cursor-test", "C"),)
        return st.set(b, ("pos", ypos[1], ADV, trail))

    # ------------------------------------------------------------------------------------------------ expressions
    def place(self, e):
        """binding a place expression reads (through & / * / .clone())"""
        while is_node(e):
            if e[0] == "ref":
                e = e[2]
            elif e[0] == "un" and e[1] == "*":
                e = e[2]
            elif e[0] == "mcall" and e[2] in PASS_METHODS and not e[4]:
                e = e[1]
            else:
                break
        if is_node(e) and e[0] == "path":
            return self.sc.use.get(id(e))
        return None

    def read(self, b, st):
        if b is None:
            return None, "none"
        if b in st.vals:
            return st.vals[b], st.vals[b]
        if id(b.owner) not in self.inner:
            # a binding declared outside the loop, not assigned on this path: it still holds what it held at the loop head
            return ("pos", b, SAME, ()), "unassigned"
        return None, "unassigned"

    def ev_seq(self, exprs, st):
        """evaluate expressions left to right -> [([values], state)]"""
        cur = [([], st)]
        for e in exprs:
            nxt = []
            for vs, st1 in cur:
                for v, st2 in self.ev(e, st1):
                    nxt.append((vs + [v], st2))
            cur = nxt
            if len(cur) > self.MAXPATHS:
                raise TooManyPaths()
        return cur

    def ev(self, e, st):
        if not is_node(e):
            if isinstance(e, list):
                return [(None, s) for _, s in self.ev_seq([x for x in e if isinstance(x, list)], st)]
            return [(None, st)]
        m = getattr(self, "ev_" + e[0], None)
        if m is not None:
            return m(e, st)
        kids = [x for x in e[1:] if isinstance(x, list)]
        return [(None, s) for _, s in self.ev_seq(kids, st)]

    def ev_path(self, e, st):
        b = self.sc.use.get(id(e))
        if b is None:
            if e[1].split("::")[-1] == "None":
                return [(("none",), st)]
            return [(None, st)]
        return [(self.read(b, st)[0], st)]

    def ev_bool(self, e, st):
        return [(("bool", bool(e[1])), st)]

    def ev_int(self, e, st):
        return [(None, st)]

    ev_str = ev_char = ev_lit = ev_macro = ev_item = ev_infer = ev_verbatim = ev_unknown = ev_int

    def ev_ref(self, e, st):
        outs = self.ev(e[2], st)
        if e[1]:
            # `&mut x` handed to something this analysis does not follow (mem::replace, a helper that advances in place): x is untracked afterwards
            b = self.place(e[2])
            if b is not None:
                outs = [(v, s.set(b, None) if is_pos(self.read(b, s)[0]) else s) for v, s in outs]
        return outs

    def ev_un(self, e, st):
        outs = []
        for v, s in self.ev(e[2], st):
            if e[1] == "*":
                outs.append((v, s))
            elif e[1] == "!" and isinstance(v, tuple) and v and v[0] in ("cmp", "not"):
                outs.append((("not", v), s))
            elif e[1] == "!" and isinstance(v, tuple) and v and v[0] == "bool":
                outs.append((("bool", not v[1]), s))
            else:
                outs.append((None, s))
        return outs

    def ev_cast(self, e, st):
        return [(None, s) for _, s in self.ev(e[1], st)]

    def ev_tuple(self, e, st):
        return [(("tup", tuple(vs)), s) for vs, s in self.ev_seq(e[1], st)]

    def ev_block(self, e, st):
        return self.block(e[1], st)

    ev_unsafe = ev_block

    def ev_async(self, e, st):
        return [(None, self.havoc(e, st))]

    def ev_try(self, e, st):
        outs = []
        for v, s in self.ev(e[1], st):
            if isinstance(v, tuple) and v and v[0] in ("res", "opt"):
                outs.append((v[1], s))
            elif isinstance(v, tuple) and v and v[0] == "err":
                continue
            else:
                outs.append((None, s))
        return outs

    def ev_continue(self, e, st):
        self.back("continue", st)
        return []

    def ev_break(self, e, st):
        if len(e) > 1 and e[1] is not None:
            self.ev(e[1], st)
        return []

    def ev_ret(self, e, st):
        if len(e) > 1 and e[1] is not None:
            self.ev(e[1], st)
        return []

    def ev_field(self, e, st):
        if e[2] == "cursor":
            b = self.place(e[1])
            if b is not None:
                v, snap = self.read(b, st)
                return [(("cur", v if is_pos(v) else None, 1, b, snap), st)]
        outs = []
        for v, s in self.ev(e[1], st):
            if isinstance(v, tuple) and v and v[0] == "tup" and str(e[2]).isdigit() and int(e[2]) < len(v[1]):
                outs.append((v[1][int(e[2])], s))
            else:
                outs.append((None, s))
        return outs

    def ev_bin(self, e, st):
        op = e[1]
        if op.endswith("=") and op not in CMP_OPS:
            # compound assignment: the target no longer holds a tracked value
            outs = []
            b = self.place(e[2])
            for _, s in self.ev(e[3], st):
                if b is not None and is_pos(self.read(b, s)[0]):
                    s = s.set(b, None)
                outs.append((None, s))
            return outs
        outs = []
        for vs, s in self.ev_seq([e[2], e[3]], st):
            l, r = vs
            if op in CMP_OPS and all(isinstance(x, tuple) and x and x[0] == "cur" for x in (l, r)):
                outs.append((("cmp", op, l, r), s))
            else:
                outs.append((None, s))
        return outs

    def ev_assign(self, e, st):
        tgt = e[1]
        outs = []
        for v, s in self.ev(e[2], st):
            if is_node(tgt) and tgt[0] == "path":
                b = self.sc.use.get(id(tgt))
                outs.append((None, s.set(b, v) if b is not None else s))
            elif is_node(tgt) and tgt[0] == "tuple":
                # destructuring assignment `(a, b) = e`
                for i, x in enumerate(tgt[1]):
                    b = self.sc.use.get(id(x)) if is_node(x) and x[0] == "path" else None
                    if b is not None:
                        ok = isinstance(v, tuple) and v and v[0] == "tup" and len(v[1]) == len(tgt[1])
                        s = s.set(b, v[1][i] if ok else None)
                outs.append((None, s))
            else:
                # a write through a field / index / deref of a tracked binding: its position is no longer known
                b = self.place(tgt[1]) if is_node(tgt) and tgt[0] in ("field", "index") else (self.place(tgt) if is_node(tgt) else None)
                if b is not None and (b in s.vals or id(b.owner) not in self.inner) and is_pos(self.read(b, s)[0]):
                    s = s.set(b, None)
                outs.append((None, s))
        return outs

    def ev_if(self, e, st):
        outs = []
        for truth, s in self.cond(e[1], st):
            if truth:
                outs.extend(self.block(e[2], s))
            elif e[3] is None:
                outs.append((None, s))
            else:
                outs.extend(self.ev(e[3], s))
        return self.dedupe(outs)

    def ev_match(self, e, st):
        outs = []
        for v, s in self.ev(e[1], st):
            for arm in e[2]:
                if not self.feasible(arm[0], v):
                    continue
                s1 = self.bind(arm[0], v, s, arm)
                if arm[1] is not None:
                    for tr, s2 in self.cond(arm[1], s1):
                        if tr:
                            outs.extend(self.ev(arm[2], s2))
                else:
                    outs.extend(self.ev(arm[2], s1))
        return self.dedupe(outs)

    def ev_letc(self, e, st):
        # a `let` condition outside an if / while condition position (let chains are handled by cond)
        return [(None, s) for tr, s in self.cond(e, st)]

    MUTATORS = {"push", "append", "clear", "truncate", "insert", "remove", "extend", "pop"}

    def havoc(self, node, st):
        """a nested loop / closure is not followed: every binding it assigns (or borrows mutably, or consumes from in place) holds an
        untracked value afterwards"""
        from lib.facts import walk
        own = _all_list_ids(node, set())
        vals = None
        for n in walk(node):
            tgt = None
            if n[0] == "assign":
                tgt = n[1]
            elif n[0] == "bin" and n[1].endswith("=") and n[1] not in CMP_OPS:
                tgt = n[2]
            elif n[0] == "ref" and n[1]:
                tgt = n[2]
            elif n[0] == "mcall" and (n[2].startswith("consume_") or n[2] in self.MUTATORS):
                tgt = n[1]
            if tgt is None:
                continue
            if is_node(tgt) and tgt[0] == "tuple":
                bs = [self.place(x) for x in tgt[1]]
            else:
                while is_node(tgt) and tgt[0] in ("field", "index"):
                    tgt = tgt[1]
                bs = [self.place(tgt)]
            for b in bs:
                if b is None or id(b.owner) in own:
                    continue
                if vals is None:
                    vals = dict(st.vals)
                vals[b] = None
        return St(vals, st.log) if vals is not None else st

    def ev_loop(self, e, st):
        return [(None, self.havoc(e, st))]

    ev_while = ev_for = ev_loop

    def ev_closure(self, e, st):
        return [(None, self.havoc(e, st))]

    def ev_struct(self, e, st):
        kids = [f[1] for f in e[2]] + ([e[3]] if len(e) > 3 and e[3] is not None else [])
        return [(None, s) for _, s in self.ev_seq(kids, st)]

    def ev_call(self, e, st):
        f, args = e[1], e[2]
        fp = path_of(f)
        local_parser = False
        if fp is not None and "::" not in fp:
            b = self.sc.use.get(id(f))
            if b is not None:
                pv = st.vals.get(b) or self.parser_bindings.get(b)
                local_parser = isinstance(pv, tuple) and bool(pv) and pv[0] == "parser" and len(args) == 1
        if self.N.is_application(e) or local_parser:
            outs = []
            for vs, s in self.ev_seq(args, st):
                a0 = vs[0]
                cls, isdn, sig = self.classify_callee(e, s)
                s = s.logged(sig + ("[C]" if cls == "C" else ("[n]" if isdn else "[?]")))
                if is_pos(a0):
                    if not any(a0[1] is x for x in self.fed):
                        self.fed.append(a0[1])
                    lvl = ADV if (a0[2] == ADV or cls == "C") else (a0[2] if isdn else UNK)
                    rest = ("pos", a0[1], lvl, a0[3] + ((sig, cls),))
                else:
                    rest = None
                outs.append((("res", ("tup", (rest, None))), s))
            return outs
        if fp is not None and PANIC_CALL.search(fp):
            self.ev_seq(args, st)
            return []
        outs = []
        ctor = fp.split("::")[-1] if fp else None
        for vs, s in self.ev_seq(args, st):
            if ctor == "Ok" and len(vs) == 1:
                outs.append((("res", vs[0]), s))
            elif ctor == "Some" and len(vs) == 1:
                outs.append((("opt", vs[0]), s))
            elif ctor == "Err":
                outs.append((("err",), s))
            else:
                outs.append((None, s))
        return outs

    def ev_mcall(self, e, st):
        recv, name, args = e[1], e[2], e[4]
        if name == "len" and not args:
            b = self.place(recv)
            if b is not None:
                v, snap = self.read(b, st)
                if is_pos(v):
                    return [(("cur", v, -1, b, snap), st)]
        outs = []
        for vs, s in self.ev_seq([recv] + list(args), st):
            rv = vs[0]
            if name in PASS_METHODS and not args:
                outs.append((rv, s))
            elif name in ("unwrap", "expect") and isinstance(rv, tuple) and rv and rv[0] in ("res", "opt"):
                outs.append((rv[1], s))
            elif name == "map_err" and isinstance(rv, tuple) and rv and rv[0] == "res":
                outs.append((rv, s))
            elif name == "ok" and not args and isinstance(rv, tuple) and rv and rv[0] == "res":
                outs.append((("opt", rv[1]), s))
            elif name.startswith("consume_"):
                # in-place consumption on a ParseString: the binding may have advanced (never moves back)
                b = self.place(recv)
                if b is not None and is_pos(rv) and rv[2] == SAME:
                    s = s.set(b, ("pos", rv[1], UNK, rv[3] + ((name, "?"),)))
                outs.append((None, s))
            else:
                outs.append((None, s))
        return outs


def describe_path(p):
    """human text of one back path (for messages): the parsers applied on it, in order"""
    return " -> ".join(p["log"]) + " -> " + p["how"]


def path_key(p, tail=3):
    """name-free key of a back path: why + the last parsers applied on it + how it returns to the loop head"""
    sigs = [x.split("[")[0] for x in p["log"]]
    return "%s:%s>%s" % (p["why"], ">".join(sigs[-tail:]), p["how"])
