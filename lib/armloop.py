"""Shared structural checks for arm-selection loops (function arms, match arms, FSM arms) and field-use completeness (K6)."""
import re
from lib.facts import find, walk, is_node, path_of, render, render_pat, render_stmt


def top_stmts(block):
    return block if isinstance(block, list) else []


def arm_loops(fn_body, field_rx=r"\.(match_)?arms\b"):
    """`for` loops whose iterator mentions an arms field"""
    out = []
    for f in find(fn_body, "for"):
        if re.search(field_rx, render(f[2])):
            out.append(f)
    return out


def lets_in(stmts):
    """every `let` anywhere inside the statement list (nested blocks / match arms included)"""
    out = {}
    for st in find(stmts, "let"):
        if len(st) == 4 and is_node(st[1]):
            for p in find(st[1], "pident"):
                out.setdefault(p[1], st)
    return out


def matcher_calls(node, rx=r"pattern_matches\w*$"):
    out = []
    for c in find(node, "call"):
        p = path_of(c[1])
        if p and re.search(rx, p):
            out.append(c)
    return out


def mut_ref_args(call):
    """names passed as `&mut name` to a call"""
    out = []
    for a in call[2]:
        if is_node(a) and a[0] == "ref" and a[1] and path_of(a[2]):
            out.append(path_of(a[2]))
    return out


def ends_with_exit(stmts):
    """the statement list's last statement is a return / break (first match wins)"""
    if not stmts:
        return False
    last = stmts[-1]
    if last[0] == "expr":
        e = last[1]
        if is_node(e) and e[0] in ("ret", "break"):
            return True
        if is_node(e) and e[0] == "if" and e[3] is not None:
            return ends_with_exit(e[2]) and ends_with_exit(e[3][1] if e[3][0] == "block" else [["expr", e[3], False]])
        if is_node(e) and e[0] == "block":
            return ends_with_exit(e[1])
    return False


def check_arm_loop(rep, rule_prefix, fn_name, loop, env_kind="fresh"):
    """R1: forward order + first match exits; R2: environment fresh per arm and shared by matcher, guard and body"""
    itx = render(loop[2])
    key = "%s" % fn_name
    rep.check(not re.search(r"\.rev\(\)|rposition|\.last\(\)|rfold|sort", itx), rule_prefix + "-R1", "%s:forward-order" % key,
              "%s tries the arms as `%s` (not in source order)" % (fn_name, itx), sample={"fn": fn_name, "iterator": itx})
    body = loop[3]
    lets = lets_in(body)
    mc = matcher_calls(body)
    rep.check(len(mc) >= 1, rule_prefix + "-R2", "%s:matcher-called" % key, "%s: the arm loop does not call the pattern matcher" % fn_name)
    envs = set()
    for c in mc:
        for n in mut_ref_args(c):
            envs.add(n)
    for env in sorted(envs):
        st = lets.get(env)
        if st is None:
            # equally fine: an unconditional reset at the top level of the loop body before the matcher runs
            for top in body:
                if matcher_calls(top):
                    break
                if top[0] == "expr" and is_node(top[1]) and top[1][0] == "assign" and path_of(top[1][1]) == env:
                    st = top
                    break
        rep.check(st is not None, rule_prefix + "-R2", "%s:env-fresh-per-arm:%s" % (key, env),
                  "%s: the environment `%s` that the pattern matcher fills is not created inside the arm loop: bindings made while testing one arm leak into the test of the next arm (a later arm that should be the first match can be rejected)" % (fn_name, env),
                  sample={"fn": fn_name, "env": env, "declared": render_stmt(st)[:100] if st else None})
    # success branches: `if matched ... { ...; return/break }`
    succ = []
    for n in find(body, "if"):
        cond = render(n[1])
        if re.search(r"\bmatched\b|pattern_matched|guard_passes", cond) and not cond.strip().startswith("!"):
            succ.append(n)
    rep.check(len(succ) >= 1, rule_prefix + "-R1", "%s:success-branch" % key, "%s: no `if matched` success branch found in the arm loop" % fn_name)
    for n in succ:
        rep.check(ends_with_exit(n[2]), rule_prefix + "-R1", "%s:first-match-exits" % key,
                  "%s: the success branch of an arm does not end in return/break: later arms are still tried after a match" % fn_name)
    return envs, lets


def field_use(rep, rule, F, crate, fn_items, adts, enum_suffix, field_filter, only_if_any=True, exclude_fns=()):
    """K6: in every `match` arm `Enum::Variant(binder)` of the given functions, if the arm touches any relevant field of the
    variant's payload struct it must touch all of them."""
    enum = None
    structs = {}
    for a in adts:
        if a["name"].endswith(enum_suffix) and a["enum"]:
            enum = a
        if not a["enum"]:
            structs[a["name"]] = a
    if enum is None:
        rep.bad(rule, "anchor-lost:enum %s" % enum_suffix, "enum %s not found" % enum_suffix)
        return 0
    payload = {}
    for v in enum["variants"]:
        if len(v["fields"]) == 1:
            ty = v["fields"][0][1]
            ty = re.sub(r"^alloc::boxed::Box<(.*)>$", r"\1", ty)
            if ty in structs:
                payload[v["name"]] = structs[ty]
    n = 0
    ename = enum_suffix.split("::")[-1]
    for it in fn_items:
        if it["name"] in exclude_fns:
            continue
        for m in find(it["body"], "match"):
            for arm in m[2]:
                p = arm[0]
                alts = p[1] if p[0] == "por" else [p]
                for alt in alts:
                    if alt[0] == "pref":
                        alt = alt[2]
                    if alt[0] != "pts" or not alt[1].startswith(ename + "::") or len(alt[2]) != 1 or alt[2][0][0] != "pident":
                        continue
                    var = alt[1].split("::")[-1]
                    st = payload.get(var)
                    if st is None:
                        continue
                    binder = alt[2][0][1]
                    fields = [f[0] for f in st["variants"][0]["fields"] if field_filter(f)]
                    if len(fields) < 2:
                        continue
                    used = set()
                    for fa in find(arm[2], "field"):
                        base = fa[1]
                        while is_node(base) and base[0] in ("un", "ref", "paren"):
                            base = base[2]
                        if path_of(base) == binder:
                            used.add(fa[2])
                    rel_used = used & set(fields)
                    if only_if_any and not rel_used:
                        continue
                    n += 1
                    miss = [f for f in fields if f not in used]
                    rep.check(not miss, rule, "%s:%s::%s" % (it["name"], ename, var) if not miss else "%s:%s::%s:missing:%s" % (it["name"], ename, var, ",".join(miss)),
                              "%s: the arm for %s::%s(%s) reads %s but never reads %s: that part of the node is ignored" % (it["name"], ename, var, binder, sorted(rel_used), miss),
                              "expanded line %d" % arm[3], sample={"fn": it["name"], "variant": var, "fields": fields})
    return n
