"""K3 — kernel normal form: a small symbolic evaluator for `solve` bodies of generated function structs.

A body is evaluated over an abstract domain (roots = the storage objects behind the struct's fields, element
reads/writes with symbolic indices, loop and zip iteration variables, running counters) into a list of write
effects   target[index] := value   under loops / conditions. Bodies using an idiom the evaluator does not know
raise Unrecognised; they are never reported as violations."""
import re
from lib.facts import is_node, path_of, render, render_stmt


class Unrecognised(Exception):
    pass


COMMUTATIVE = {"+", "*", "==", "!=", "&&", "||", "^", "&", "|", "min", "max", "xor"}

# nalgebra whole-object methods: name -> (operator, receiver is left operand, index of out arg or None (returns value))
NA_TO = {"add_to": "+", "sub_to": "-", "cmpy_to": None}
NA_VAL = {"component_mul": "*", "component_div": "/", "add_scalar": "+"}


class Eff:
    def __init__(self, target, value, loops, conds, kind="write"):
        self.target = target
        self.value = value
        self.loops = list(loops)
        self.conds = list(conds)
        self.kind = kind

    def __repr__(self):
        return "%s %s := %s  loops=%s conds=%s" % (self.kind, show(self.target), show(self.value), [show(l) for l in self.loops], [show(c) for c in self.conds])


def show(v):
    if isinstance(v, tuple):
        t = v[0]
        if t == "root":
            return v[1]
        if t == "elem":
            return "%s[%s]" % (show(v[1]), ",".join(show(i) for i in v[2]))
        if t == "sub":
            return "%s.%s(%s)" % (show(v[2]), v[1], show(v[3]))
        if t == "var":
            return v[1]
        if t == "int":
            return str(v[1])
        if t == "op":
            return "(%s %s %s)" % (show(v[2]), v[1], show(v[3]))
        if t == "un":
            return "%s%s" % (v[1], show(v[2]))
        if t == "len":
            return "len(%s)" % show(v[1])
        if t in ("nrows", "ncols"):
            return "%s(%s)" % (t, show(v[1]))
        if t == "call":
            return "%s.%s(%s)" % (show(v[2]), v[1], ",".join(show(a) for a in v[3]))
        if t == "tuple":
            return "(%s)" % ",".join(show(a) for a in v[1])
        if t == "range":
            return "%s..%s%s" % (show(v[2]), "=" if v[4] else "", show(v[3]))
        if t == "zip":
            return "zip(%s)" % ",".join(show(a) for a in v[2])
        if t == "iter":
            return "iter(%s)" % show(v[2])
        if t == "whole":
            return "%s[*]" % show(v[1])
        if t == "counter":
            return "#" + v[1]
        if t == "field":
            return "self." + v[1]
        if t == "cast":
            return show(v[2])
        return "<%s>" % ",".join(str(x) if not isinstance(x, tuple) else show(x) for x in v)
    return str(v)


class Kernel:
    def __init__(self, body, fields):
        self.fields = [f[0] for f in fields]
        self.effects = []
        self.nvar = 0
        self.loops = []
        self.conds = []
        self.counters = {}
        self.mut_locals = set()
        self.resizes = []
        self.counter_dirty = set()      # counters updated since their `let` (their value is no longer the literal they were initialised with)
        self.counter_depth = {}         # counter -> loop nesting depth of its `let`
        env = {}
        self.block(body, env)

    # ---------------- helpers
    def fresh(self, base="it"):
        self.nvar += 1
        return ("var", "%s%d" % (base, self.nvar))

    def block(self, stmts, env):
        env = dict(env)
        val = None
        pushed = 0
        for st in stmts:
            # guard clause `if c { continue; }` == the rest of the block under `!c` (== the nested `if !c { rest }`)
            e = st[1] if (is_node(st) and st[0] == "expr") else None
            if is_node(e) and e[0] == "if" and e[3] is None and self.loops:
                then = e[2][1] if (is_node(e[2]) and e[2][0] == "block") else e[2]
                if isinstance(then, list) and len(then) == 1 and is_node(then[0]) and then[0][0] == "expr" and is_node(then[0][1]) and then[0][1][0] == "continue":
                    c = self.expr(e[1], env)
                    neg = c[2] if (isinstance(c, tuple) and len(c) == 3 and c[0] == "un" and c[1] == "!") else ("un", "!", c)
                    self.conds.append(neg)
                    pushed += 1
                    continue
            val = self.stmt(st, env)
        for _ in range(pushed):
            self.conds.pop()
        return val

    def bind(self, pat, val, env, mutable=False):
        t = pat[0]
        if t == "ptype":
            return self.bind(pat[1], val, env, mutable)
        if t == "pident":
            env[pat[1]] = val
            if pat[3]:
                self.mut_locals.add(pat[1])
            return
        if t == "pwild":
            return
        if t == "ptuple":
            if isinstance(val, tuple) and val[0] == "tuple" and len(val[1]) == len(pat[1]):
                for p, v in zip(pat[1], val[1]):
                    self.bind(p, v, env, mutable)
                return
            if isinstance(val, tuple) and val[0] == "call" and val[1] == "shape" and len(pat[1]) == 2:
                self.bind(pat[1][0], ("nrows", val[2]), env)
                self.bind(pat[1][1], ("ncols", val[2]), env)
                return
            if isinstance(val, tuple) and val[0] == "elem" and len(pat[1]) == 2 and len(val[2]) == 1 and re.search(r"\.data(\(\))?$", show(val[1])):
                # iteration over a table's column map: (column id, (kind, column matrix))
                owner = root_of(val[1]) or show(val[1])
                v = val[2][0]
                self.bind(pat[1][0], ("colkey", v), env)
                self.bind(pat[1][1], ("tuple", [("colkind", owner, v), ("column", owner, v)]), env)
                return
            raise Unrecognised("tuple pattern against %s" % show(val))
        if t == "pref":
            return self.bind(pat[2], val, env, mutable)
        raise Unrecognised("pattern %s" % t)

    def stmt(self, st, env):
        k = st[0]
        if k == "let":
            if st[2] is None:
                self.bind(st[1], ("undef",), env)
                return None
            v = self.expr(st[2], env)
            init = st[2]
            while is_node(init) and init[0] in ("cast", "paren"):
                init = init[1]
            pp = st[1]
            while pp[0] == "ptype":
                pp = pp[1]
            if is_node(init) and init[0] == "un" and init[1] == "*" and pp[0] == "pident" and pp[3] and isinstance(v, tuple) and v[0] in ("root", "elem"):
                # `let [mut] x = *ptr;` copies the value out of the cell: x is a value, not a place
                v = ("copy", v)
            self.bind(st[1], v, env)
            # mutable integer locals become running counters when incremented in loops
            p = st[1]
            while p[0] == "ptype":
                p = p[1]
            if p[0] == "pident" and p[3] and isinstance(v, tuple) and v[0] == "int":
                self.counters[p[1]] = v[1]
                env[p[1]] = ("counter", p[1], v[1])
                self.counter_dirty.discard(p[1])
                self.counter_depth[p[1]] = len(self.loops)
            return None
        if k == "expr":
            v = self.expr(st[1], env)
            return None if st[2] else v
        if k == "item":
            return None
        raise Unrecognised("statement %s" % k)

    def place(self, e, env):
        v = self.expr(e, env)
        return v

    def emit(self, target, value, kind="write"):
        if kind == "counter" and isinstance(target, tuple) and len(target) > 1:
            self.counter_dirty.add(target[1])
        self.effects.append(Eff(target, value, self.loops, self.conds, kind))

    def counted_while(self, e, env):
        """`let mut c = K; while c < hi { BODY; c += 1 }` is the counted loop `for c in K..hi { BODY }` when c still holds K at the loop (not updated since its
        `let`, declared at the same loop depth), BODY neither assigns / borrows mutably / shadows c nor leaves the loop early (break / continue / return / `?`),
        and hi does not mention c and is invariant in BODY (no local it reads is updated, no object whose extent it reads is resized or replaced).
        Then the loop is evaluated exactly as that `for` loop (same `range` loop descriptor, c bound to the iteration variable) and True is returned.
        In every other case nothing is changed and False is returned (the caller keeps the opaque `while` descriptor and the counter effect)."""
        cond, body = e[1], e[2]
        while is_node(cond) and cond[0] == "paren":
            cond = cond[1]
        if not (is_node(cond) and cond[0] == "bin" and cond[1] in ("<", "<=", ">", ">=")) or not body:
            return False
        op, a, b = cond[1], cond[2], cond[3]
        if op in (">", ">="):
            op, a, b = {">": "<", ">=": "<="}[op], b, a
        while is_node(a) and a[0] in ("paren", "cast"):
            a = a[1]
        c = path_of(a)
        cv = env.get(c) if c else None
        if not (isinstance(cv, tuple) and cv[0] == "counter" and cv[1] == c and c not in self.counter_dirty and self.counter_depth.get(c) == len(self.loops)):
            return False
        if any(x[1] == c for x in _find(b, "path")):
            return False
        last, rest = body[-1], body[:-1]
        if not (last[0] == "expr" and _is_increment(last[1], c)):
            return False
        for n in _walk(rest):
            if n[0] in ("break", "continue", "ret", "try", "closure"):
                return False
            if n[0] == "bin" and n[1].endswith("=") and n[1] not in ("==", "!=", "<=", ">=") and path_of(n[2]) == c:
                return False
            if n[0] == "assign" and path_of(n[1]) == c:
                return False
            if n[0] in ("ref", "rawaddr") and n[1] and path_of(n[2]) == c:
                return False
            if n[0] == "pident" and n[1] == c:
                return False
            if n[0] == "macro" and re.search(r"\b%s\b" % re.escape(c), str(n[2])):
                return False
        snap = (len(self.effects), self.nvar, dict(self.counters), set(self.mut_locals), len(self.resizes), set(self.counter_dirty), dict(self.counter_depth))

        def restore():
            del self.effects[snap[0]:]
            self.nvar, self.counters, self.mut_locals = snap[1], snap[2], snap[3]
            del self.resizes[snap[4]:]
            self.counter_dirty, self.counter_depth = snap[5], snap[6]
        depth = len(self.loops)
        try:
            hi = self.expr(b, env)
            v = self.fresh("i")
            self.loops.append(("range", v, ("int", cv[2]), hi, op == "<="))
            env2 = dict(env)
            env2[c] = v
            self.block(rest, env2)
        except Unrecognised:
            del self.loops[depth:]
            restore()
            return False
        del self.loops[depth:]
        read_locals = {x[1] for x in _find(b, "path")}
        read_roots = roots_in(hi)
        for eff in self.effects[snap[0]:]:
            tg = eff.target
            if eff.kind in ("local", "counter") and isinstance(tg, tuple) and len(tg) > 1 and tg[1] in read_locals:
                restore()
                return False
            if isinstance(tg, tuple) and tg and tg[0] != "elem" and root_of(tg) in read_roots:
                restore()
                return False
        # after the loop c holds the bound (or K when the loop never ran): an ordinary value, no longer the literal
        env[c] = ("op", "max", ("int", cv[2]), hi if op == "<" else ("op", "+", hi, ("int", 1)))
        self.counter_dirty.add(c)
        return True

    def iter_items(self, e, env):
        """evaluate an iterator expression; returns (loop descriptor, item value)"""
        if is_node(e) and e[0] == "path" and e[1] in env and re.search(r"\b(filter|filter_map|flat_map|take_while|skip_while|scan)\(", show(env[e[1]])):
            # a named local holding a closure selection (`let selected = xs.iter().enumerate().filter(..).map(..)`) that is then iterated: the selection is not modelled -
            # unrecognised, never a made-up normal form
            raise Unrecognised("iteration over a closure selection held in a local")
        if is_node(e) and e[0] == "range":
            lo = self.expr(e[1], env) if e[1] is not None else ("int", 0)
            hi = self.expr(e[2], env) if e[2] is not None else ("inf",)
            v = self.fresh("i")
            return ("range", v, lo, hi, e[3]), v
        if is_node(e) and e[0] == "mcall":
            recv, m, args = e[1], e[2], e[4]
            if m in ("filter", "filter_map", "flat_map", "take_while", "skip_while", "scan") or (m == "map" and any(is_node(a) and a[0] == "closure" for a in args)):
                raise Unrecognised("iterator pipeline with a `%s` closure" % m)
            if m == "enumerate" and is_node(recv) and recv[0] == "mcall" and (recv[2] in ("filter", "filter_map", "flat_map", "take_while", "skip_while", "scan") or (recv[2] == "map" and any(is_node(a) and a[0] == "closure" for a in recv[4]))):
                raise Unrecognised("iterator pipeline with a `%s` closure" % recv[2])
            if m in ("iter", "iter_mut", "into_iter"):
                r = self.expr(recv, env)
                v = self.fresh("it")
                if isinstance(r, tuple) and r[0] == "range":
                    return r[:1] + (v,) + r[2:], v
                return ("iter", v, r), self.item_of(r, v)
            if m in ("column_iter", "column_iter_mut"):
                r = self.expr(recv, env)
                v = self.fresh("c")
                return ("cols", v, r), ("sub", "col", r, v)
            if m in ("row_iter", "row_iter_mut"):
                r = self.expr(recv, env)
                v = self.fresh("r")
                return ("rows", v, r), ("sub", "row", r, v)
            if m == "zip":
                l1, i1 = self.iter_items(recv, env)
                l2, i2 = self.iter_items(args[0], env)
                # share one iteration variable
                v = l1[1]
                i2 = subst(i2, l2[1], v)
                l2 = subst(l2, l2[1], v)
                colls = (l1[2] if l1[0] == "zip" else [l1]) + (l2[2] if l2[0] == "zip" else [l2])
                return ("zip", v, colls), ("tuple", [i1, i2])
            if m == "enumerate":
                l1, i1 = self.iter_items(recv, env)
                return l1, ("tuple", [l1[1], i1])
            if m in ("rev", "skip", "step_by", "take", "filter", "map", "chain"):
                raise Unrecognised("iterator adaptor %s" % m)
            if m in ("clone", "borrow", "as_ref"):
                return self.iter_items(recv, env)
        if is_node(e) and e[0] in ("ref", "paren"):
            return self.iter_items(e[2], env)
        if is_node(e) and e[0] == "un" and e[1] == "*":
            return self.iter_items(e[2], env)
        # iterating a collection value directly (`for x in v`)
        r = self.expr(e, env)
        if isinstance(r, tuple) and r[0] == "range":
            v = self.fresh("i")
            return ("range", v, r[2], r[3], r[4]), v
        v = self.fresh("it")
        return ("iter", v, r), self.item_of(r, v)

    def item_of(self, coll, v):
        if isinstance(coll, tuple) and coll[0] in ("root", "sub", "elem", "call", "whole"):
            if coll[0] == "sub":
                if coll[1] == "col":
                    return ("elem", coll[2], (v, coll[3]))
                return ("elem", coll[2], (coll[3], v))
            return ("elem", coll, (v,))
        raise Unrecognised("iteration over %s" % show(coll))

    # ---------------- expressions
    def expr(self, e, env):
        if e is None:
            return ("unit",)
        t = e[0]
        if t == "path":
            n = e[1]
            if n in env:
                return env[n]
            if n == "self":
                return ("self",)
            return ("name", n)
        if t == "int":
            return ("int", int(e[1]))
        if t in ("bool", "str", "lit", "char"):
            return ("const", e[1])
        if t == "field":
            b = self.expr(e[1], env)
            if b == ("self",):
                return ("field", e[2])
            if isinstance(b, tuple) and b[0] == "field" and e[2].isdigit():
                return ("field", "%s.%s" % (b[1], e[2]))
            if isinstance(b, tuple) and b[0] == "tuple" and e[2].isdigit():
                return b[1][int(e[2])]
            return ("call", "." + e[2], b, [])
        if t in ("ref", "rawaddr"):
            return self.expr(e[2], env)
        if t == "un":
            v = self.expr(e[2], env)
            if e[1] == "*":
                return v
            return ("un", e[1], v)
        if t == "cast":
            return self.expr(e[1], env)
        if t in ("block", "unsafe"):
            return self.block(e[1], env)
        if t == "tuple":
            return ("tuple", [self.expr(x, env) for x in e[1]])
        if t == "index":
            b = self.expr(e[1], env)
            i = self.expr(e[2], env)
            return self.index(b, i)
        if t == "bin":
            op = e[1]
            if op.endswith("=") and op not in ("==", "!=", "<=", ">="):
                tgt = self.expr(e[2], env)
                val = self.expr(e[3], env)
                bop = op[:-1]
                ln = path_of(e[2])
                if ln and ln in env and ln in self.mut_locals and root_of(tgt) is None and not (isinstance(tgt, tuple) and tgt[0] == "counter"):
                    # update of a plain local variable (running offset, accumulator): not an effect on any cell
                    env[ln] = ("op", bop, tgt, val)
                    self.emit(("local", ln), env[ln], kind="local")
                    return ("unit",)
                if isinstance(tgt, tuple) and tgt[0] == "counter":
                    # running counter update
                    self.emit(tgt, ("op", bop, tgt, val), kind="counter")
                    return ("unit",)
                self.emit(tgt, ("op", bop, tgt, val))
                return ("unit",)
            return ("op", op, self.expr(e[2], env), self.expr(e[3], env))
        if t == "assign":
            tgt = self.expr(e[1], env)
            val = self.expr(e[2], env)
            ln = path_of(e[1])
            if ln and ln in env and ln in self.mut_locals and root_of(tgt) is None and not (isinstance(tgt, tuple) and tgt[0] == "counter"):
                env[ln] = val
                self.emit(("local", ln), val, kind="local")
                return ("unit",)
            if isinstance(tgt, tuple) and tgt[0] == "counter":
                self.emit(tgt, val, kind="counter")
                return ("unit",)
            self.emit(tgt, val)
            return ("unit",)
        if t == "range":
            lo = self.expr(e[1], env) if e[1] is not None else ("int", 0)
            hi = self.expr(e[2], env) if e[2] is not None else ("inf",)
            return ("range", None, lo, hi, e[3])
        if t == "for":
            loop, item = self.iter_items(e[2], env)
            env2 = dict(env)
            self.bind(e[1], item, env2)
            self.loops.append(loop)
            self.block(e[3], env2)
            self.loops.pop()
            return ("unit",)
        if t == "if":
            c = self.expr(e[1], env)
            self.conds.append(c)
            self.block(e[2], env)
            self.conds.pop()
            if e[3] is not None:
                self.conds.append(("un", "!", c))
                self.expr(e[3], env)
                self.conds.pop()
            return ("unit",)
        if t == "letc":
            v = self.expr(e[2], env)
            return ("op", "matches", v, ("const", render(e[1]) if False else "pat"))
        if t == "mcall" and e[2] == "for_each" and len(e[4]) == 1 and is_node(e[4][0]) and e[4][0][0] == "closure" and len(e[4][0][1]) == 1:
            # `ITER.for_each(|pat| body)` is the loop `for pat in ITER { body }` (same element order, no early exit)
            cl = e[4][0]
            body = cl[2][1] if (is_node(cl[2]) and cl[2][0] == "block") else [["expr", cl[2], True]]
            return self.expr(["for", cl[1][0], e[1], body], env)
        if t == "mcall":
            return self.mcall(e, env)
        if t == "call":
            f = path_of(e[1])
            args = [self.expr(a, env) for a in e[2]]
            if f:
                ls = f.split("::")[-1]
                if ls in ("from", "into", "Some", "Ok"):
                    return args[0] if args else ("unit",)
                if ls in ("drop",):
                    return ("unit",)
                if ls in ("min", "max") and len(args) == 2:
                    return ("op", ls, args[0], args[1])
                return ("call", f, ("unit",), args)
            raise Unrecognised("call of non-path")
        if t == "macro":
            n = e[1].split("::")[-1]
            if n in ("panic", "unreachable", "todo", "unimplemented", "assert", "assert_eq", "debug_assert"):
                self.emit(("panic",), ("const", n), kind="panic")
                return ("unit",)
            if n in ("println", "print", "eprintln", "format_args", "format"):
                return ("const", "fmt")
            raise Unrecognised("macro %s" % n)
        if t == "closure":
            return ("closure", e)
        if t == "ret":
            self.emit(("return",), self.expr(e[1], env) if e[1] is not None else ("unit",), kind="return")
            return ("unit",)
        if t in ("break", "continue"):
            self.emit((t,), ("unit",), kind=t)
            return ("unit",)
        if t == "while":
            if self.counted_while(e, env):
                return ("unit",)
            c = self.expr(e[1], env)
            self.loops.append(("while", self.fresh("w"), c))
            self.block(e[2], env)
            self.loops.pop()
            return ("unit",)
        if t == "loop":
            self.loops.append(("loop", self.fresh("w")))
            self.block(e[1], env)
            self.loops.pop()
            return ("unit",)
        if t == "match":
            s = self.expr(e[1], env)
            for arm in e[2]:
                self.conds.append(("op", "matches", s, ("const", str(arm[0])[:40])))
                env2 = dict(env)
                try:
                    self.bind_loose(arm[0], env2)
                    self.expr(arm[2], env2)
                finally:
                    self.conds.pop()
            return ("unit",)
        if t == "array":
            return ("tuple", [self.expr(x, env) for x in e[1]])
        if t == "struct":
            return ("call", "struct " + e[1], ("unit",), [self.expr(f[1], env) for f in e[2]])
        if t == "try":
            return self.expr(e[1], env)
        if t == "repeat":
            return ("call", "repeat", ("unit",), [self.expr(e[1], env)])
        raise Unrecognised("expression %s" % t)

    def bind_loose(self, pat, env):
        for p in _pat_idents(pat):
            env[p] = ("name", p)

    def index(self, b, i):
        if isinstance(i, tuple) and i[0] == "tuple":
            idx = tuple(i[1])
        else:
            idx = (i,)
        if isinstance(b, tuple):
            if b[0] == "sub":
                if len(idx) != 1:
                    raise Unrecognised("2-D index into a row/column view")
                if b[1] == "col":
                    return ("elem", b[2], (idx[0], b[3]))
                return ("elem", b[2], (b[3], idx[0]))
            if b[0] in ("root", "call", "name", "elem", "whole"):
                return ("elem", b, idx)
        raise Unrecognised("index into %s" % show(b))

    def mcall(self, e, env):
        recv = self.expr(e[1], env)
        m = e[2]
        args = [self.expr(a, env) for a in e[4]]
        if m in ("as_ptr", "as_mut_ptr", "borrow", "borrow_mut", "get_copyable_matrix"):
            if isinstance(recv, tuple) and recv[0] == "field":
                return ("root", recv[1])
            return recv
        if m in ("clone", "as_ref", "as_mut", "to_owned", "into", "unwrap", "deref", "deref_mut", "copied", "cloned", "expect"):
            if isinstance(recv, tuple) and recv[0] == "field":
                # self.x.clone() of a Ref: still that root
                return ("root", recv[1])
            return recv
        if m in ("get", "get_mut") and len(args) == 1 and isinstance(args[0], tuple) and args[0][0] == "colkey" and re.search(r"\.data(\(\))?$", show(recv)):
            owner = root_of(recv) or show(recv)
            return ("tuple", [("colkind", owner, args[0][1]), ("column", owner, args[0][1])])
        if m == "index1d" and len(args) == 1:
            return ("elem", recv, (("op", "-", args[0], ("int", 1)),))
        if m == "set_index1d" and len(args) == 2:
            self.emit(("elem", recv, (args[0],)), args[1])
            return ("unit",)
        if m == "insert" and len(args) == 2 and isinstance(args[0], tuple) and args[0][0] == "colkey":
            self.emit(("elem", recv, (args[0],)), args[1])
            return ("unit",)
        if m == "len":
            return ("len", recv)
        if m in ("nrows", "ncols"):
            return (m, recv)
        if m == "shape":
            return ("call", "shape", recv, [])
        if m == "neg":
            return ("un", "-", recv)
        if m == "not":
            return ("un", "!", recv)
        if m in ("pow", "powf", "powi"):
            return ("op", "pow", recv, args[0])
        if m in ("min", "max") and len(args) == 1:
            return ("op", m, recv, args[0])
        if m in NA_TO and len(args) == 2:
            op = NA_TO[m]
            if op is None:
                raise Unrecognised("nalgebra %s" % m)
            self.emit(("whole", args[1]), ("op", op, ("whole", recv), ("whole", args[0])))
            return ("unit",)
        if m in NA_VAL and len(args) == 1:
            a = args[0]
            if m == "add_scalar":
                return ("op", "+", ("whole", recv), a)
            return ("op", NA_VAL[m], ("whole", recv), ("whole", a))
        if m.startswith("copy_into") and len(args) == 2:
            # CopyMat::copy_into*(dst, offset) -> number of elements / rows copied
            self.emit(("whole", args[0]), ("copy", m, recv, args[1]), kind="copy")
            return ("copied", recv)
        if m in ("index", "get_unchecked", "index_mut") and len(args) == 1:
            return self.index(recv, args[0])
        if m in ("column", "column_mut") and len(args) == 1:
            return ("sub", "col", recv, args[0])
        if m in ("row", "row_mut") and len(args) == 1:
            return ("sub", "row", recv, args[0])
        if m in ("resize_vertically_mut", "resize_horizontally_mut", "resize_mut", "reshape_generic", "resize"):
            self.resizes.append((m, recv, args))
            self.emit(("whole", recv), ("call", m, recv, args), kind="resize")
            return ("unit",)
        if m in ("as_mut_slice", "as_slice", "as_mut", "as_mut_ptr_range") and not args:
            return recv
        if m in ("fill", "copy_from", "clone_from_slice", "copy_from_slice", "clone_from", "fill_with", "swap_with_slice", "rotate_left", "rotate_right", "reverse", "set_column", "set_row", "push", "extend", "insert", "clear", "append", "truncate", "remove", "retain", "swap", "sort", "dedup", "apply", "push_str", "shift_remove"):
            self.emit(("whole", recv), ("call", m, recv, args), kind="mutate")
            return ("unit",)
        if m in ("iter", "iter_mut"):
            return recv
        # an unknown `*_mut` method on X itself (transpose_mut, neg_mut, normalize_mut, ..): X is transformed in place
        if m.endswith("_mut") and m not in ("iter_mut", "as_mut", "get_mut", "index_mut", "column_mut", "row_mut", "borrow_mut", "as_mut_ptr", "as_mut_slice", "last_mut", "first_mut",
                                            "column_iter_mut", "row_iter_mut", "deref_mut", "rows_mut", "columns_mut", "view_mut", "slice_mut", "fixed_rows_mut", "fixed_columns_mut"):
            self.emit(("whole", recv), ("call", m, recv, args), kind="inplace")
            # ... and an argument handed over as `&mut Y` is transformed in place too (`a.lu().solve_mut(&mut out)`)
            for raw, a in zip(e[4], args):
                if is_node(raw) and raw[0] == "ref" and raw[1]:
                    self.emit(("whole", a), ("call", m, recv, args), kind="inplace")
            return ("unit",)
        # an unknown method handed `&mut X`: X is transformed in place (its previous value feeds its new one)
        for raw, a in zip(e[4], args):
            if is_node(raw) and raw[0] == "ref" and raw[1]:
                if m.endswith("_to"):
                    # nalgebra's `x.op_to(.., &mut out)` family stores the result of the operation into out (write-only)
                    self.emit(("whole", a), ("call", m, recv, [b for b in args if b is not a]))
                else:
                    self.emit(("whole", a), ("call", m, recv, args), kind="inplace")
        return ("call", m, recv, args)


def _walk(n):
    """every AST node below n (n may be a node or a list of statements)"""
    st = [n]
    while st:
        x = st.pop()
        if isinstance(x, list):
            if x and isinstance(x[0], str):
                yield x
            for y in reversed(x):
                if isinstance(y, list):
                    st.append(y)


def _find(n, tag):
    return (x for x in _walk(n) if x[0] == tag)


def _is_increment(e, c):
    """`c += 1`, `c = c + 1`, `c = 1 + c`"""
    def one(x):
        return is_node(x) and x[0] == "int" and re.match(r"1(_?[ui](8|16|32|64|128|size))?$", str(x[1])) is not None
    if not is_node(e):
        return False
    if e[0] == "bin" and e[1] == "+=" and path_of(e[2]) == c and one(e[3]):
        return True
    if e[0] == "assign" and path_of(e[1]) == c:
        r = e[2]
        while is_node(r) and r[0] == "paren":
            r = r[1]
        return is_node(r) and r[0] == "bin" and r[1] == "+" and ((path_of(r[2]) == c and one(r[3])) or (path_of(r[3]) == c and one(r[2])))
    return False


def _pat_idents(p):
    if not is_node(p):
        return
    if p[0] == "pident":
        yield p[1]
        if p[4]:
            yield from _pat_idents(p[4])
    for x in p[1:]:
        if isinstance(x, list):
            if is_node(x):
                yield from _pat_idents(x)
            else:
                for y in x:
                    if is_node(y):
                        yield from _pat_idents(y)
                    elif isinstance(y, list):
                        for z in y:
                            if is_node(z):
                                yield from _pat_idents(z)


def subst(v, old, new):
    if v == old:
        return new
    if isinstance(v, tuple):
        return tuple(subst(x, old, new) for x in v)
    if isinstance(v, list):
        return [subst(x, old, new) for x in v]
    return v


def roots_in(v, out=None):
    """all ('root', name) mentioned in a value"""
    if out is None:
        out = set()
    if isinstance(v, tuple):
        if v and v[0] == "root":
            out.add(v[1])
        for x in v:
            roots_in(x, out)
    elif isinstance(v, list):
        for x in v:
            roots_in(x, out)
    return out


def root_of(v):
    """the storage root a place value lives in, or None"""
    while isinstance(v, tuple):
        if v[0] == "root":
            return v[1]
        if v[0] in ("elem", "whole"):
            v = v[1]
        elif v[0] == "sub":
            v = v[2]
        elif v[0] == "call" and v[1] in (".0", ".1", "as_mut_slice", "as_slice", "data", "as_mut", "column_mut", "row_mut", "view_mut", "rows_mut", "columns_mut"):
            v = v[2]
        else:
            return None
    return None
