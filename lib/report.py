"""Rule runner plumbing: obligations, violations, known findings, floors, evidence."""
import json
import os
import time

VERIF = os.path.dirname(os.path.dirname(os.path.abspath(__file__)))


class Report:
    def __init__(self, prop, tier, seed):
        self.prop = prop
        self.tier = tier
        self.seed = seed
        self.t0 = time.time()
        self.obligations = 0
        self.discharged = 0
        self.instances = set()      # distinct (rule, key) with a non-empty fact set
        self.violations = []        # dicts: rule,key,msg,where,detail
        self.notes = {}             # evidence-only lists (unproven, latent, inactive, ...)
        self.samples = []
        self.rules = {}             # rule id -> description
        self.analysed = {}
        self.assumptions = []
        self.floors = []

    def rule(self, rid, text):
        self.rules[rid] = text

    def ok(self, rule, key, sample=None):
        self.obligations += 1
        self.discharged += 1
        self.instances.add((rule, key))
        if sample is not None and len([s for s in self.samples if s.get("rule") == rule]) < 3:
            self.samples.append({"rule": rule, "instance": key, "fact": sample})

    def bad(self, rule, key, msg, where="", detail=None):
        self.obligations += 1
        self.instances.add((rule, key))
        rs = self._reviewed()
        full = "%s|%s" % (rule, key)
        if full in rs:
            # individually reviewed site (reviewed_safe.json): exact key, one reason; counts as discharged
            self.discharged += 1
            self.note("reviewed_safe", {"key": full, "reason": rs[full]})
            return
        self.violations.append({"rule": rule, "key": "%s|%s" % (rule, key), "msg": msg, "where": where, "detail": detail})

    def _reviewed(self):
        if not hasattr(self, "_rs"):
            self._rs = {}
            p = os.path.join(VERIF, "reviewed_safe.json")
            if os.path.exists(p):
                for e in json.load(open(p))["entries"]:
                    if e["property"] == self.prop:
                        self._rs[e["key"]] = e["reason"]
        return self._rs

    def check(self, cond, rule, key, msg, where="", detail=None, sample=None):
        if cond:
            self.ok(rule, key, sample)
        else:
            self.bad(rule, key, msg, where, detail)
        return cond

    def note(self, cls, item):
        self.notes.setdefault(cls, []).append(item)

    def floor(self, rule, what, count, minimum):
        """fail closed: a rule that no longer finds its anchors must not pass vacuously"""
        self.floors.append({"rule": rule, "what": what, "count": count, "floor": minimum})
        if count < minimum:
            self.bad(rule, "anchor-lost:%s" % what,
                     "anchor lost: %s: found %d, expected at least %d (the mechanism this rule inspects is gone or no longer recognisable)" % (what, count, minimum))
        else:
            self.ok(rule, "floor:%s" % what)

    def finish(self, level="other", explanation="", technique=""):
        kf_path = os.path.join(VERIF, "known_findings.json")
        known = {}
        if os.path.exists(kf_path):
            for e in json.load(open(kf_path))["findings"]:
                if e["property"] == self.prop:
                    known[e["key"]] = e
        new, listed = [], []
        seen = set()
        for v in self.violations:
            if v["key"] in seen:
                continue
            seen.add(v["key"])
            if v["key"] in known:
                listed.append(v)
            else:
                new.append(v)
        for v in listed:
            print("KNOWN-FINDING: property=%s %s [%s] %s" % (self.prop, v["key"], v["where"], known[v["key"]].get("what", v["msg"])))
        # checker self-tests (mutants, seeded changes, benign variants) set VERIF_EVIDENCE_DIR so that /verif/evidence keeps describing /repo
        evdir = os.environ.get("VERIF_EVIDENCE_DIR") or os.path.join(VERIF, "evidence")
        os.makedirs(evdir, exist_ok=True)
        replay = os.path.join(evdir, "%s.violations.json" % self.prop)
        if new:
            with open(replay, "w") as f:
                json.dump(new, f, indent=1)
            for v in new[:40]:
                print("  violation: %s  %s  %s" % (v["key"], v["where"], v["msg"]))
            if len(new) > 40:
                print("  ... %d more in %s" % (len(new) - 40, replay))
            print("VIOLATION property=%s replay=%s" % (self.prop, replay))
        elif os.path.exists(replay):
            os.remove(replay)
        ev = {
            "property_id": self.prop,
            "tier": self.tier,
            "seed": self.seed,
            "level": level,
            "coverage": {
                "explanation": explanation,
                "technique": technique,
                "rules": self.rules,
                "obligations": self.obligations,
                "discharged": self.discharged,
                "evaluations": max(self.obligations, 1),
                "distinct_nontrivial": len(self.instances),
                "rule": "one evaluation = one rule instance (rule id x anchored code construct) extracted from the current /repo sources; distinct = distinct (rule, instance key); non-trivial = the instance had a non-empty fact set to compare",
                "samples": self.samples[:12] or [{"note": "no instance"}],
                "floors": self.floors,
                "analysed": self.analysed,
                "known_findings_matched": [v["key"] for v in listed],
                "new_violations": [v["key"] for v in new][:200],
                "notes": {k: v[:60] for k, v in self.notes.items()},
                "notes_counts": {k: len(v) for k, v in self.notes.items()},
                "exhaustive": True,
            },
            "assumptions": self.assumptions,
            "wall_s": round(time.time() - self.t0, 2),
            "violations": len(new),
        }
        tmp = os.path.join(evdir, "%s.json.tmp" % self.prop)
        with open(tmp, "w") as f:
            json.dump(ev, f, indent=1)
        os.replace(tmp, os.path.join(evdir, "%s.json" % self.prop))
        print("%s: %d obligations, %d discharged, %d known findings, %d new violations (%.1fs)" % (
            self.prop, self.obligations, self.discharged, len(listed), len(new), time.time() - self.t0))
        return 1 if new else 0
