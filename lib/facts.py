"""Fact loading and generic analyses over the MIR and syn fact files."""
import json
import os
import re
import sys
from collections import defaultdict

sys.setrecursionlimit(20000)


class Facts:
    def __init__(self, d):
        self.dir = d
        self._mir = {}
        self._syn = {}
        self.meta = json.load(open(os.path.join(d, "DONE")))
        self.scratch = self.meta.get("scratch", "")

    def crates(self):
        return sorted(f[:-len(".mir.jsonl")] for f in os.listdir(self.dir) if f.endswith(".mir.jsonl"))

    def relpath(self, p):
        """map a scratch-copy path back to a path relative to /repo"""
        if self.scratch and p.startswith(self.scratch):
            return p[len(self.scratch):].lstrip("/")
        return p

    def mir(self, crate):
        if crate not in self._mir:
            bodies, adts = [], []
            with open(os.path.join(self.dir, crate + ".mir.jsonl")) as f:
                for line in f:
                    r = json.loads(line)
                    if r["k"] == "body":
                        bodies.append(Body(r, self))
                    elif r["k"] == "adt":
                        adts.append(r)
            self._mir[crate] = (bodies, adts)
        return self._mir[crate]

    def bodies(self, crate):
        return self.mir(crate)[0]

    def adts(self, crate):
        return self.mir(crate)[1]

    def syn(self, crate):
        if crate not in self._syn:
            items = []
            with open(os.path.join(self.dir, crate + ".syn.jsonl")) as f:
                for line in f:
                    items.append(json.loads(line))
            self._syn[crate] = items
        return self._syn[crate]

    def expanded_lines(self, crate):
        with open(os.path.join(self.dir, crate + ".expanded.rs")) as f:
            return f.read().count("\n")


def op_local(o):
    """operand -> local index or None (constants)"""
    if isinstance(o, list):
        return o[0]
    return None


def op_fn(o):
    if isinstance(o, dict) and "fn" in o:
        return o["fn"]
    return None


FN_IN_TY = re.compile(r"[FC]\{((?:[^<>{}|,]|\{\w+#\d+\})+)")


def fns_in_type(s):
    """all FnDef / Closure def paths mentioned inside a structured type string"""
    return FN_IN_TY.findall(s)


class Body:
    """One MIR body. Blocks are dicts {cl, s:[stmts], t:term}."""

    def __init__(self, r, facts=None):
        self.r = r
        self.fn = r["fn"]
        self.crate = r["crate"]
        self.ctype = r["ctype"]
        self.file = facts.relpath(r["file"]) if facts else r["file"]
        self.line = r["line"]
        self.exp = r["exp"]
        self.blocks = r["blocks"]
        self.locals = r["locals"]
        self.vars = r["vars"]
        self.nargs = r["nargs"]
        self.pub = r.get("pub", False)
        self._succ = None
        self._pred = None
        self._idom = None

    def where(self):
        return "%s:%d" % (self.file, self.line)

    # ---- CFG (normal edges only: unwind/cleanup edges are ignored) ----
    def succ(self, b):
        if self._succ is None:
            self._succ = []
            for blk in self.blocks:
                t = blk["t"]
                k = t["k"]
                if k == "goto":
                    s = [t["t"]]
                elif k == "switch":
                    s = [x[1] for x in t["targets"]] + [t["else"]]
                elif k in ("call", "assert", "drop"):
                    s = [t["t"]] if "t" in t else []
                elif k == "other":
                    s = list(t["succ"])
                else:
                    s = []
                # dedupe, keep order
                seen = []
                for x in s:
                    if x not in seen:
                        seen.append(x)
                self._succ.append(seen)
        return self._succ[b]

    def pred(self, b):
        if self._pred is None:
            self._pred = [[] for _ in self.blocks]
            for i in range(len(self.blocks)):
                for s in self.succ(i):
                    self._pred[s].append(i)
        return self._pred[b]

    def reachable_from(self, starts, avoid=()):
        seen = set()
        st = [s for s in starts if s not in avoid]
        while st:
            b = st.pop()
            if b in seen:
                continue
            seen.add(b)
            for s in self.succ(b):
                if s not in seen and s not in avoid:
                    st.append(s)
        return seen

    def idom(self):
        """immediate dominators (Cooper-Harvey-Kennedy) over normal edges from block 0"""
        if self._idom is not None:
            return self._idom
        n = len(self.blocks)
        order = []
        seen = [False] * n
        stack = [(0, iter(self.succ(0)))]
        seen[0] = True
        while stack:
            b, it = stack[-1]
            adv = False
            for s in it:
                if not seen[s]:
                    seen[s] = True
                    stack.append((s, iter(self.succ(s))))
                    adv = True
                    break
            if not adv:
                order.append(b)
                stack.pop()
        rpo = list(reversed(order))
        num = {b: i for i, b in enumerate(rpo)}
        idom = {0: 0}
        changed = True
        while changed:
            changed = False
            for b in rpo[1:]:
                new = None
                for p in self.pred(b):
                    if p in idom:
                        if new is None:
                            new = p
                        else:
                            a, c = p, new
                            while a != c:
                                while num[a] > num[c]:
                                    a = idom[a]
                                while num[c] > num[a]:
                                    c = idom[c]
                            new = a
                if new is not None and idom.get(b) != new:
                    idom[b] = new
                    changed = True
        self._idom = idom
        return idom

    def dominates(self, a, b):
        """block a dominates block b (both reachable)"""
        idom = self.idom()
        if b not in idom or a not in idom:
            return False
        while True:
            if a == b:
                return True
            if b == 0:
                return False
            b = idom[b]

    # ---- iterators ----
    def calls(self):
        """yield (block index, terminator) for every call"""
        for i, blk in enumerate(self.blocks):
            if blk["t"]["k"] == "call":
                yield i, blk["t"]

    def stmts(self):
        for i, blk in enumerate(self.blocks):
            for s in blk["s"]:
                yield i, s

    def aggs(self):
        for i, s in self.stmts():
            if s.get("rk") == "agg" and "adt" in s:
                yield i, s

    def ret_blocks(self):
        return [i for i, b in enumerate(self.blocks) if b["t"]["k"] == "ret" and not b["cl"]]

    def callee(self, t):
        return t.get("f") or t.get("tf")

    def mentioned_fns(self):
        """every fn / closure def path this body can call or hand out as a value (over-approximation)"""
        out = set()
        for blk in self.blocks:
            t = blk["t"]
            if t["k"] == "call":
                if "f" in t:
                    out.add(t["f"])
                out.add(t["tf"])
                for g in t.get("ga", []):
                    out.update(fns_in_type(g))
                for a in t["args"]:
                    f = op_fn(a)
                    if f:
                        out.update(fns_in_type(f))
                if "fp" in t:
                    f = op_fn(t["fp"])
                    if f:
                        out.update(fns_in_type(f))
            for s in blk["s"]:
                if "closure" in s:
                    out.add(s["closure"])
                for o in s.get("src", []):
                    f = op_fn(o)
                    if f:
                        out.update(fns_in_type(f))
        return out

    # ---- def-use: which locals (transitively) feed a local ----
    def defs(self):
        """local -> list of (block, stmt-or-call) that write it (whole-local or projection)"""
        d = defaultdict(list)
        for i, blk in enumerate(self.blocks):
            for s in blk["s"]:
                d[s["d"][0]].append((i, s))
            t = blk["t"]
            if t["k"] == "call":
                d[t["d"][0]].append((i, t))
        return d

    def var_local(self, name):
        v = self.vars.get(name)
        return v[0] if v else None

    def local_names(self):
        out = defaultdict(list)
        for k, v in self.vars.items():
            if v[1] == "":
                out[v[0]].append(k.split("#")[0])
        return out


class CallGraph:
    """Whole-program over-approximate call graph over a set of crates."""

    def __init__(self, facts, crates):
        self.bodies = {}
        self.by_crate = defaultdict(list)
        for c in crates:
            for b in facts.bodies(c):
                # the lib and bin of `mech` share names; keep first, prefer lib
                key = b.fn
                if key in self.bodies and self.bodies[key].ctype == "lib":
                    continue
                self.bodies[key] = b
        self.edges = {}
        # dyn-dispatch: trait method name -> impl bodies
        self.impls_by_method = defaultdict(list)
        for k in self.bodies:
            m = re.match(r"<(.+) as (.+)>::(\w+)$", k)
            if m:
                self.impls_by_method[(strip_generics(m.group(2)), m.group(3))].append(k)

    def out(self, fn):
        if fn not in self.edges:
            b = self.bodies.get(fn)
            self.edges[fn] = b.mentioned_fns() if b else set()
        return self.edges[fn]

    def reach(self, roots, cut=(), dyn=True):
        """set of fn paths reachable from roots; `cut` fns are not entered"""
        seen = set()
        st = list(roots)
        while st:
            f = st.pop()
            if f in seen or f in cut:
                continue
            seen.add(f)
            for g in self.out(f):
                if g not in seen:
                    st.append(g)
                if dyn and g not in self.bodies:
                    # unresolved trait method call `Trait::method`: every local impl
                    m = re.match(r"(.+)::(\w+)$", g)
                    if m:
                        for impl in self.impls_by_method.get((strip_generics(m.group(1)), m.group(2)), ()):
                            if impl not in seen:
                                st.append(impl)
        return seen

    def path(self, roots, target_pred, cut=()):
        """BFS: shortest call path from a root to a fn satisfying target_pred"""
        from collections import deque
        prev = {}
        dq = deque()
        for r in roots:
            prev[r] = None
            dq.append(r)
        while dq:
            f = dq.popleft()
            if f in cut:
                continue
            if target_pred(f):
                p = []
                while f is not None:
                    p.append(f)
                    f = prev[f]
                return list(reversed(p))
            nxt = set(self.out(f))
            for g in list(nxt):
                if g not in self.bodies:
                    m = re.match(r"(.+)::(\w+)$", g)
                    if m:
                        nxt.update(self.impls_by_method.get((strip_generics(m.group(1)), m.group(2)), ()))
            for g in nxt:
                if g not in prev:
                    prev[g] = f
                    dq.append(g)
        return None


def strip_generics(s):
    out = []
    depth = 0
    for ch in s:
        if ch == "<":
            depth += 1
        elif ch == ">":
            depth -= 1
        elif depth == 0:
            out.append(ch)
    return "".join(out)


# ---------------- syn AST helpers ----------------

def is_node(x):
    return isinstance(x, list) and x and isinstance(x[0], str)


def walk(n):
    """pre-order walk over every AST node (lists tagged by a string head) including nested items"""
    st = [n]
    while st:
        x = st.pop()
        if isinstance(x, list):
            if x and isinstance(x[0], str):
                yield x
            for y in reversed(x):
                if isinstance(y, (list, dict)):
                    st.append(y)
        elif isinstance(x, dict):
            for v in x.values():
                if isinstance(v, (list, dict)):
                    st.append(v)


def find(n, tag):
    for x in walk(n):
        if x[0] == tag:
            yield x


def path_of(e):
    """["path", "a::b"] -> "a::b" else None"""
    if is_node(e) and e[0] == "path":
        return e[1]
    return None


def last_seg(p):
    p = strip_generics(p)
    return p.split("::")[-1]


def strip_refs(e):
    while is_node(e) and (e[0] == "ref" or (e[0] == "un" and e[1] == "*") or e[0] == "unsafe" and len(e[1]) == 1 and e[1][0][0] == "expr"):
        if e[0] == "unsafe":
            e = e[1][0][1]
        else:
            e = e[2]
    return e


def render(e, depth=0):
    """compact human-readable rendering of an AST node (for reports and normal forms)"""
    if not is_node(e):
        if e is None:
            return ""
        return str(e)
    t = e[0]
    r = render
    if t == "path":
        return e[1]
    if t in ("int",):
        return e[1]
    if t == "str":
        return json.dumps(e[1])
    if t == "bool":
        return "true" if e[1] else "false"
    if t == "lit" or t == "char":
        return str(e[1])
    if t == "bin":
        return "(%s %s %s)" % (r(e[2]), e[1], r(e[3]))
    if t == "un":
        return "%s%s" % (e[1], r(e[2]))
    if t == "ref":
        return "&%s%s" % ("mut " if e[1] else "", r(e[2]))
    if t == "field":
        return "%s.%s" % (r(e[1]), e[2])
    if t == "index":
        return "%s[%s]" % (r(e[1]), r(e[2]))
    if t == "call":
        return "%s(%s)" % (r(e[1]), ", ".join(r(a) for a in e[2]))
    if t == "mcall":
        return "%s.%s%s(%s)" % (r(e[1]), e[2], ("::" + e[3]) if e[3] else "", ", ".join(r(a) for a in e[4]))
    if t == "tuple":
        return "(%s)" % ", ".join(r(a) for a in e[1])
    if t == "array":
        return "[%s]" % ", ".join(r(a) for a in e[1])
    if t == "cast":
        return "(%s as %s)" % (r(e[1]), e[2])
    if t == "assign":
        return "%s = %s" % (r(e[1]), r(e[2]))
    if t == "range":
        return "%s..%s%s" % (r(e[1]), "=" if e[3] else "", r(e[2]))
    if t == "unsafe" or t == "block":
        return "{ %s }" % "; ".join(render_stmt(s) for s in e[1])
    if t == "try":
        return r(e[1]) + "?"
    if t == "struct":
        return "%s { %s }" % (e[1], ", ".join("%s: %s" % (f[0], r(f[1])) for f in e[2]))
    if t == "closure":
        return "|%s| %s" % (", ".join(render_pat(p) for p in e[1]), r(e[2]))
    if t == "if":
        return "if %s { %s }%s" % (r(e[1]), "; ".join(render_stmt(s) for s in e[2]), (" else " + r(e[3])) if e[3] else "")
    if t == "letc":
        return "let %s = %s" % (render_pat(e[1]), r(e[2]))
    if t == "for":
        return "for %s in %s { %s }" % (render_pat(e[1]), r(e[2]), "; ".join(render_stmt(s) for s in e[3]))
    if t == "while":
        return "while %s { %s }" % (r(e[1]), "; ".join(render_stmt(s) for s in e[2]))
    if t == "loop":
        return "loop { %s }" % "; ".join(render_stmt(s) for s in e[1])
    if t == "match":
        return "match %s { %s }" % (r(e[1]), ", ".join("%s%s => %s" % (render_pat(a[0]), (" if " + r(a[1])) if a[1] else "", r(a[2])) for a in e[2]))
    if t == "ret":
        return "return %s" % r(e[1])
    if t == "macro":
        return "%s!(%s)" % (e[1], e[2])
    if t == "repeat":
        return "[%s; %s]" % (r(e[1]), r(e[2]))
    if t == "break":
        return "break"
    if t == "continue":
        return "continue"
    return "<%s>" % t


def render_stmt(s):
    if s[0] == "let":
        return "let %s%s" % (render_pat(s[1]), (" = " + render(s[2])) if s[2] is not None else "")
    if s[0] == "expr":
        return render(s[1])
    if s[0] == "item":
        return "<item>"
    return "<stmt>"


def render_pat(p):
    if not is_node(p):
        return str(p)
    t = p[0]
    if t == "pident":
        return ("ref " if p[2] else "") + ("mut " if p[3] else "") + p[1] + ((" @ " + render_pat(p[4])) if p[4] else "")
    if t == "pts":
        return "%s(%s)" % (p[1], ", ".join(render_pat(x) for x in p[2]))
    if t == "ptuple":
        return "(%s)" % ", ".join(render_pat(x) for x in p[1])
    if t == "ppath":
        return p[1]
    if t == "pwild":
        return "_"
    if t == "por":
        return " | ".join(render_pat(x) for x in p[1])
    if t == "pref":
        return "&" + render_pat(p[2])
    if t == "pstruct":
        return "%s { %s%s }" % (p[1], ", ".join("%s: %s" % (f[0], render_pat(f[1])) for f in p[2]), ", .." if p[3] else "")
    if t == "plit":
        return render(p[1])
    if t == "prest":
        return ".."
    if t == "pslice":
        return "[%s]" % ", ".join(render_pat(x) for x in p[1])
    if t == "ptype":
        return render_pat(p[1])
    return "<%s>" % t
