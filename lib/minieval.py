"""Tiny evaluator for guard expressions over a finite table of values (comparisons / boolean connectives / + - * over named variables)."""
import re
from lib.facts import is_node


class NoEval(Exception):
    pass


def ev(e, env, depth=0):
    if depth > 30 or not is_node(e):
        raise NoEval(str(e)[:30])
    t = e[0]
    r = lambda x: ev(x, env, depth + 1)
    if t == "path":
        if e[1] in env:
            return env[e[1]]
        raise NoEval(e[1])
    if t == "int":
        return int(re.sub(r"[^0-9].*$", "", str(e[1])) or 0)
    if t == "bool":
        return bool(e[1])
    if t in ("char", "lit", "str"):
        return e[1]
    if t == "paren":
        return r(e[1])
    if t == "ref":
        return r(e[2])
    if t == "cast":
        return r(e[1])
    if t == "un":
        if e[1] == "!":
            return not r(e[2])
        if e[1] == "*":
            return r(e[2])
        if e[1] == "-":
            return -r(e[2])
        raise NoEval("un")
    if t == "mcall" and not e[4]:
        v = r(e[1])
        if e[2] == "is_power_of_two" and isinstance(v, int):
            return v > 0 and (v & (v - 1)) == 0
        if e[2] in ("clone", "into", "to_owned"):
            return v
        raise NoEval(e[2])
    if t == "bin":
        op = e[1]
        if op == "&&":
            return bool(r(e[2])) and bool(r(e[3]))
        if op == "||":
            return bool(r(e[2])) or bool(r(e[3]))
        a, b = r(e[2]), r(e[3])
        try:
            return {"!=": lambda: a != b, "==": lambda: a == b, "<": lambda: a < b, ">": lambda: a > b, "<=": lambda: a <= b, ">=": lambda: a >= b,
                    "+": lambda: a + b, "*": lambda: a * b, "-": lambda: a - b, "%": lambda: a % b, "&": lambda: a & b, "|": lambda: a | b,
                    "/": lambda: a // b, "<<": lambda: a << b, ">>": lambda: a >> b}[op]()
        except (KeyError, TypeError, ZeroDivisionError):
            raise NoEval(op)
    raise NoEval(t)
