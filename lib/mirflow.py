"""Shape-independent control-flow queries over one MIR body (used by C11-R1; reusable).

Everything here is phrased over resolved callees, def-use chains and CFG edges, never over the spelling of a local or the
syntactic form of a branch (`if/else if`, guard clause + early return, `match` with guards, a named bool tested twice ...).

  Flow(body)                       def-use helpers: origin of an operand through copies / refs / pass-through calls
  Flow.cond(operand)               the comparison / call a switch operand stands for, with polarity (follows `!` and copies)
  Flow.bool_edges(block)           for a `switch` on a bool: (root local, {True: target, False: target})
  Flow.reach(starts, ...)          path-sensitive reachability: a bool local that is tested twice is followed consistently
  private_callees(cg, fn, depth)   private helper functions of the same crate reachable through direct calls
"""
import re
from lib.mirq import Slice, PASS_THROUGH

COPY_CALLS = re.compile(r"(::deref$|::deref_mut$|::as_ref$|::as_mut$|::borrow$|::borrow_mut$|::clone$|::to_owned$|::to_vec$|::as_slice$|::branch$|::unwrap$|::expect$|::into$|::from$)")


def callee(t):
    return t.get("f") or t["tf"]


class Flow:
    def __init__(self, body):
        self.b = body
        self.defs = body.defs()
        self.sl = Slice(body)
        self._ncl = {i for i, blk in enumerate(body.blocks) if not blk["cl"]}

    # ---------------- def-use ----------------
    def live_defs(self, l):
        """definitions of a local outside cleanup blocks"""
        return [(i, s) for i, s in self.defs.get(l, []) if i in self._ncl]

    def origin(self, op, through_calls=True, limit=40):
        """follow a value backwards through copies, refs, derefs, field projections and (optionally) copy-like calls
        (clone, deref, `?`) while every local on the way has exactly one definition.
        returns ('const', text) | ('arg', i) | ('call', block, term) | ('stmt', block, stmt) | ('multi', local) | ('undef', local)"""
        for _ in range(limit):
            if not isinstance(op, list):
                if isinstance(op, dict):
                    return ("const", op.get("c") if "c" in op else op.get("fn"))
                return ("undef", None)
            l = op[0]
            ds = self.live_defs(l)
            if 1 <= l <= self.b.nargs and not ds:
                return ("arg", l)
            if not ds:
                return ("undef", l)
            if len(ds) > 1:
                return ("multi", l)
            blk, s = ds[0]
            if s.get("k") == "call":
                if through_calls and COPY_CALLS.search(callee(s)) and s["args"] and isinstance(s["args"][0], list):
                    op = s["args"][0]
                    continue
                return ("call", blk, s)
            if s.get("rk") in ("use", "ref", "rawptr") and s["src"]:
                if isinstance(s["src"][0], list) and "[" in (s["src"][0][1] or ""):
                    return ("stmt", blk, s)      # an element read `a[i]`, not a copy of `a`
                op = s["src"][0]
                continue
            if s.get("rk") == "cast" and s["src"] and s.get("ck") not in ("Transmute",):
                op = s["src"][0]
                continue
            return ("stmt", blk, s)
        return ("undef", None)

    def chain(self, op, limit=40):
        """the locals a value passes through on its way back to its origin (same walk as origin())"""
        out = []
        for _ in range(limit):
            if not isinstance(op, list):
                break
            l = op[0]
            out.append(l)
            ds = self.live_defs(l)
            if len(ds) != 1:
                break
            blk, s = ds[0]
            if s.get("k") == "call":
                if COPY_CALLS.search(callee(s)) and s["args"] and isinstance(s["args"][0], list):
                    op = s["args"][0]
                    continue
                break
            if s.get("rk") in ("use", "ref", "rawptr", "cast") and s["src"]:
                op = s["src"][0]
                continue
            break
        return out

    def base_local(self, op, limit=40):
        """the storage a reference / copy refers to: follows refs and copies (not calls) to the first local that is a user
        variable, an argument, has several definitions or is defined by a call / aggregate"""
        for _ in range(limit):
            if not isinstance(op, list):
                return None
            l = op[0]
            ds = self.live_defs(l)
            if len(ds) != 1:
                return l
            blk, s = ds[0]
            if s.get("k") != "call" and s.get("rk") in ("use", "ref", "rawptr") and s["src"] and isinstance(s["src"][0], list):
                op = s["src"][0]
                continue
            return l
        return None

    def feeds(self, op):
        return self.sl.locals_feeding(op)

    # ---------------- conditions ----------------
    def cond(self, op, limit=12):
        """what a bool operand stands for: (kind, payload, polarity) with kind in
        'cmp' (payload = (op, lhs operand, rhs operand, block)), 'call' (payload = (block, term)), 'local' (payload = local), 'const'"""
        pol = True
        for _ in range(limit):
            if not isinstance(op, list):
                return ("const", op, pol)
            ds = self.live_defs(op[0])
            if len(ds) != 1:
                return ("local", op[0], pol)
            blk, s = ds[0]
            if s.get("k") == "call":
                c = callee(s)
                if re.search(r"::not$", c) and s["args"]:
                    pol = not pol
                    op = s["args"][0]
                    continue
                return ("call", (blk, s), pol)
            rk = s.get("rk")
            if rk == "use" and s["src"]:
                op = s["src"][0]
                continue
            if rk == "un" and s.get("op") == "Not":
                pol = not pol
                op = s["src"][0]
                continue
            if rk == "bin" and s.get("op") in ("Eq", "Ne", "Lt", "Le", "Gt", "Ge"):
                return ("cmp", (s["op"], s["src"][0], s["src"][1], blk), pol)
            return ("local", op[0], pol)
        return ("local", op[0] if isinstance(op, list) else None, pol)

    def bool_root(self, op, limit=12):
        """(root local, polarity): the bool variable a switch operand is a copy / negation of"""
        pol = True
        for _ in range(limit):
            if not isinstance(op, list):
                return None, pol
            l = op[0]
            ds = self.live_defs(l)
            if len(ds) != 1:
                return l, pol
            blk, s = ds[0]
            if s.get("k") != "call" and s.get("rk") == "use" and s["src"] and isinstance(s["src"][0], list) and s["src"][0][1] == "":
                op = s["src"][0]
                continue
            if s.get("k") != "call" and s.get("rk") == "un" and s.get("op") == "Not" and isinstance(s["src"][0], list):
                pol = not pol
                op = s["src"][0]
                continue
            return l, pol
        return None, pol

    def bool_edges(self, i):
        """for a block ending in a switch on a bool: (operand, {True: target, False: target}) else None"""
        t = self.b.blocks[i]["t"]
        if t["k"] != "switch" or t.get("ty") != "bool" or not isinstance(t["on"], list):
            return None
        false_t = None
        for v, tgt in t["targets"]:
            if v == 0:
                false_t = tgt
        true_t = t["else"]
        for v, tgt in t["targets"]:
            if v != 0:
                true_t = tgt
        if false_t is None:
            false_t = t["else"]
        return t["on"], {True: true_t, False: false_t}

    # ---------------- path-sensitive reachability ----------------
    def reach(self, starts, cut_edges=(), cut_blocks=(), stop=()):
        """blocks reachable from `starts` over normal edges without using an edge in cut_edges or entering a block in cut_blocks.
        A bool local tested by several switches is followed consistently (the value assumed at the first test is kept until the local is redefined).
        Blocks in `stop` are reported as reached but not left."""
        cut_edges = set(cut_edges)
        cut_blocks = set(cut_blocks)
        stop = set(stop)
        kills = {}
        for l, ds in self.defs.items():
            for blk, s in ds:
                kills.setdefault(blk, set()).add(l)
        seen = set()
        out = set()
        st = [(s, frozenset()) for s in starts if s not in cut_blocks]
        while st:
            b, facts = st.pop()
            if (b, facts) in seen:
                continue
            seen.add((b, facts))
            out.add(b)
            if b in stop:
                continue
            k = kills.get(b)
            if k and facts:
                facts = frozenset((l, v) for l, v in facts if l not in k)
            be = self.bool_edges(b)
            if be:
                root, pol = self.bool_root(be[0])
                known = dict(facts).get(root) if root is not None else None
                for val, tgt in be[1].items():
                    rv = val if pol else (not val)
                    if known is not None and known != rv:
                        continue
                    if (b, tgt) in cut_edges or tgt in cut_blocks:
                        continue
                    nf = facts if root is None else frozenset(set(facts) | {(root, rv)})
                    st.append((tgt, nf))
                continue
            for s in self.b.succ(b):
                if (b, s) in cut_edges or s in cut_blocks:
                    continue
                st.append((s, facts))
        return out

    def can_reach(self, a, b):
        return b in self.b.reachable_from([a])


def private_callees(cg, fn, depth=2, crate_prefix=None):
    """private (non-pub) functions of the same crate that `fn` reaches through at most `depth` direct calls: the helpers an
    extract-function refactoring creates. Returns {fn path: Body}."""
    if crate_prefix is None:
        crate_prefix = fn.split("::")[0] + "::"
    out = {}
    frontier = [fn]
    for _ in range(depth):
        nxt = []
        for f in frontier:
            b = cg.bodies.get(f)
            if b is None:
                continue
            for i, t in b.calls():
                g = callee(t)
                if g in out or g == fn or not g.startswith(crate_prefix):
                    continue
                gb = cg.bodies.get(g)
                if gb is None or gb.pub:
                    continue
                out[g] = gb
                nxt.append(g)
        frontier = nxt
    return out
