"""K2 — deviant sibling: partition the arms of a variant match by their body normalised modulo the variant's own name;
compare the co-classification of known variants with a frozen reference (k2_reference.json)."""
import json
import os
import re
from collections import defaultdict
from lib.facts import find, is_node, render, render_pat

VERIF = os.path.dirname(os.path.dirname(os.path.abspath(__file__)))
REF = os.path.join(VERIF, "k2_reference.json")


def norm(text, variant):
    """abstract the variant's own name in all its spellings (U8 / u8 / MatrixU8 / "u8")"""
    base = re.sub(r"^Matrix", "", variant)
    out = text
    for v in sorted({variant, base, base.lower(), "Matrix" + base}, key=len, reverse=True):
        if v:
            out = re.sub(r"(?<![A-Za-z0-9_])%s(?![A-Za-z0-9_])" % re.escape(v), "§", out)
    return re.sub(r"\s+", " ", out)


def arm_partition(match_node, enum_prefix):
    """{variant: normalised body} for arms `Enum::Variant(..)`"""
    out = {}
    for arm in match_node[2]:
        p = arm[0]
        alts = p[1] if p[0] == "por" else [p]
        for alt in alts:
            while alt[0] in ("pref",):
                alt = alt[2]
            if alt[0] in ("pts", "ppath", "pstruct") and alt[1].startswith(enum_prefix + "::"):
                v = alt[1].split("::")[-1]
                body = render(arm[2]) + (" if " + render(arm[1]) if arm[1] else "")
                out[v] = norm(render_pat(alt) + " => " + body, v)
    return out


def classes(part):
    g = defaultdict(list)
    for v, t in part.items():
        g[t].append(v)
    return sorted(sorted(m) for m in g.values())


def load_ref():
    if os.path.exists(REF):
        return json.load(open(REF))
    return {}


def check(rep, rule, key, part, where=""):
    """compare with the frozen co-classification of known variants"""
    ref = load_ref().get(key)
    cur = classes(part)
    if ref is None:
        rep.bad(rule, "k2-reference-missing:%s" % key, "no frozen sibling partition for %s (run tools/k2_freeze.py after reviewing the classes)" % key)
        return cur
    cls_of = {}
    for i, c in enumerate(cur):
        for v in c:
            cls_of[v] = i
    bad = []
    for c in ref:
        known = [v for v in c if v in cls_of]
        if len({cls_of[v] for v in known}) > 1:
            # which member left the class
            groups = defaultdict(list)
            for v in known:
                groups[cls_of[v]].append(v)
            minority = sorted(groups.values(), key=len)[:-1]
            bad.append((c, [v for g in minority for v in g]))
        missing = [v for v in c if v not in cls_of]
        if missing and len(c) > 1:
            bad.append((c, ["missing:" + v for v in missing]))
    # two reference classes merged is fine only if ... no: merging means formerly different arms are now equal -> also a deviation
    ref_cls = {}
    for i, c in enumerate(ref):
        for v in c:
            ref_cls[v] = i
    for c in cur:
        known = [v for v in c if v in ref_cls]
        if len({ref_cls[v] for v in known}) > 1:
            groups = defaultdict(list)
            for v in known:
                groups[ref_cls[v]].append(v)
            minority = sorted(groups.values(), key=len)[:-1]
            bad.append((c, ["joined:" + v for g in minority for v in g]))
    if bad:
        dev = sorted({v for _, vs in bad for v in vs})
        rep.bad(rule, "%s:deviant:%s" % (key, ",".join(dev)),
                "%s: the arms for %s no longer behave like their sibling arms (the same code modulo the variant name): %s" % (key, dev, [(c[:4], v) for c, v in bad][:3]), where)
    else:
        rep.ok(rule, "%s:sibling-partition" % key, sample={"fn": key, "classes": [c[:5] for c in cur][:6]})
    return cur
