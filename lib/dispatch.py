"""Dispatch-table extraction: `match (lhs_value, rhs_value) { (Value::I8(l), Value::MatrixI8(Matrix::DMatrix(r))) => ... }`"""
import re
from lib.facts import find, walk, is_node, path_of, render, render_pat, last_seg

FORM_ABBR = {"DMatrix": "MD", "RowDVector": "RD", "DVector": "VD", "Matrix1": "M1", "Matrix2": "M2", "Matrix3": "M3", "Matrix4": "M4",
             "Matrix2x3": "M2x3", "Matrix3x2": "M3x2", "RowVector2": "R2", "RowVector3": "R3", "RowVector4": "R4",
             "Vector2": "V2", "Vector3": "V3", "Vector4": "V4"}


def value_pat(p):
    """pattern of one operand -> (kind, form, binder)  form: 'S' scalar | abbreviation | '*' any matrix form | None unknown"""
    if p[0] == "pref":
        p = p[2]
    if p[0] == "pts" and p[1].startswith("Value::"):
        v = p[1].split("::")[-1]
        inner = p[2][0] if p[2] else None
        if v.startswith("Matrix") and v != "Matrix":
            kind = v[len("Matrix"):]
            if inner is not None and inner[0] == "pts" and inner[1].startswith("Matrix::"):
                f = inner[1].split("::")[-1]
                b = inner[2][0][1] if inner[2] and inner[2][0][0] == "pident" else None
                return (kind, FORM_ABBR.get(f, f), b)
            b = inner[1] if inner is not None and inner[0] == "pident" else None
            return (kind, "*", b)
        b = inner[1] if inner is not None and inner[0] == "pident" else None
        return (v, "S", b)
    if p[0] == "pwild" or p[0] == "pident":
        return ("_", "_", p[1] if p[0] == "pident" else None)
    return (None, None, None)


def user_structs(node):
    """struct literals constructed in a node, excluding registry/inventory and error structs"""
    out = []
    for s in find(node, "struct"):
        n = s[1]
        if n.startswith("::") or n in ("FunctionDescriptor", "FunctionCompilerDescriptor"):
            continue
        out.append(s)
    return out


def boxed_structs(node):
    """struct literals that are the argument of Box::new(..) (i.e. returned function objects)"""
    out = []
    for c in find(node, "call"):
        if path_of(c[1]) == "Box::new" and c[2] and is_node(c[2][0]) and c[2][0][0] == "struct":
            out.append(c[2][0])
    return out


class Arm:
    def __init__(self, fn, pats, guard, body, line):
        self.fn = fn
        self.pats = pats          # list of (kind, form, binder)
        self.guard = guard
        self.body = body
        self.line = line
        self.scrut = None         # scrutinee components of the match this arm belongs to (set by dispatchers())


def dispatchers(items, min_arms=4):
    """functions containing a match over a tuple of values with Value:: patterns -> {fn name: [Arm]}"""
    out = {}
    for it in items:
        if it["k"] not in ("fn", "method"):
            continue
        for m in find(it["body"], "match"):
            arms = []
            for a in m[2]:
                p = a[0]
                alts = p[1] if p[0] == "por" else [p]
                for alt in alts:
                    if alt[0] == "ptuple":
                        pats = [value_pat(x) for x in alt[1]]
                    else:
                        pats = [value_pat(alt)]
                    if any(x[0] for x in pats) and any(x[1] not in (None, "_") for x in pats):
                        arms.append(Arm(it["name"], pats, a[1], a[2], a[3]))
                        # the scrutinee components, position by position (an operand the pattern does not bind can only be named through them)
                        arms[-1].scrut = m[1][1] if (is_node(m[1]) and m[1][0] == "tuple") else [m[1]]
            if len(arms) >= min_arms:
                key = it["name"] if it["k"] == "fn" else "%s::%s" % (it["self"], it["name"])
                if key not in out or len(arms) > len(out[key]):
                    out[key] = arms
    return out
