"""Concrete interpretation of small text-handling Rust functions (line scanners, splicers, loaders over a virtual file system)
over a FINITE TABLE of inputs, from the compiler's macro-expanded syntax facts (JSON ASTs of tools/mechsyn).  Nothing is compiled or run:
the function body is evaluated by this module the way lib/ministmt.py evaluates index arithmetic, with a model of the std API such
code is written against (&str / String with BYTE offsets, &[u8], char, Option / Result, tuples, Vec, closures, iterator adapters,
HashSet, Path / PathBuf, File / fs over a virtual file system, format!).  A rule compares the outcome per table row with an oracle.

Three outcomes per evaluation:  a value;  `Panic` (the Rust code would panic: slice out of range / not on a char boundary, index
out of bounds, unsigned underflow, unwrap on None, a failed (debug_)assert, recursion deeper than the limit);  `NoEval` (a construct
or API this model does not have - the caller must treat the row as UNDECIDED, never as a verdict).

Value model: int (u8/usize...; `SInt` for signed kinds), bool, str (both &str and char - rustc's typing keeps them apart), RString
(String, mutable), bytes (&[u8]), list (Vec / array / slice), tuple, Enum (Some/None/Ok/Err/unit variants), RStruct (any struct
literal), Closure / FnRef, RIter, RRange, RSet, RPath, RFile, VarRef (`&mut local` of an immutable value).  References are
transparent (`&x`, `*x`, `ref` patterns).  Loop labels are not in the facts: `break`/`continue` bind to the innermost loop.
"""
import re
from lib.facts import is_node


class NoEval(Exception):
    pass


class Panic(Exception):
    pass


class _Return(Exception):
    def __init__(self, value):
        self.value = value


class _Break(Exception):
    def __init__(self, value=None):
        self.value = value


class _Continue(Exception):
    pass


class SInt(int):
    """an integer of a signed kind (no underflow panic below zero)"""


class RString:
    __slots__ = ("s",)

    def __init__(self, s=""):
        self.s = s

    def __repr__(self):
        return "String(%r)" % self.s

    def __eq__(self, o):
        return isinstance(o, (RString, str)) and S(o) == self.s

    def __hash__(self):
        return hash(self.s)


class Enum:
    __slots__ = ("tag", "vals")

    def __init__(self, tag, vals=()):
        self.tag, self.vals = tag, tuple(vals)

    def __eq__(self, o):
        return isinstance(o, Enum) and o.tag == self.tag and veq(list(self.vals), list(o.vals))

    def __hash__(self):
        return hash(self.tag)

    def __repr__(self):
        return self.tag + ("(%s)" % ", ".join(map(repr, self.vals)) if self.vals else "")


NONE = Enum("None")
UNIT = ()


def Some(v):
    return Enum("Some", (v,))


def Ok(v):
    return Enum("Ok", (v,))


def Err(v):
    return Enum("Err", (v,))


class RStruct:
    def __init__(self, name, fields):
        self.name, self.fields = name, fields

    def __repr__(self):
        return "%s{%s}" % (self.name, ", ".join("%s: %r" % kv for kv in self.fields.items()))


class Closure:
    def __init__(self, params, body, env, interp):
        self.params, self.body, self.env, self.interp = params, body, env, interp


class FnRef:
    """a function / method path used as a value (`str::trim`, `Some`, a local fn)"""
    def __init__(self, path):
        self.path = path


class RRange:
    def __init__(self, lo, hi, incl):
        self.lo, self.hi, self.incl = lo, hi, incl

    def items(self):
        if self.lo is None or self.hi is None:
            raise NoEval("open range iterated")
        return list(range(self.lo, self.hi + (1 if self.incl else 0)))


class RIter:
    def __init__(self, items):
        self.items = list(items)
        self.pos = 0

    def rest(self):
        r = self.items[self.pos:]
        self.pos = len(self.items)
        return r

    def next(self):
        if self.pos < len(self.items):
            self.pos += 1
            return Some(self.items[self.pos - 1])
        return NONE


class RSet:
    def __init__(self):
        self.s = set()


class RPath:
    __slots__ = ("p",)

    def __init__(self, p):
        self.p = p

    def __eq__(self, o):
        return isinstance(o, RPath) and o.p == self.p

    def __hash__(self):
        return hash(self.p)

    def __repr__(self):
        return "Path(%r)" % self.p


class RFile:
    def __init__(self, path):
        self.path = path


class Uncollected:
    """the result of `.collect()` whose target type is not visible at the call (resolved by a type annotation or the return type)"""
    def __init__(self, items):
        self.items = items


def collect_as(u, ty):
    ty = str(ty or "").replace(" ", "")
    if re.match(r"^(Option|Result|MResult)<", ty):
        raise NoEval("collect into " + ty)
    if ty.startswith("String"):
        return RString("".join(S(x) for x in u.items))
    if ty.startswith("Vec<") or ty.startswith("&[") or ty.startswith("["):
        return list(u.items)
    if ty.startswith("HashSet<"):
        s = RSet()
        s.s = set(u.items)
        return s
    raise NoEval("collect into an unknown type " + ty[:20])


class VarRef:
    def __init__(self, scope, name):
        self.scope, self.name = scope, name

    def get(self):
        return self.scope[self.name]

    def set(self, v):
        self.scope[self.name] = v


class VFS:
    """virtual file system: absolute normalised path -> text.  Directories are the prefixes of the files."""
    def __init__(self, files, cwd="/"):
        self.files = dict(files)
        self.cwd = cwd
        self.dirs = {"/"}
        for f in self.files:
            parts = f.split("/")[1:-1]
            for i in range(len(parts)):
                self.dirs.add("/" + "/".join(parts[:i + 1]))
        self.opened = []

    def norm(self, p):
        """lexical + existence: every prefix that `..` is applied to must be an existing directory (like realpath)"""
        if not p.startswith("/"):
            p = self.cwd.rstrip("/") + "/" + p
        out = []
        for seg in p.split("/"):
            if seg in ("", "."):
                continue
            if seg == "..":
                if ("/" + "/".join(out)) not in self.dirs:
                    return None
                if out:
                    out.pop()
                continue
            out.append(seg)
        return "/" + "/".join(out)

    def canonicalize(self, p):
        n = self.norm(p)
        if n is None or (n not in self.files and n not in self.dirs):
            return None
        return n


def deref(v):
    while isinstance(v, VarRef):
        v = v.get()
    return v


def S(v):
    """text of a &str / String / char value"""
    v = deref(v)
    if isinstance(v, RString):
        return v.s
    if isinstance(v, str):
        return v
    raise NoEval("text expected, got %s" % type(v).__name__)


def is_text(v):
    return isinstance(v, (str, RString))


def veq(a, b):
    a, b = deref(a), deref(b)
    if is_text(a) and is_text(b):
        return S(a) == S(b)
    if isinstance(a, (list, tuple)) and isinstance(b, (list, tuple)):
        return len(a) == len(b) and all(veq(x, y) for x, y in zip(a, b))
    if isinstance(a, bytes) and isinstance(b, (list, tuple)) or isinstance(b, bytes) and isinstance(a, (list, tuple)):
        return list(a) == list(b)
    if isinstance(a, bool) != isinstance(b, bool):
        raise NoEval("comparison of bool with non-bool")
    if type(a) in (int, SInt, bool) and type(b) in (int, SInt, bool):
        return int(a) == int(b)
    if isinstance(a, (Enum, RPath, bytes)) and type(a) is type(b):
        return a == b
    if is_text(a) != is_text(b):
        raise NoEval("comparison %s == %s" % (type(a).__name__, type(b).__name__))
    raise NoEval("comparison of %s" % type(a).__name__)


# ---------------------------------------------------------------- byte offsets on text
def blen(s):
    return len(s) if s.isascii() else len(s.encode("utf-8"))


def c2b(s, ci):
    return ci if s.isascii() else len(s[:ci].encode("utf-8"))


def b2c(s, bi, what="slice"):
    """byte offset -> char index; Panic when outside the text or inside a character"""
    if bi < 0 or bi > blen(s):
        raise Panic("%s: byte offset %d is out of range of a %d byte text" % (what, bi, blen(s)))
    if s.isascii():
        return bi
    e = s.encode("utf-8")
    if bi < len(e) and (e[bi] & 0xC0) == 0x80:
        raise Panic("%s: byte offset %d is not a char boundary" % (what, bi))
    return len(e[:bi].decode("utf-8"))


def bslice(s, lo, hi):
    lo = 0 if lo is None else lo
    hi = blen(s) if hi is None else hi
    if lo > hi:
        raise Panic("slice index starts at %d but ends at %d" % (lo, hi))
    return s[b2c(s, lo):b2c(s, hi)]


WS = " \t\n\r\x0b\x0c\x85\xa0\u1680\u2000\u2001\u2002\u2003\u2004\u2005\u2006\u2007\u2008\u2009\u200a\u2028\u2029\u202f\u205f\u3000"


def unescape(lit):
    """text of a Rust string literal body (without the quotes)"""
    out = []
    i = 0
    while i < len(lit):
        c = lit[i]
        if c == "\\" and i + 1 < len(lit):
            n = lit[i + 1]
            i += 2
            if n == "n":
                out.append("\n")
            elif n == "t":
                out.append("\t")
            elif n == "r":
                out.append("\r")
            elif n == "0":
                out.append("\0")
            elif n == "x":
                out.append(chr(int(lit[i:i + 2], 16)))
                i += 2
            elif n == "u":
                j = lit.index("}", i)
                out.append(chr(int(lit[i + 1:j], 16)))
                i = j + 1
            elif n == "\n":
                while i < len(lit) and lit[i] in " \t\n\r":
                    i += 1
            else:
                out.append(n)
            continue
        out.append(c)
        i += 1
    return "".join(out)


INT_KINDS = {"u8": (0, 255), "u16": (0, 65535), "u32": (0, 2 ** 32 - 1), "u64": (0, 2 ** 64 - 1), "usize": (0, 2 ** 64 - 1), "u128": (0, 2 ** 128 - 1)}
SIGNED = ("i8", "i16", "i32", "i64", "isize", "i128")


class Interp:
    def __init__(self, items, vfs=None, hooks=None, fuel=400000, max_depth=40, mod=None, labelled=None):
        """items: syn items of the crate (dicts); free functions and consts are looked up by their last path segment (same module first)"""
        self.fns, self.consts, self.variants = {}, {}, {}
        for it in items:
            if it.get("k") == "fn":
                self.fns.setdefault(it["name"], []).append(it)
            elif it.get("k") in ("const", "static"):
                self.consts.setdefault(it["name"], []).append(it)
            elif it.get("k") == "enum":
                # user enums with unit / tuple variants: values are Enum(tag, payload)
                self.variants[it["name"]] = {v["name"] for v in it.get("variants", [])}
        self.labelled = labelled or set()      # names of functions whose source uses loop labels (not in the syntax facts): not interpreted
        self.mod = mod
        self.vfs = vfs
        self.hooks = hooks or {}
        self.fuel = fuel
        self.depth = 0
        self.max_depth = max_depth
        self.trace = []          # (function name, args, outcome) of local calls, for diagnosis
        self._const_cache = {}

    # ------------------------------------------------------------ entry
    def pick(self, table, name):
        c = table.get(name)
        if not c:
            return None
        if self.mod is not None:
            same = [x for x in c if x.get("mod") == self.mod]
            if same:
                return same[0]
        return c[0]

    def call_fn(self, name, args):
        if name in self.hooks:
            return self.hooks[name](self, args)
        it = self.pick(self.fns, name)
        if it is None:
            raise NoEval("function " + name)
        if name in self.labelled:
            raise NoEval("function %s uses loop labels (break/continue targets are not in the syntax facts)" % name)
        inputs = it["sig"]["inputs"]
        if len(inputs) != len(args) or any(p and p[0] == "self" for p in inputs):
            raise NoEval("arity of " + name)
        self.depth += 1
        if self.depth > self.max_depth:
            self.depth -= 1
            raise Panic("call depth exceeds %d: the recursion does not terminate on this input" % self.max_depth)
        env = [{}]
        try:
            for (p, ty), a in zip(inputs, args):
                ty = str(ty)
                if ty in SIGNED and type(a) is int:
                    a = SInt(a)
                if not self.bind(p, a, env):
                    raise NoEval("parameter pattern")
            try:
                out = self.block(it["body"], env)
            except _Return as r:
                out = r.value
            if isinstance(out, Uncollected):
                out = collect_as(out, it["sig"].get("ret"))
            return out
        finally:
            self.depth -= 1

    def call_value(self, f, args):
        f = deref(f)
        if isinstance(f, Closure):
            if len(f.params) != len(args):
                # a closure over a tuple item called with one tuple argument is the common case; anything else is not modelled
                raise NoEval("closure arity")
            env = f.env + [{}]
            for p, a in zip(f.params, args):
                if not self.bind(p, a, env):
                    raise Panic("refutable closure parameter")
            try:
                return self.E(f.body, env)
            except _Return as r:
                return r.value
        if isinstance(f, FnRef):
            return self.call_path(f.path, args)
        raise NoEval("call of %s" % type(f).__name__)

    # ------------------------------------------------------------ environment
    def lookup(self, name, env):
        for sc in reversed(env):
            if name in sc:
                return sc, sc[name]
        return None, None

    def tick(self):
        self.fuel -= 1
        if self.fuel < 0:
            raise Panic("step budget exhausted: the evaluation does not terminate on this input")

    # ------------------------------------------------------------ patterns
    def bind(self, pat, val, env):
        """match `val` against `pat`, binding into env[-1]; False when the pattern does not match"""
        if not is_node(pat):
            raise NoEval("pattern")
        t = pat[0]
        if t == "pwild" or t == "prest":
            return True
        if t == "ptype":
            ty = str(pat[2])
            if ty in SIGNED and type(val) is int:
                val = SInt(val)
            if isinstance(val, Uncollected):
                val = collect_as(val, ty)
            return self.bind(pat[1], val, env)
        if t == "pref":
            return self.bind(pat[2], deref(val) if not pat[1] else val, env)
        if t == "pident":
            name = pat[1]
            if isinstance(val, Uncollected):
                raise NoEval("collect() without a visible target type")
            if pat[4] is None and name == "None":
                return deref(val) == NONE if isinstance(deref(val), Enum) else False
            if pat[4] is None and name[:1].isupper() and self.pick(self.consts, name) is not None:
                return veq(self.const(name), val)
            if pat[4] is not None and not self.bind(pat[4], val, env):
                return False
            env[-1][name] = val
            return True
        val = deref(val)
        if t == "ptuple":
            if not isinstance(val, tuple):
                raise NoEval("tuple pattern on %s" % type(val).__name__)
            return self.bind_seq(pat[1], list(val), env)
        if t == "pslice":
            if isinstance(val, bytes):
                val = list(val)
            if not isinstance(val, (list, tuple)):
                raise NoEval("slice pattern on %s" % type(val).__name__)
            return self.bind_seq(pat[1], list(val), env, slice_=True)
        if t == "pts":
            tag = pat[1].split("::")[-1]
            if not isinstance(val, Enum):
                raise NoEval("variant pattern on %s" % type(val).__name__)
            if val.tag != tag:
                return False
            return self.bind_seq(pat[2], list(val.vals), env)
        if t == "ppath":
            tag = str(pat[1]).split("::")[-1]
            if isinstance(val, Enum):
                return val.tag == tag and not val.vals
            if self.pick(self.consts, tag) is not None:
                return veq(self.const(tag), val)
            raise NoEval("path pattern " + str(pat[1]))
        if t == "plit":
            return veq(self.E(pat[1], env), val)
        if t == "por":
            for p in pat[1]:
                sc = {}
                if self.bind(p, val, env + [sc]):
                    env[-1].update(sc)
                    return True
            return False
        if t == "prange":
            m = re.match(r"^(.*?)\.\.(=?)(.*)$", str(pat[1]))
            if not m:
                raise NoEval("range pattern")

            def lit(x):
                x = x.strip()
                if not x:
                    return None
                if x.startswith("b'"):
                    return ord(unescape(x[2:-1]) or " ")
                if x.startswith("'"):
                    return unescape(x[1:-1]) or " "
                if re.match(r"^-?\d+", x):
                    return int(re.match(r"^-?\d+", x).group(0))
                raise NoEval("range pattern bound " + x)
            lo, hi = lit(m.group(1)), lit(m.group(3))
            v = S(val) if is_text(val) else val
            if lo is not None and v < lo:
                return False
            if hi is not None and (v > hi or (not m.group(2) and v == hi)):
                return False
            return True
        if t == "pstruct":
            if not isinstance(val, RStruct) or val.name.split("::")[-1] != pat[1].split("::")[-1]:
                if isinstance(val, RStruct) or isinstance(val, Enum):
                    return False
                raise NoEval("struct pattern")
            for fname, fp in pat[2]:
                if fname not in val.fields or not self.bind(fp, val.fields[fname], env):
                    return False
            return True
        raise NoEval("pattern " + t)

    def bind_seq(self, pats, vals, env, slice_=False):
        rest = [i for i, p in enumerate(pats) if is_node(p) and (p[0] == "prest" or (p[0] == "pident" and is_node(p[4]) and p[4][0] == "prest"))]
        if not rest:
            if len(pats) != len(vals):
                if slice_:
                    return False
                raise NoEval("pattern arity")
            return all(self.bind(p, v, env) for p, v in zip(pats, vals))
        k = rest[0]
        after = len(pats) - k - 1
        if len(vals) < k + after:
            return False
        if pats[k][0] == "pident":
            env[-1][pats[k][1]] = vals[k:len(vals) - after]
        return all(self.bind(p, v, env) for p, v in zip(pats[:k], vals[:k])) and \
            all(self.bind(p, v, env) for p, v in zip(pats[k + 1:], vals[len(vals) - after:]))

    # ------------------------------------------------------------ statements
    def block(self, stmts, env):
        env = env + [{}]
        last = UNIT
        for st in stmts:
            self.tick()
            k = st[0]
            if k == "let":
                if st[2] is None:
                    # `let x;` assigned later
                    if is_node(st[1]) and st[1][0] in ("pident", "ptype"):
                        p = st[1] if st[1][0] == "pident" else st[1][1]
                        env[-1][p[1]] = None
                        last = UNIT
                        continue
                    raise NoEval("let without initialiser")
                v = self.E(st[2], env)
                if not self.bind(st[1], v, env):
                    if len(st) > 3 and st[3] is not None:
                        self.E(st[3], env)
                        raise NoEval("let-else whose else block does not diverge")
                    raise NoEval("refutable let")
                last = UNIT
            elif k == "expr":
                v = self.E(st[1], env)
                last = UNIT if st[2] else v
            elif k == "item":
                last = UNIT
            else:
                raise NoEval("statement " + str(k))
        return last

    def cond(self, c, env):
        """a condition, possibly a let-chain; bindings of `let` go to env[-1]"""
        if is_node(c) and c[0] == "letc":
            return self.bind(c[1], self.E(c[2], env), env)
        if is_node(c) and c[0] == "bin" and c[1] == "&&" and any(is_node(x) and x[0] == "letc" for x in self.walk_and(c)):
            return self.cond(c[2], env) and self.cond(c[3], env)
        v = deref(self.E(c, env))
        if not isinstance(v, bool):
            raise NoEval("non-bool condition")
        return v

    def walk_and(self, c):
        if is_node(c) and c[0] == "bin" and c[1] == "&&":
            return self.walk_and(c[2]) + self.walk_and(c[3])
        return [c]

    def loop_body(self, body, env):
        """run one iteration; returns ('break', value) | None"""
        try:
            self.block(body, env)
        except _Continue:
            return None
        except _Break as b:
            return ("break", b.value)
        return None

    def iterate(self, v):
        v = deref(v)
        if isinstance(v, RIter):
            return v
        if isinstance(v, RRange):
            return RIter(v.items())
        if isinstance(v, (list, tuple)):
            return RIter(v)
        if isinstance(v, bytes):
            return RIter(list(v))
        if isinstance(v, RSet):
            return RIter(sorted(v.s, key=repr))
        if isinstance(v, Enum) and v.tag in ("Some", "None"):
            return RIter(list(v.vals))
        raise NoEval("iteration over %s" % type(v).__name__)

    # ------------------------------------------------------------ expressions
    def E(self, e, env):
        self.tick()
        if not is_node(e):
            raise NoEval("expression %r" % (e,))
        t = e[0]
        if t == "path":
            return self.path_value(e[1], env)
        if t == "int":
            v = int(e[1])
            return SInt(v) if (len(e) > 2 and e[2] in SIGNED) else v
        if t == "bool":
            return bool(e[1])
        if t == "str":
            return e[1]
        if t == "char":
            return e[1]
        if t == "lit":
            s = str(e[1])
            if s.startswith("b'") and s.endswith("'"):
                body = unescape(s[2:-1])
                return ord(body) if body else 32          # the token printer drops the blank of b' '
            raise NoEval("literal " + s[:20])
        if t == "ref":
            inner = e[2]
            if e[1] and is_node(inner) and inner[0] == "path":
                sc, v = self.lookup(inner[1], env)
                if sc is not None and not isinstance(v, (RString, list, RSet, RIter, RStruct, VarRef, RFile, RPath)):
                    return VarRef(sc, inner[1])
            return self.E(inner, env)
        if t == "un":
            if e[1] == "*":
                return deref(self.E(e[2], env))
            v = deref(self.E(e[2], env))
            if e[1] == "!":
                if isinstance(v, bool):
                    return not v
                raise NoEval("bitwise not")
            if e[1] == "-":
                return SInt(-v)
            raise NoEval("unary " + e[1])
        if t == "cast":
            return self.cast(deref(self.E(e[1], env)), str(e[2]).strip())
        if t == "tuple":
            return tuple(self.E(x, env) for x in e[1])
        if t == "array":
            return [self.E(x, env) for x in e[1]]
        if t == "repeat":
            return [self.E(e[1], env)] * self.E(e[2], env)
        if t in ("block", "unsafe"):
            return self.block(e[1], env)
        if t == "if":
            sc = env + [{}]
            if self.cond(e[1], sc):
                return self.block(e[2], sc)
            return self.E(e[3], env) if e[3] is not None else UNIT
        if t == "match":
            v = self.E(e[1], env)
            for arm in e[2]:
                sc = env + [{}]
                if self.bind(arm[0], v, sc) and (arm[1] is None or self.cond(arm[1], sc)):
                    return self.E(arm[2], sc)
            raise Panic("no match arm applies")
        if t == "while":
            while True:
                self.tick()
                sc = env + [{}]
                if not self.cond(e[1], sc):
                    break
                r = self.loop_body(e[2], sc)
                if r:
                    break
            return UNIT
        if t == "loop":
            while True:
                self.tick()
                r = self.loop_body(e[1], env)
                if r:
                    return r[1] if r[1] is not None else UNIT
        if t == "for":
            it = self.iterate(self.E(e[2], env))
            while True:
                self.tick()
                n = it.next()
                if n.tag == "None":
                    break
                sc = env + [{}]
                if not self.bind(e[1], n.vals[0], sc):
                    raise NoEval("refutable for pattern")
                r = self.loop_body(e[3], sc)
                if r:
                    break
            return UNIT
        if t == "break":
            raise _Break(self.E(e[1], env) if len(e) > 1 and e[1] is not None else None)
        if t == "continue":
            raise _Continue()
        if t == "ret":
            raise _Return(self.E(e[1], env) if e[1] is not None else UNIT)
        if t == "try":
            v = deref(self.E(e[1], env))
            if isinstance(v, Enum):
                if v.tag in ("Ok", "Some"):
                    return v.vals[0]
                if v.tag in ("Err", "None"):
                    raise _Return(v)
            raise NoEval("`?` on %s" % type(v).__name__)
        if t == "closure":
            return Closure(e[1], e[2], env, self)
        if t == "range":
            lo = deref(self.E(e[1], env)) if e[1] is not None else None
            hi = deref(self.E(e[2], env)) if e[2] is not None else None
            return RRange(lo, hi, bool(e[3]))
        if t == "index":
            return self.index(deref(self.E(e[1], env)), deref(self.E(e[2], env)))
        if t == "field":
            v = deref(self.E(e[1], env))
            f = str(e[2])
            if isinstance(v, tuple) and f.isdigit():
                return v[int(f)]
            if isinstance(v, RStruct) and f in v.fields:
                return v.fields[f]
            raise NoEval("field " + f)
        if t == "struct":
            return RStruct(e[1], {f[0]: self.E(f[1], env) for f in e[2]})
        if t == "assign":
            self.store(e[1], self.E(e[2], env), env)
            return UNIT
        if t == "bin":
            return self.binop(e, env)
        if t == "call":
            return self.call(e, env)
        if t == "mcall":
            return self.mcall(e, env)
        if t == "macro":
            return self.macro(e, env)
        if t == "letc":
            raise NoEval("let in expression position")
        raise NoEval("expression " + t)

    def cast(self, v, ty):
        if ty == "char":
            if isinstance(v, int):
                return chr(v)
            return v
        if ty in INT_KINDS or ty in SIGNED:
            if isinstance(v, str) and len(v) == 1:
                v = ord(v)
            if isinstance(v, bool):
                v = int(v)
            if not isinstance(v, int):
                raise NoEval("cast of %s" % type(v).__name__)
            if ty in SIGNED:
                bits = {"i8": 8, "i16": 16, "i32": 32, "i64": 64, "isize": 64, "i128": 128}[ty]
                v = int(v) & (2 ** bits - 1)
                return SInt(v - 2 ** bits if v >= 2 ** (bits - 1) else v)
            return int(v) & INT_KINDS[ty][1]
        if ty in ("_",) or ty.startswith("&") or ty.startswith("*"):
            return v
        raise NoEval("cast to " + ty)

    def const(self, name):
        if name not in self._const_cache:
            it = self.pick(self.consts, name)
            v = self.E(it["val"], [{}])
            if str(it.get("ty", "")) in SIGNED and type(v) is int:
                v = SInt(v)
            self._const_cache[name] = v
        return self._const_cache[name]

    def path_value(self, p, env):
        sc, v = self.lookup(p, env)
        if sc is not None:
            if v is None:
                raise NoEval("use of unassigned " + p)
            return v
        last = p.split("::")[-1]
        if last == "None":
            return NONE
        if "::" not in p or p.startswith(("self::", "crate::", "super::")):
            if self.pick(self.consts, last) is not None:
                return self.const(last)
        if last in ("MAX", "MIN") and "::" in p:
            ty = p.split("::")[-2]
            if ty in INT_KINDS:
                return INT_KINDS[ty][1] if last == "MAX" else 0
        if self.pick(self.consts, last) is not None and "::" in p:
            return self.const(last)
        segs = p.split("::")
        if len(segs) >= 2 and segs[-2] in self.variants and last in self.variants[segs[-2]]:
            return Enum(last)
        return FnRef(p)

    def index(self, b, i):
        if isinstance(b, RString):
            b = b.s
        if isinstance(i, RRange):
            lo, hi = i.lo, i.hi
            if hi is not None and i.incl:
                hi += 1
            if isinstance(b, str):
                return bslice(b, lo, hi)
            if isinstance(b, (bytes, list, tuple)):
                lo = 0 if lo is None else lo
                hi = len(b) if hi is None else hi
                if lo > hi:
                    raise Panic("slice index starts at %d but ends at %d" % (lo, hi))
                if hi > len(b) or lo < 0:
                    raise Panic("range end index %d out of range for slice of length %d" % (hi, len(b)))
                return b[lo:hi]
            raise NoEval("range index on %s" % type(b).__name__)
        if isinstance(i, int) and not isinstance(i, bool) and isinstance(b, (bytes, list, tuple)):
            if not (0 <= i < len(b)):
                raise Panic("index out of bounds: the len is %d but the index is %d" % (len(b), i))
            return b[i]
        raise NoEval("index %s[%s]" % (type(b).__name__, type(i).__name__))

    def store(self, lhs, val, env):
        if not is_node(lhs):
            raise NoEval("assignment target")
        if lhs[0] == "path":
            sc, cur = self.lookup(lhs[1], env)
            if sc is None:
                raise NoEval("assignment to unknown " + lhs[1])
            if isinstance(cur, VarRef):
                cur.set(val)
            else:
                sc[lhs[1]] = val
            return
        if lhs[0] == "un" and lhs[1] == "*":
            tgt = self.E(lhs[2], env)
            if isinstance(tgt, VarRef):
                tgt.set(val)
                return
            if isinstance(tgt, RString) and is_text(val):
                tgt.s = S(val)
                return
            if isinstance(tgt, list) and isinstance(val, list):
                tgt[:] = val
                return
            if isinstance(tgt, RSet) and isinstance(val, RSet):
                tgt.s = set(val.s)
                return
            raise NoEval("store through a reference to %s" % type(tgt).__name__)
        if lhs[0] == "index":
            b, i = deref(self.E(lhs[1], env)), deref(self.E(lhs[2], env))
            if isinstance(b, list) and isinstance(i, int):
                if not (0 <= i < len(b)):
                    raise Panic("index out of bounds: the len is %d but the index is %d" % (len(b), i))
                b[i] = val
                return
            raise NoEval("indexed store")
        if lhs[0] == "field":
            b = deref(self.E(lhs[1], env))
            if isinstance(b, RStruct):
                b.fields[str(lhs[2])] = val
                return
            raise NoEval("field store")
        raise NoEval("assignment target " + lhs[0])

    def arith(self, op, a, b):
        if op in ("==", "!="):
            r = veq(a, b)
            return r if op == "==" else not r
        if op in ("<", ">", "<=", ">="):
            if is_text(a) and is_text(b):
                a, b = S(a), S(b)
            elif isinstance(a, bool) or isinstance(b, bool) or not (isinstance(a, int) and isinstance(b, int)):
                if not (isinstance(a, tuple) and isinstance(b, tuple)):
                    raise NoEval("ordering of %s" % type(a).__name__)
            return {"<": a < b, ">": a > b, "<=": a <= b, ">=": a >= b}[op]
        if op == "+" and isinstance(a, RString) and is_text(b):
            return RString(a.s + S(b))
        if isinstance(a, bool) or isinstance(b, bool):
            if op in ("&", "|", "^") and isinstance(a, bool) and isinstance(b, bool):
                return {"&": a and b, "|": a or b, "^": a != b}[op]
            raise NoEval("arithmetic on bool")
        if not (isinstance(a, int) and isinstance(b, int)):
            raise NoEval("arithmetic %s %s %s" % (type(a).__name__, op, type(b).__name__))
        signed = isinstance(a, SInt) or isinstance(b, SInt)
        if op in ("/", "%") and b == 0:
            raise Panic("division by zero")
        if op == "/":
            v = abs(a) // abs(b) * (1 if (a >= 0) == (b >= 0) else -1)
        elif op == "%":
            v = abs(a) % abs(b) * (1 if a >= 0 else -1)
        else:
            try:
                v = {"+": lambda: a + b, "-": lambda: a - b, "*": lambda: a * b, "&": lambda: a & b, "|": lambda: a | b, "^": lambda: a ^ b,
                     "<<": lambda: a << b, ">>": lambda: a >> b}[op]()
            except KeyError:
                raise NoEval("operator " + op)
        if signed:
            return SInt(v)
        if v < 0:
            raise Panic("attempt to subtract with overflow (%d - %d)" % (a, b))
        return v

    def binop(self, e, env):
        op = e[1]
        if op == "&&":
            a = deref(self.E(e[2], env))
            if not isinstance(a, bool):
                raise NoEval("&& on non-bool")
            if not a:
                return False
            b = deref(self.E(e[3], env))
            if not isinstance(b, bool):
                raise NoEval("&& on non-bool")
            return b
        if op == "||":
            a = deref(self.E(e[2], env))
            if not isinstance(a, bool):
                raise NoEval("|| on non-bool")
            if a:
                return True
            b = deref(self.E(e[3], env))
            if not isinstance(b, bool):
                raise NoEval("|| on non-bool")
            return b
        if op.endswith("=") and op not in ("==", "!=", "<=", ">="):
            cur = deref(self.E(e[2], env))
            rhs = deref(self.E(e[3], env))
            if isinstance(cur, RString) and op == "+=":
                cur.s += S(rhs)
                return UNIT
            self.store(e[2], self.arith(op[:-1], cur, rhs), env)
            return UNIT
        return self.arith(op, deref(self.E(e[2], env)), deref(self.E(e[3], env)))

    # ------------------------------------------------------------ macros (format_args! and friends)
    def macro(self, e, env):
        name = str(e[1]).split("::")[-1]
        if name in ("format_args", "format", "const_format_args"):
            return self.format(e[3], env)
        raise NoEval("macro " + name)

    def mini_expr(self, toks):
        """AST of a `&`* ident (.ident | .ident() | .0)* token list (the argument forms format_args! carries)"""
        i = 0
        while i < len(toks) and toks[i] in ("&", "*", "mut"):
            i += 1
        if i >= len(toks) or not re.match(r"^[A-Za-z_]\w*$", toks[i]):
            return None
        node = ["path", toks[i]]
        i += 1
        while i < len(toks) and toks[i] == "::" and i + 1 < len(toks):
            node = ["path", node[1] + "::" + toks[i + 1]]
            i += 2
        while i < len(toks):
            if toks[i] == "." and i + 1 < len(toks):
                name = toks[i + 1]
                if i + 3 < len(toks) + 0 and toks[i + 2] == "(" and toks[i + 3] == ")":
                    node = ["mcall", node, name, None, []]
                    i += 4
                else:
                    node = ["field", node, name]
                    i += 2
            else:
                return None
        return node

    def format(self, raw, env):
        raw = str(raw).strip()
        m = re.match(r'^"((?:[^"\\]|\\.)*)"\s*(?:,(.*))?$', raw, re.S)
        if not m:
            raise NoEval("format string")
        fmt = unescape(m.group(1))
        args = []
        rest = (m.group(2) or "").strip()
        if rest:
            depth, cur, parts = 0, [], []
            for tok in re.findall(r'"(?:[^"\\]|\\.)*"|::|[A-Za-z_]\w*|\d+|\S', rest):
                if tok in "([{":
                    depth += 1
                elif tok in ")]}":
                    depth -= 1
                if tok == "," and depth == 0:
                    parts.append(cur)
                    cur = []
                else:
                    cur.append(tok)
            if cur:
                parts.append(cur)
            for p in parts:
                if len(p) >= 3 and p[1] == "=" and re.match(r"^[A-Za-z_]\w*$", p[0]):
                    p = p[2:]
                if len(p) == 1 and p[0].startswith('"'):
                    args.append(unescape(p[0][1:-1]))
                    continue
                node = self.mini_expr(p)
                if node is None:
                    raise NoEval("format argument " + " ".join(p)[:30])
                args.append(self.E(node, env))
        out = []
        i = 0
        nxt = 0
        while i < len(fmt):
            c = fmt[i]
            if c == "{" and fmt[i + 1:i + 2] == "{":
                out.append("{")
                i += 2
            elif c == "}" and fmt[i + 1:i + 2] == "}":
                out.append("}")
                i += 2
            elif c == "{":
                j = fmt.index("}", i)
                spec = fmt[i + 1:j]
                name, _, f = spec.partition(":")
                if name == "":
                    k = nxt
                    nxt += 1
                    v = args[k] if k < len(args) else None
                elif name.isdigit():
                    v = args[int(name)] if int(name) < len(args) else None
                else:
                    sc, v = self.lookup(name, env)
                if v is None:
                    raise NoEval("format argument {%s}" % spec)
                out.append(self.display(v, debug="?" in f))
                i = j + 1
            else:
                out.append(c)
                i += 1
        return RString("".join(out))

    def display(self, v, debug=False):
        v = deref(v)
        if is_text(v):
            return repr(S(v)).replace("'", '"') if debug else S(v)
        if isinstance(v, bool):
            return "true" if v else "false"
        if isinstance(v, int):
            return str(int(v))
        if isinstance(v, RPath):
            return ('"%s"' % v.p) if debug else v.p
        if isinstance(v, Enum) and debug:
            return v.tag + ("(%s)" % ", ".join(self.display(x, True) for x in v.vals) if v.vals else "")
        if isinstance(v, RStruct):
            return "%s{%s}" % (v.name, ",".join("%s:%s" % (k, self.display(x, True)) for k, x in v.fields.items()))
        if isinstance(v, tuple) and debug:
            return "(%s)" % ", ".join(self.display(x, True) for x in v)
        raise NoEval("display of %s" % type(v).__name__)

    # ------------------------------------------------------------ calls
    def call(self, e, env):
        f = e[1]
        if is_node(f) and f[0] == "path":
            sc, v = self.lookup(f[1], env)
            if sc is not None:
                return self.call_value(v, [self.E(a, env) for a in e[2]])
            p = f[1]
            last = p.split("::")[-1]
            if last in ("_print", "_eprint"):
                return UNIT
            if p.startswith("::core::panicking::") or p.startswith("core::panicking::") or last in ("begin_panic", "panic_fmt", "panic_display", "unreachable_display", "assert_failed"):
                raise Panic("explicit panic / failed assertion")
            return self.call_path(p, [self.E(a, env) for a in e[2]])
        return self.call_value(self.E(f, env), [self.E(a, env) for a in e[2]])

    def call_path(self, p, args):
        p = re.sub(r"<[^<>]*>", "", re.sub(r"<[^<>]*>", "", p)).replace("::::", "::")
        segs = [s for s in p.split("::") if s]
        last = segs[-1]
        ty = segs[-2] if len(segs) > 1 else ""
        a = [deref(x) for x in args]
        if last == "Some" and len(a) == 1:
            return Some(args[0])
        if last == "Ok" and len(a) == 1:
            return Ok(args[0])
        if last == "Err" and len(a) == 1:
            return Err(args[0])
        if ty in self.variants and last in self.variants[ty]:
            return Enum(last, args)
        if last in ("_print", "_eprint"):
            return UNIT
        if last == "into_vec" and len(a) == 1 and isinstance(a[0], list):
            return a[0]
        if last in ("box_new",) or (ty == "Box" and last == "new"):
            return args[0]
        if last == "from_elem" and len(a) == 2:
            return [args[0]] * a[1]
        if ty == "String":
            if last in ("new", "default") and not a:
                return RString("")
            if last == "with_capacity":
                return RString("")
            if last == "from" and len(a) == 1 and is_text(a[0]):
                return RString(S(a[0]))
            if last == "from_utf8_lossy" or last == "from_utf8":
                raise NoEval("String::" + last)
        if ty in ("Vec", "VecDeque") and last in ("new", "with_capacity", "default"):
            return []
        if ty in ("HashSet", "BTreeSet", "IndexSet") and last in ("new", "with_capacity", "default"):
            return RSet()
        if ty in ("Path", "PathBuf") and last in ("new", "from") and len(a) == 1:
            return RPath(S(a[0]) if is_text(a[0]) else a[0].p if isinstance(a[0], RPath) else self.noeval("Path::new argument"))
        if ty == "PathBuf" and last in ("new", "default") and not a:
            return RPath("")
        if ty == "File" and last == "open" and len(a) == 1:
            return self.fs_open(a[0])
        if ty == "fs" and last == "read_to_string" and len(a) == 1:
            r = self.fs_open(a[0])
            if r.tag == "Err":
                return r
            return Ok(RString(self.vfs.files[r.vals[0].path]))
        if ty == "fs" and last == "canonicalize" and len(a) == 1:
            return self.method(a[0], "canonicalize", [], None)
        if ty == "MechError" and last == "new":
            return RStruct("MechError", {"kind": args[0] if args else UNIT})
        if last == "must_use" and len(a) == 1:
            return args[0]
        if ty == "fmt" and last == "format" and len(a) == 1:
            return args[0]
        if ty in ("mem",) and last == "take" and len(args) == 1:
            return self.take(args[0])
        if ty == "mem" and last == "replace" and len(args) == 2:
            tgt = args[0]
            if isinstance(tgt, VarRef):
                old = tgt.get()
                tgt.set(args[1])
                return old
            if isinstance(tgt, RString):
                old = RString(tgt.s)
                tgt.s = S(args[1])
                return old
            raise NoEval("mem::replace")
        if ty == "cmp" and last in ("min", "max") and len(a) == 2:
            return min(a) if last == "min" else max(a)
        if ty in ("From", "Into", "convert") and last in ("from", "into") and len(a) == 1:
            return args[0]
        if ty == "drop" or (last == "drop" and len(a) == 1 and len(segs) <= 3 and not self.pick(self.fns, "drop")):
            return UNIT
        if last in ("_print", "_eprint"):
            return UNIT
        if ty == "char" and last == "from" and len(a) == 1:
            return chr(a[0]) if isinstance(a[0], int) else a[0]
        if ty in INT_KINDS and last == "from" and len(a) == 1:
            return self.cast(a[0], ty)
        # `Type::method(receiver, ..)`: a method of the modelled std types called by path
        if ty in ("str", "char", "String", "Option", "Result", "Path", "PathBuf", "u8", "usize", "Iterator", "slice", "ToString", "ToOwned", "Clone", "AsRef", "Deref") and args:
            return self.method(args[0], last, list(args[1:]), None)
        if len(segs) == 1 or segs[0] in ("self", "crate", "super", "Self"):
            if last in self.hooks or self.pick(self.fns, last) is not None:
                return self.traced(last, list(args))
        raise NoEval("function " + p)

    def noeval(self, what):
        raise NoEval(what)

    def traced(self, name, args):
        snap = [self.snapshot(x) for x in args]
        try:
            out = self.call_fn(name, args)
        except Panic as ex:
            if len(self.trace) < 4000:
                self.trace.append((name, snap, "panic: %s" % ex))
            raise
        if len(self.trace) < 4000:
            self.trace.append((name, snap, self.snapshot(out)))
        return out

    def snapshot(self, v):
        v = deref(v)
        if isinstance(v, RString):
            return v.s
        if isinstance(v, RSet):
            return ("set", len(v.s))
        if isinstance(v, tuple):
            return tuple(self.snapshot(x) for x in v)
        if isinstance(v, Enum):
            return Enum(v.tag, [self.snapshot(x) for x in v.vals])
        return v

    def take(self, tgt):
        if isinstance(tgt, VarRef):
            old = tgt.get()
            if isinstance(old, Enum) and old.tag in ("Some", "None"):
                tgt.set(NONE)
                return old
            if isinstance(old, str):
                tgt.set("")
                return old
            raise NoEval("mem::take of %s" % type(old).__name__)
        if isinstance(tgt, RString):
            old = RString(tgt.s)
            tgt.s = ""
            return old
        if isinstance(tgt, list):
            old = list(tgt)
            del tgt[:]
            return old
        raise NoEval("mem::take")

    def fs_open(self, p):
        if self.vfs is None:
            raise NoEval("file system access without a virtual file system")
        path = p.p if isinstance(p, RPath) else S(p)
        n = self.vfs.norm(path)
        self.vfs.opened.append(path)
        if n is None or n not in self.vfs.files:
            return Err(RStruct("io::Error", {"path": RString(path)}))
        return Ok(RFile(n))

    def mcall(self, e, env):
        recv_e, name, turbofish, arg_es = e[1], e[2], e[3], e[4]
        # `opt.take()` / `s.clear()` on a local: the receiver is a place
        if name in ("take", "replace", "insert", "get_or_insert_with") and is_node(recv_e) and recv_e[0] == "path":
            sc, cur = self.lookup(recv_e[1], env)
            if sc is not None and isinstance(deref(cur), Enum) and deref(cur).tag in ("Some", "None"):
                ref = cur if isinstance(cur, VarRef) else VarRef(sc, recv_e[1])
                if name == "take" and not arg_es:
                    return self.take(ref)
                if name == "replace" and len(arg_es) == 1:
                    old = ref.get()
                    ref.set(Some(self.E(arg_es[0], env)))
                    return old
                if name == "insert" and len(arg_es) == 1:
                    v = self.E(arg_es[0], env)
                    ref.set(Some(v))
                    return v
                raise NoEval("Option::" + name)
        recv = self.E(recv_e, env)
        args = [self.E(a, env) for a in arg_es]
        return self.method(recv, name, args, turbofish)

    # ------------------------------------------------------------ methods of the modelled std types
    def pred(self, p):
        """a str Pattern as (kind, value): char / text / predicate / set of chars"""
        p = deref(p)
        if isinstance(p, (Closure, FnRef)):
            return ("fn", lambda ch: self.truth(self.call_value(p, [ch])))
        if isinstance(p, (list, tuple)):
            chars = [S(x) for x in p]
            return ("fn", lambda ch: ch in chars)
        if is_text(p):
            return ("text", S(p))
        raise NoEval("pattern of %s" % type(p).__name__)

    def truth(self, v):
        v = deref(v)
        if not isinstance(v, bool):
            raise NoEval("predicate did not return a bool")
        return v

    def match_at(self, pat, s, i):
        """length (in chars) of a match of pattern at char index i, or None"""
        kind, p = pat
        if kind == "text":
            return len(p) if s.startswith(p, i) else None
        if i < len(s) and p(s[i]):
            return 1
        return None

    def find_from(self, pat, s, i):
        kind, p = pat
        if kind == "text":
            j = s.find(p, i)
            return (j, len(p)) if j >= 0 else None
        for j in range(i, len(s)):
            if p(s[j]):
                return (j, 1)
        return None

    def split(self, s, pat, inclusive=False, limit=None, terminator=False):
        out = []
        i = 0
        start = 0
        while limit is None or len(out) < limit - 1:
            f = self.find_from(pat, s, i)
            if f is None:
                break
            j, n = f
            if n == 0:
                # empty pattern: not modelled
                raise NoEval("split on an empty pattern")
            out.append(s[start:j + n] if inclusive else s[start:j])
            start = i = j + n
        tail = s[start:]
        if not ((inclusive or terminator) and tail == ""):
            out.append(tail)
        return out

    def trim(self, s, pat, left, right):
        a, b = 0, len(s)
        if left:
            while a < b:
                n = self.match_at(pat, s, a)
                if not n:
                    break
                a += n
        if right:
            kind, p = pat
            while b > a:
                if kind == "text":
                    if p and s.endswith(p, a, b):
                        b -= len(p)
                        continue
                    break
                if p(s[b - 1]):
                    b -= 1
                    continue
                break
        return s[a:b]

    def method(self, recv, name, args, turbofish=None):
        self.tick()
        v = deref(recv)
        a = [deref(x) for x in args]
        if name in ("clone", "to_owned", "cloned", "copied") and not a and not isinstance(v, (RIter, Enum)):
            if isinstance(v, RString):
                return RString(v.s)
            if isinstance(v, str):
                return RString(v) if name == "to_owned" else v
            if isinstance(v, list):
                return list(v)
            if isinstance(v, RSet):
                n = RSet()
                n.s = set(v.s)
                return n
            if isinstance(v, RPath):
                return RPath(v.p)
            return v
        if name in ("as_ref", "borrow", "as_mut", "borrow_mut", "deref", "as_deref", "by_ref", "as_str", "as_mut_str", "as_path", "as_slice", "as_deref_mut") and not a:
            return recv
        if name in ("into", "to_path_buf", "into_boxed_str", "into_string", "to_vec", "into_owned", "to_str_lossy") and not a:
            if isinstance(v, bytes) and name == "to_vec":
                return list(v)
            if isinstance(v, RPath):
                return RPath(v.p)
            return v
        if is_text(v):
            r = self.text_method(v, S(v), name, a, args, turbofish)
            if r is not NotImplemented:
                return r
        if isinstance(v, bool):
            if name == "then" and len(a) == 1:
                return Some(self.call_value(a[0], [])) if v else NONE
            if name == "then_some" and len(a) == 1:
                return Some(args[0]) if v else NONE
            if name == "not":
                return not v
        elif isinstance(v, int):
            r = self.int_method(v, name, a)
            if r is not NotImplemented:
                return r
        if isinstance(v, Enum):
            r = self.enum_method(v, name, a, args)
            if r is not NotImplemented:
                return r
        if isinstance(v, (bytes, list, tuple)) and not (isinstance(v, tuple) and name not in ("eq", "ne")):
            r = self.seq_method(v, name, a, args, turbofish)
            if r is not NotImplemented:
                return r
        if isinstance(v, (RIter, RRange)):
            it = v if isinstance(v, RIter) else None
            if isinstance(v, RRange):
                if name == "contains" and len(a) == 1:
                    x = a[0]
                    x = S(x) if is_text(x) else x
                    return (v.lo is None or v.lo <= x) and (v.hi is None or x < v.hi or (v.incl and x == v.hi))
                if name in ("len", "count") and not a:
                    return len(v.items())
                if name == "is_empty" and not a:
                    return not v.items()
                it = RIter(v.items())
            r = self.iter_method(it, name, a, args, turbofish)
            if r is not NotImplemented:
                return r
        if isinstance(v, RSet):
            key = lambda x: (x.s if isinstance(x, RString) else RPath(x.p) if isinstance(x, RPath) else x)
            if name == "contains" and len(a) == 1:
                return key(a[0]) in v.s
            if name == "insert" and len(a) == 1:
                k = key(a[0])
                if k in v.s:
                    return False
                v.s.add(k)
                return True
            if name == "remove" and len(a) == 1:
                k = key(a[0])
                if k in v.s:
                    v.s.discard(k)
                    return True
                return False
            if name == "len":
                return len(v.s)
            if name == "is_empty":
                return not v.s
            if name == "clear":
                v.s.clear()
                return UNIT
            if name in ("iter", "into_iter"):
                return RIter(sorted(v.s, key=repr))
        if isinstance(v, RPath):
            r = self.path_method(v, name, a)
            if r is not NotImplemented:
                return r
        if isinstance(v, RFile):
            if name == "read_to_string" and len(a) == 1 and isinstance(a[0], RString):
                txt = self.vfs.files[v.path]
                a[0].s += txt
                return Ok(blen(txt))
        if isinstance(v, RStruct):
            if name in ("with_compiler_loc", "with_tokens", "with_source", "with_location") :
                return v
            if name == "to_string" and not a:
                return RString(self.display(v))
        if isinstance(v, (Closure, FnRef)) and name in ("call", "call_mut", "call_once"):
            return self.call_value(v, list(a[0]) if a and isinstance(a[0], tuple) else a)
        if name in ("eq", "ne") and len(a) == 1:
            r = veq(v, a[0])
            return r if name == "eq" else not r
        raise NoEval("method %s on %s" % (name, type(v).__name__))

    def text_method(self, obj, s, name, a, args, turbofish):
        n = len(a)
        if name == "len" and n == 0:
            return blen(s)
        if name == "is_empty" and n == 0:
            return s == ""
        if name in ("to_string", "to_owned", "into_string") and n == 0:
            return RString(s)
        if name == "trim" and n == 0:
            return s.strip(WS)
        if name == "trim_start" and n == 0:
            return s.lstrip(WS)
        if name == "trim_end" and n == 0:
            return s.rstrip(WS)
        if name == "trim_ascii" and n == 0:
            return s.strip(" \t\n\r\x0c")
        if name == "trim_ascii_start" and n == 0:
            return s.lstrip(" \t\n\r\x0c")
        if name == "trim_ascii_end" and n == 0:
            return s.rstrip(" \t\n\r\x0c")
        if name in ("trim_matches", "trim_start_matches", "trim_end_matches", "trim_left_matches", "trim_right_matches") and n == 1:
            return self.trim(s, self.pred(a[0]), name in ("trim_matches", "trim_start_matches", "trim_left_matches"), name in ("trim_matches", "trim_end_matches", "trim_right_matches"))
        if name == "starts_with" and n == 1:
            return self.match_at(self.pred(a[0]), s, 0) is not None
        if name == "ends_with" and n == 1:
            kind, p = self.pred(a[0])
            return s.endswith(p) if kind == "text" else (s != "" and p(s[-1]))
        if name == "contains" and n == 1:
            return self.find_from(self.pred(a[0]), s, 0) is not None
        if name == "find" and n == 1:
            f = self.find_from(self.pred(a[0]), s, 0)
            return Some(c2b(s, f[0])) if f else NONE
        if name == "rfind" and n == 1:
            kind, p = self.pred(a[0])
            if kind == "text":
                j = s.rfind(p)
                return Some(c2b(s, j)) if j >= 0 else NONE
            for j in range(len(s) - 1, -1, -1):
                if p(s[j]):
                    return Some(c2b(s, j))
            return NONE
        if name == "strip_prefix" and n == 1:
            k = self.match_at(self.pred(a[0]), s, 0)
            return Some(s[k:]) if k is not None else NONE
        if name == "strip_suffix" and n == 1:
            kind, p = self.pred(a[0])
            if kind == "text":
                return Some(s[:len(s) - len(p)]) if s.endswith(p) else NONE
            return Some(s[:-1]) if s and p(s[-1]) else NONE
        if name == "split_inclusive" and n == 1:
            return RIter(self.split(s, self.pred(a[0]), inclusive=True))
        if name == "split" and n == 1:
            return RIter(self.split(s, self.pred(a[0])))
        if name == "split_terminator" and n == 1:
            return RIter(self.split(s, self.pred(a[0]), terminator=True))
        if name == "splitn" and n == 2:
            return RIter(self.split(s, self.pred(a[1]), limit=a[0]))
        if name == "split_once" and n == 1:
            f = self.find_from(self.pred(a[0]), s, 0)
            return Some((s[:f[0]], s[f[0] + f[1]:])) if f else NONE
        if name == "rsplit_once" and n == 1:
            kind, p = self.pred(a[0])
            if kind != "text":
                raise NoEval("rsplit_once with a predicate")
            j = s.rfind(p)
            return Some((s[:j], s[j + len(p):])) if j >= 0 else NONE
        if name == "split_whitespace" and n == 0:
            return RIter([x for x in re.split("[" + re.escape(WS) + "]+", s) if x])
        if name == "lines" and n == 0:
            ls = self.split(s, ("text", "\n"), terminator=True)
            return RIter([x[:-1] if x.endswith("\r") else x for x in ls])
        if name == "chars" and n == 0:
            return RIter(list(s))
        if name == "bytes" and n == 0:
            return RIter(list(s.encode("utf-8")))
        if name == "char_indices" and n == 0:
            return RIter([(c2b(s, i), ch) for i, ch in enumerate(s)])
        if name in ("as_bytes", "into_bytes") and n == 0:
            return s.encode("utf-8")
        if name == "split_at" and n == 1:
            return (bslice(s, 0, a[0]), bslice(s, a[0], None))
        if name == "get" and n == 1 and isinstance(a[0], RRange):
            try:
                return Some(self.index(s, a[0]))
            except Panic:
                return NONE
        if name == "is_char_boundary" and n == 1:
            try:
                b2c(s, a[0])
                return True
            except Panic:
                return False
        if name == "repeat" and n == 1:
            return RString(s * a[0])
        if name == "replace" and n == 2:
            kind, p = self.pred(a[0])
            if kind != "text":
                raise NoEval("replace with a predicate")
            return RString(s.replace(p, S(a[1])))
        if name == "to_lowercase" and n == 0:
            return RString(s.lower())
        if name == "to_uppercase" and n == 0:
            return RString(s.upper())
        if name in ("to_ascii_lowercase", "to_ascii_uppercase") and n == 0:
            f = (lambda c: c.lower()) if name.endswith("lowercase") else (lambda c: c.upper())
            r = "".join(f(c) if c.isascii() else c for c in s)
            return r if len(s) == 1 and isinstance(obj, str) else RString(r)
        if name == "eq_ignore_ascii_case" and n == 1:
            return s.lower() == S(a[0]).lower() if (s.isascii() and S(a[0]).isascii()) else self.noeval("eq_ignore_ascii_case on non-ascii")
        if name == "matches" and n == 1:
            pat = self.pred(a[0])
            out, i = [], 0
            while True:
                f = self.find_from(pat, s, i)
                if f is None or f[1] == 0:
                    break
                out.append(s[f[0]:f[0] + f[1]])
                i = f[0] + f[1]
            return RIter(out)
        # ---- char
        if len(s) == 1:
            c = s
            if name == "is_whitespace":
                return c in WS
            if name == "is_ascii_whitespace":
                return c in " \t\n\r\x0c"
            if name == "is_ascii":
                return c.isascii()
            if name == "is_ascii_digit":
                return c.isascii() and c.isdigit()
            if name == "is_ascii_alphabetic":
                return c.isascii() and c.isalpha()
            if name == "is_ascii_alphanumeric":
                return c.isascii() and c.isalnum()
            if name == "is_ascii_punctuation":
                return c.isascii() and not c.isalnum() and 33 <= ord(c) <= 126
            if name == "is_alphabetic":
                return c.isalpha()
            if name == "is_alphanumeric":
                return c.isalnum()
            if name == "is_numeric":
                return c.isnumeric()
            if name == "is_control":
                return ord(c) < 32 or 127 <= ord(c) < 160
            if name == "len_utf8":
                return len(c.encode("utf-8"))
            if name == "to_digit" and n == 1:
                try:
                    d = int(c, a[0])
                except ValueError:
                    return NONE
                return Some(d)
        if name == "is_ascii" and n == 0:
            return s.isascii()
        # ---- String mutation
        if isinstance(obj, RString):
            if name == "push_str" and n == 1:
                obj.s += S(a[0])
                return UNIT
            if name == "push" and n == 1:
                obj.s += S(a[0])
                return UNIT
            if name == "clear" and n == 0:
                obj.s = ""
                return UNIT
            if name == "insert_str" and n == 2:
                k = b2c(obj.s, a[0], "insert_str")
                obj.s = obj.s[:k] + S(a[1]) + obj.s[k:]
                return UNIT
            if name == "insert" and n == 2:
                k = b2c(obj.s, a[0], "insert")
                obj.s = obj.s[:k] + S(a[1]) + obj.s[k:]
                return UNIT
            if name == "truncate" and n == 1:
                if a[0] < blen(obj.s):
                    obj.s = obj.s[:b2c(obj.s, a[0], "truncate")]
                return UNIT
            if name == "pop" and n == 0:
                if not obj.s:
                    return NONE
                c = obj.s[-1]
                obj.s = obj.s[:-1]
                return Some(c)
            if name == "extend" and n == 1:
                for x in self.iterate(a[0]).rest():
                    obj.s += S(x)
                return UNIT
            if name in ("reserve", "shrink_to_fit", "reserve_exact"):
                return UNIT
            if name in ("write_fmt", "write_str") and n == 1:
                obj.s += S(a[0])
                return Ok(UNIT)
            if name == "write_char" and n == 1:
                obj.s += S(a[0])
                return Ok(UNIT)
        return NotImplemented

    def int_method(self, v, name, a):
        n = len(a)
        if name in ("saturating_sub",) and n == 1:
            return max(0, v - a[0]) if not isinstance(v, SInt) else SInt(v - a[0])
        if name == "checked_sub" and n == 1:
            return Some(v - a[0]) if (v - a[0] >= 0 or isinstance(v, SInt)) else NONE
        if name in ("checked_add", "checked_mul") and n == 1:
            return Some(v + a[0] if name == "checked_add" else v * a[0])
        if name in ("saturating_add", "wrapping_add") and n == 1:
            return v + a[0]
        if name == "wrapping_sub" and n == 1:
            return (v - a[0]) % (2 ** 64) if not isinstance(v, SInt) else SInt(v - a[0])
        if name in ("min", "max") and n == 1:
            return min(v, a[0]) if name == "min" else max(v, a[0])
        if name == "pow" and n == 1:
            return v ** a[0]
        if name == "abs_diff" and n == 1:
            return abs(int(v) - int(a[0]))
        if name == "to_string" and n == 0:
            return RString(str(int(v)))
        if name == "clamp" and n == 2:
            return max(a[0], min(v, a[1]))
        if 0 <= v < 256:
            c = chr(v)
            if name == "is_ascii_whitespace":
                return c in " \t\n\r\x0c"
            if name == "is_ascii_digit":
                return c.isdigit() and v < 128
            if name == "is_ascii_alphabetic":
                return c.isalpha() and v < 128
            if name == "is_ascii_alphanumeric":
                return c.isalnum() and v < 128
            if name == "is_ascii":
                return v < 128
            if name == "is_ascii_punctuation":
                return 33 <= v <= 126 and not c.isalnum()
            if name in ("to_ascii_lowercase", "to_ascii_uppercase"):
                return ord(c.lower() if name.endswith("lowercase") else c.upper()) if v < 128 else v
        return NotImplemented

    def enum_method(self, v, name, a, args):
        n = len(a)
        tag = v.tag
        x = v.vals[0] if v.vals else None
        call = self.call_value
        if tag in ("Some", "None"):
            some = tag == "Some"
            if name == "is_some":
                return some
            if name == "is_none":
                return not some
            if name in ("unwrap", "expect"):
                if not some:
                    raise Panic("called `Option::%s()` on a `None` value" % name)
                return x
            if name == "unwrap_or" and n == 1:
                return x if some else args[0]
            if name == "unwrap_or_else" and n == 1:
                return x if some else call(a[0], [])
            if name == "map" and n == 1:
                return Some(call(a[0], [x])) if some else NONE
            if name == "and_then" and n == 1:
                return call(a[0], [x]) if some else NONE
            if name == "filter" and n == 1:
                return v if some and self.truth(call(a[0], [x])) else NONE
            if name == "ok_or" and n == 1:
                return Ok(x) if some else Err(args[0])
            if name == "ok_or_else" and n == 1:
                return Ok(x) if some else Err(call(a[0], []))
            if name == "or" and n == 1:
                return v if some else a[0]
            if name == "or_else" and n == 1:
                return v if some else call(a[0], [])
            if name == "and" and n == 1:
                return a[0] if some else NONE
            if name == "xor" and n == 1:
                o = a[0]
                return v if some and o.tag == "None" else o if (not some and o.tag == "Some") else NONE
            if name == "map_or" and n == 2:
                return call(a[1], [x]) if some else args[0]
            if name == "map_or_else" and n == 2:
                return call(a[1], [x]) if some else call(a[0], [])
            if name == "is_some_and" and n == 1:
                return some and self.truth(call(a[0], [x]))
            if name == "is_none_or" and n == 1:
                return (not some) or self.truth(call(a[0], [x]))
            if name in ("copied", "cloned", "as_ref", "as_deref", "as_mut") and n == 0:
                return v
            if name in ("iter", "into_iter") and n == 0:
                return RIter([x] if some else [])
            if name == "zip" and n == 1:
                return Some((x, a[0].vals[0])) if some and a[0].tag == "Some" else NONE
            if name == "flatten" and n == 0:
                return deref(x) if some else NONE
            if name == "unzip" and n == 0:
                return (Some(x[0]), Some(x[1])) if some else (NONE, NONE)
            if name == "contains" and n == 1:
                return some and veq(x, a[0])
            if name == "inspect" and n == 1:
                if some:
                    call(a[0], [x])
                return v
        if tag in ("Ok", "Err"):
            ok = tag == "Ok"
            if name == "is_ok":
                return ok
            if name == "is_err":
                return not ok
            if name == "ok" and n == 0:
                return Some(x) if ok else NONE
            if name == "err" and n == 0:
                return NONE if ok else Some(x)
            if name in ("unwrap", "expect"):
                if not ok:
                    raise Panic("called `Result::%s()` on an `Err` value" % name)
                return x
            if name in ("unwrap_err", "expect_err"):
                if ok:
                    raise Panic("called `Result::unwrap_err()` on an `Ok` value")
                return x
            if name == "unwrap_or" and n == 1:
                return x if ok else args[0]
            if name == "unwrap_or_else" and n == 1:
                return x if ok else call(a[0], [x])
            if name == "map" and n == 1:
                return Ok(call(a[0], [x])) if ok else v
            if name == "map_err" and n == 1:
                return v if ok else Err(call(a[0], [x]))
            if name == "and_then" and n == 1:
                return call(a[0], [x]) if ok else v
            if name == "or_else" and n == 1:
                return v if ok else call(a[0], [x])
            if name == "and" and n == 1:
                return a[0] if ok else v
            if name == "or" and n == 1:
                return v if ok else a[0]
            if name == "map_or" and n == 2:
                return call(a[1], [x]) if ok else args[0]
            if name == "map_or_else" and n == 2:
                return call(a[1], [x]) if ok else call(a[0], [x])
            if name == "is_ok_and" and n == 1:
                return ok and self.truth(call(a[0], [x]))
            if name == "is_err_and" and n == 1:
                return (not ok) and self.truth(call(a[0], [x]))
            if name in ("as_ref", "as_mut", "copied", "cloned", "as_deref") and n == 0:
                return v
            if name in ("iter", "into_iter") and n == 0:
                return RIter([x] if ok else [])
            if name == "inspect_err" and n == 1:
                if not ok:
                    call(a[0], [x])
                return v
        if name == "clone" and n == 0:
            return v
        return NotImplemented

    def seq_method(self, v, name, a, args, turbofish):
        n = len(a)
        if name == "len" and n == 0:
            return len(v)
        if name == "is_empty" and n == 0:
            return len(v) == 0
        if name in ("iter", "into_iter", "iter_mut") and n == 0:
            return RIter(list(v))
        if name == "get" and n == 1:
            if isinstance(a[0], RRange):
                try:
                    return Some(self.index(v, a[0]))
                except Panic:
                    return NONE
            return Some(v[a[0]]) if 0 <= a[0] < len(v) else NONE
        if name == "first" and n == 0:
            return Some(v[0]) if len(v) else NONE
        if name == "last" and n == 0:
            return Some(v[-1]) if len(v) else NONE
        if name == "contains" and n == 1:
            return any(veq(x, a[0]) for x in v)
        if name == "starts_with" and n == 1:
            o = list(a[0])
            return list(v[:len(o)]) == o
        if name == "ends_with" and n == 1:
            o = list(a[0])
            return len(o) <= len(v) and list(v[len(v) - len(o):]) == o
        if name == "split_at" and n == 1:
            if a[0] > len(v):
                raise Panic("split_at: mid > len")
            return (v[:a[0]], v[a[0]:])
        if name == "split_first" and n == 0:
            return Some((v[0], v[1:])) if len(v) else NONE
        if name == "split_last" and n == 0:
            return Some((v[-1], v[:-1])) if len(v) else NONE
        if name == "concat" and n == 0 and all(is_text(x) for x in v):
            return RString("".join(S(x) for x in v))
        if name == "join" and n == 1 and all(is_text(x) for x in v):
            return RString(S(a[0]).join(S(x) for x in v))
        if isinstance(v, list):
            if name == "push" and n == 1:
                v.append(args[0])
                return UNIT
            if name == "pop" and n == 0:
                return Some(v.pop()) if v else NONE
            if name == "clear" and n == 0:
                del v[:]
                return UNIT
            if name == "extend" and n == 1:
                v.extend(self.iterate(a[0]).rest())
                return UNIT
            if name == "insert" and n == 2:
                if a[0] > len(v):
                    raise Panic("insertion index out of bounds")
                v.insert(a[0], args[1])
                return UNIT
            if name == "remove" and n == 1:
                if not (0 <= a[0] < len(v)):
                    raise Panic("removal index out of bounds")
                return v.pop(a[0])
            if name == "truncate" and n == 1:
                del v[a[0]:]
                return UNIT
            if name in ("reserve", "shrink_to_fit"):
                return UNIT
        return NotImplemented

    def iter_method(self, it, name, a, args, turbofish):
        n = len(a)
        call = self.call_value
        if name in ("iter", "into_iter", "peekable", "fuse", "copied", "cloned", "by_ref") and n == 0:
            return it
        if name == "next" and n == 0:
            return it.next()
        if name == "peek" and n == 0:
            return Some(it.items[it.pos]) if it.pos < len(it.items) else NONE
        if name == "next_if" and n == 1:
            if it.pos < len(it.items) and self.truth(call(a[0], [it.items[it.pos]])):
                return it.next()
            return NONE
        if name == "next_if_eq" and n == 1:
            if it.pos < len(it.items) and veq(it.items[it.pos], a[0]):
                return it.next()
            return NONE
        if name == "next_back" and n == 0:
            if it.pos < len(it.items):
                return Some(it.items.pop())
            return NONE
        if name == "nth" and n == 1:
            it.pos = min(len(it.items), it.pos + a[0])
            return it.next()
        # whole-iterator adapters are evaluated eagerly (closures with side effects on a partially consumed iterator are not modelled)
        if name == "take_while" and n == 1:
            out = []
            while it.pos < len(it.items) and self.truth(call(a[0], [it.items[it.pos]])):
                out.append(it.items[it.pos])
                it.pos += 1
            if it.pos < len(it.items):
                it.pos += 1           # the first rejected item is consumed as well
            return RIter(out)
        if name == "map_while" and n == 1:
            out = []
            while it.pos < len(it.items):
                r = deref(call(a[0], [it.items[it.pos]]))
                it.pos += 1
                if r.tag != "Some":
                    break
                out.append(r.vals[0])
            return RIter(out)
        if name == "take" and n == 1:
            out = it.items[it.pos:it.pos + a[0]]
            it.pos = min(len(it.items), it.pos + a[0])
            return RIter(out)
        items = it.rest() if name not in ("len", "size_hint") else it.items[it.pos:]
        if name == "len" and n == 0:
            return len(items)
        if name == "skip" and n == 1:
            return RIter(items[a[0]:])
        if name == "skip_while" and n == 1:
            k = 0
            while k < len(items) and self.truth(call(a[0], [items[k]])):
                k += 1
            return RIter(items[k:])
        if name == "step_by" and n == 1:
            return RIter(items[::a[0]])
        if name == "map" and n == 1:
            return RIter([call(a[0], [x]) for x in items])
        if name == "inspect" and n == 1:
            for x in items:
                call(a[0], [x])
            return RIter(items)
        if name == "filter" and n == 1:
            return RIter([x for x in items if self.truth(call(a[0], [x]))])
        if name == "filter_map" and n == 1:
            out = []
            for x in items:
                r = deref(call(a[0], [x]))
                if r.tag == "Some":
                    out.append(r.vals[0])
            return RIter(out)
        if name == "flat_map" and n == 1:
            out = []
            for x in items:
                out.extend(self.iterate(call(a[0], [x])).rest())
            return RIter(out)
        if name == "flatten" and n == 0:
            out = []
            for x in items:
                out.extend(self.iterate(x).rest())
            return RIter(out)
        if name == "enumerate" and n == 0:
            return RIter([(i, x) for i, x in enumerate(items)])
        if name == "rev" and n == 0:
            return RIter(items[::-1])
        if name == "zip" and n == 1:
            return RIter(list(zip(items, self.iterate(a[0]).rest())))
        if name == "chain" and n == 1:
            return RIter(items + self.iterate(a[0]).rest())
        if name == "count" and n == 0:
            return len(items)
        if name == "last" and n == 0:
            return Some(items[-1]) if items else NONE
        if name == "all" and n == 1:
            for x in items:
                if not self.truth(call(a[0], [x])):
                    return False
            return True
        if name == "any" and n == 1:
            for x in items:
                if self.truth(call(a[0], [x])):
                    return True
            return False
        if name == "position" and n == 1:
            for i, x in enumerate(items):
                if self.truth(call(a[0], [x])):
                    return Some(i)
            return NONE
        if name == "rposition" and n == 1:
            for i in range(len(items) - 1, -1, -1):
                if self.truth(call(a[0], [items[i]])):
                    return Some(i)
            return NONE
        if name == "find" and n == 1:
            for i, x in enumerate(items):
                if self.truth(call(a[0], [x])):
                    it.items, it.pos = items, i + 1
                    return Some(x)
            return NONE
        if name == "find_map" and n == 1:
            for x in items:
                r = deref(call(a[0], [x]))
                if r.tag == "Some":
                    return r
            return NONE
        if name == "for_each" and n == 1:
            for x in items:
                call(a[0], [x])
            return UNIT
        if name == "fold" and n == 2:
            acc = args[0]
            for x in items:
                acc = call(a[1], [acc, x])
            return acc
        if name == "try_for_each" and n == 1:
            for x in items:
                r = deref(call(a[0], [x]))
                if r.tag in ("Err", "None"):
                    return r
            return Ok(UNIT)
        if name == "sum" and n == 0:
            return sum(items)
        if name in ("min", "max") and n == 0:
            if not items:
                return NONE
            return Some(min(items) if name == "min" else max(items))
        if name == "collect" and n == 0:
            tf = (turbofish or "").replace(" ", "")
            if "String" in tf and "Vec" not in tf:
                return RString("".join(S(x) for x in items))
            if tf.startswith("::<Vec") or tf.startswith("<Vec") or "Vec<" in tf:
                return list(items)
            if "HashSet" in tf:
                s = RSet()
                s.s = set(items)
                return s
            return Uncollected(items)
        if name == "unzip" and n == 0:
            return ([x[0] for x in items], [x[1] for x in items])
        return NotImplemented

    def path_method(self, v, name, a):
        n = len(a)
        p = v.p
        if name == "parent" and n == 0:
            if p in ("", "/"):
                return NONE
            q = p.rstrip("/")
            if "/" not in q:
                return Some(RPath(""))
            head = q.rsplit("/", 1)[0]
            return Some(RPath(head if head else "/"))
        if name == "join" and n == 1:
            o = a[0].p if isinstance(a[0], RPath) else S(a[0])
            if o.startswith("/"):
                return RPath(o)
            if p == "":
                return RPath(o)
            return RPath(p.rstrip("/") + "/" + o if p != "/" else "/" + o)
        if name == "push" and n == 1:
            v.p = self.path_method(v, "join", a).p
            return UNIT
        if name == "pop" and n == 0:
            par = self.path_method(v, "parent", [])
            if par.tag == "None":
                return False
            v.p = par.vals[0].p
            return True
        if name in ("set_file_name", "with_file_name") and n == 1:
            par = self.path_method(v, "parent", [])
            base = par.vals[0] if par.tag == "Some" else RPath("")
            q = self.path_method(base, "join", a)
            if name == "with_file_name":
                return q
            v.p = q.p
            return UNIT
        if name == "canonicalize" and n == 0:
            if self.vfs is None:
                raise NoEval("canonicalize without a virtual file system")
            c = self.vfs.canonicalize(p)
            return Ok(RPath(c)) if c is not None else Err(RStruct("io::Error", {"path": RString(p)}))
        if name in ("exists", "try_exists", "is_file", "is_dir") and n == 0:
            if self.vfs is None:
                raise NoEval("fs access")
            c = self.vfs.canonicalize(p)
            r = c is not None and (name in ("exists", "try_exists") or (c in self.vfs.files) == (name == "is_file"))
            return Ok(r) if name == "try_exists" else r
        if name == "display" and n == 0:
            return p
        if name == "to_string_lossy" and n == 0:
            return p
        if name == "to_str" and n == 0:
            return Some(p)
        if name in ("as_os_str", "into_os_string") and n == 0:
            return p
        if name == "is_absolute" and n == 0:
            return p.startswith("/")
        if name == "is_relative" and n == 0:
            return not p.startswith("/")
        if name == "file_name" and n == 0:
            q = p.rstrip("/")
            return Some(q.rsplit("/", 1)[-1]) if q and not q.endswith("..") else NONE
        if name == "extension" and n == 0:
            fn = p.rstrip("/").rsplit("/", 1)[-1]
            if "." in fn[1:]:
                return Some(fn.rsplit(".", 1)[1])
            return NONE
        if name == "starts_with" and n == 1:
            o = a[0].p if isinstance(a[0], RPath) else S(a[0])
            return p == o or p.startswith(o.rstrip("/") + "/")
        if name in ("to_string",) and n == 0:
            raise NoEval("Path::to_string")
        return NotImplemented


def texts_in(v, depth=0):
    """every text inside a value (the message of an error value, whatever struct carries it)"""
    v = deref(v)
    out = []
    if depth > 8:
        return out
    if is_text(v):
        out.append(S(v))
    elif isinstance(v, RPath):
        out.append(v.p)
    elif isinstance(v, Enum):
        out.append(v.tag)
        for x in v.vals:
            out += texts_in(x, depth + 1)
    elif isinstance(v, RStruct):
        out.append(v.name)
        for x in v.fields.values():
            out += texts_in(x, depth + 1)
    elif isinstance(v, (tuple, list)):
        for x in v:
            out += texts_in(x, depth + 1)
    return out


LABEL_RX = re.compile(r"(?:\bbreak|\bcontinue)\s+'[A-Za-z_]\w*\b(?!')|'[A-Za-z_]\w*\s*:\s*(?:for|while|loop)\b")


def labelled_functions(items, src_lines):
    """names of the free functions whose (expanded) source text uses loop labels.  The syntax facts carry neither the label of a loop nor
    the target of a break / continue, so such a function cannot be interpreted faithfully: it is reported as not interpretable."""
    starts = sorted({it["line"] for it in items if isinstance(it.get("line"), int)})
    out = set()
    for it in items:
        if it.get("k") != "fn" or not isinstance(it.get("line"), int):
            continue
        lo = it["line"]
        nxt = [x for x in starts if x > lo]
        hi = nxt[0] if nxt else len(src_lines) + 1
        if LABEL_RX.search("\n".join(src_lines[lo - 1:hi - 1])):
            out.add(it["name"])
    return out
