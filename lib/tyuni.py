"""Type strings of the MIR facts as trees: parsing, substitution of type parameters, one-way unification, impl selection.

The MIR facts print types in two spellings: generic arguments of calls (`ga`) without blanks and without lifetimes
(`core::cell::Ref<nalgebra::base::matrix::Matrix<T,..>>`), definition paths of impl methods with blanks and lifetimes
(`<core::cell::Ref<'_, T> as core::ops::deref::Deref>::deref`).  Both parse to the same tree here.

A tree is a tuple:
    ("p", head, (args..))      path type, `head` the full path without generic arguments
    ("&", inner) / ("&mut", inner) / ("*", inner)
    ("()", (elems..))          tuple
    ("[]", inner, n|None)      slice (n None) or array
    ("?", text)                anything else (dyn, fn pointers, closures ...): compared by text

A *type parameter* is a path without `::` and without arguments that is not a primitive type (`T`, `A`, `I`, `Self`).
Nothing here knows a Mech type by name.
"""
import re

PRIMS = {"u8", "u16", "u32", "u64", "u128", "usize", "i8", "i16", "i32", "i64", "i128", "isize", "f32", "f64", "bool", "char", "str", "!", "_"}


def split_top(s, sep=","):
    out, depth, cur = [], 0, []
    for ch in s:
        if ch in "<([{":
            depth += 1
        elif ch in ">)]}":
            depth -= 1
        if ch == sep and depth == 0:
            out.append("".join(cur))
            cur = []
        else:
            cur.append(ch)
    if cur or out:
        out.append("".join(cur))
    return [x.strip() for x in out if x.strip()]


_memo = {}


def parse(s):
    s = s.strip()
    t = _memo.get(s)
    if t is None:
        t = _parse(s)
        if len(_memo) < 200000:
            _memo[s] = t
    return t


def _parse(s):
    if not s:
        return ("?", "")
    if s[0] == "&":
        r = s[1:].lstrip()
        r = re.sub(r"^'\w+\s*", "", r)
        if r.startswith("mut ") or r.startswith("mut\t"):
            return ("&mut", parse(r[4:]))
        return ("&", parse(r))
    if s.startswith("*const ") or s.startswith("*mut "):
        return ("*", parse(s.split(" ", 1)[1]))
    if s[0] == "(" and s.endswith(")"):
        return ("()", tuple(parse(x) for x in split_top(s[1:-1])))
    if s[0] == "[" and s.endswith("]"):
        parts = split_top(s[1:-1], ";")
        if len(parts) == 2:
            m = re.match(r"^\s*(\d+)", parts[1])
            return ("[]", parse(parts[0]), int(m.group(1)) if m else None)
        return ("[]", parse(parts[0]) if parts else ("?", ""), None)
    if s.startswith("dyn ") or s.startswith("fn(") or s.startswith("impl ") or s.startswith("F{") or s.startswith("C{") or s.startswith("unsafe ") or s.startswith("extern "):
        return ("?", s)
    if s[0] == "<":
        return ("?", s)          # qualified path `<T as Trait>::Assoc`
    i = s.find("<")
    if i < 0:
        return ("p", s, ())
    if not s.endswith(">"):
        return ("?", s)
    head = s[:i]
    if head.endswith("::"):
        head = head[:-2]
    args = tuple(parse(a) for a in split_top(s[i + 1:-1]) if not a.startswith("'"))
    return ("p", head, args)


def is_param(t):
    return t[0] == "p" and not t[2] and "::" not in t[1] and t[1] not in PRIMS and re.fullmatch(r"[A-Za-z_]\w*", t[1]) is not None


def show(t):
    k = t[0]
    if k == "p":
        return t[1] + ("<%s>" % ",".join(show(a) for a in t[2]) if t[2] else "")
    if k in ("&", "&mut"):
        return k + (" " if k == "&mut" else "") + show(t[1])
    if k == "*":
        return "*" + show(t[1])
    if k == "()":
        return "(%s)" % ",".join(show(a) for a in t[1])
    if k == "[]":
        return "[%s%s]" % (show(t[1]), "" if t[2] is None else ";%d" % t[2])
    return t[1]


def short(t):
    """readable name: last path segments only (`Matrix<u8>`)"""
    k = t[0]
    if k == "p":
        return t[1].split("::")[-1] + ("<%s>" % ",".join(short(a) for a in t[2]) if t[2] else "")
    if k in ("&", "&mut", "*"):
        return short(t[1])
    if k == "()":
        return "(%s)" % ",".join(short(a) for a in t[1])
    if k == "[]":
        return "[%s%s]" % (short(t[1]), "" if t[2] is None else ";%d" % t[2])
    return t[1]


def subst(t, env):
    k = t[0]
    if k == "p":
        if is_param(t) and t[1] in env:
            return env[t[1]]
        if not t[2]:
            return t
        return ("p", t[1], tuple(subst(a, env) for a in t[2]))
    if k in ("&", "&mut", "*"):
        return (k, subst(t[1], env))
    if k == "()":
        return ("()", tuple(subst(a, env) for a in t[1]))
    if k == "[]":
        return ("[]", subst(t[1], env), t[2])
    return t


def has_params(t):
    k = t[0]
    if k == "p":
        return is_param(t) or any(has_params(a) for a in t[2])
    if k in ("&", "&mut", "*"):
        return has_params(t[1])
    if k == "()":
        return any(has_params(a) for a in t[1])
    if k == "[]":
        return has_params(t[1])
    return False


def unify(pat, con, env):
    """bind the parameters of `pat` so that it equals `con`; extends env; returns True/False"""
    if is_param(pat):
        b = env.get(pat[1])
        if b is None:
            env[pat[1]] = con
            return True
        return b == con
    if pat[0] != con[0]:
        return False
    k = pat[0]
    if k == "p":
        if pat[1] != con[1] or len(pat[2]) != len(con[2]):
            # allocator / hasher defaults may be elided on one side: compare the common prefix of the arguments
            if pat[1] != con[1]:
                return False
            n = min(len(pat[2]), len(con[2]))
            return all(unify(a, b, env) for a, b in zip(pat[2][:n], con[2][:n]))
        return all(unify(a, b, env) for a, b in zip(pat[2], con[2]))
    if k in ("&", "&mut", "*"):
        return unify(pat[1], con[1], env)
    if k == "()":
        return len(pat[1]) == len(con[1]) and all(unify(a, b, env) for a, b in zip(pat[1], con[1]))
    if k == "[]":
        return pat[2] == con[2] and unify(pat[1], con[1], env)
    return pat[1] == con[1]


def strip_refs(t):
    while t[0] in ("&", "&mut", "*"):
        t = t[1]
    return t


IMPL_KEY = re.compile(r"^<(.+) as ([^<>]+(?:<.*>)?)>::(\w+)$")


def impl_self(key):
    """`<SELF as TRAIT>::method` -> (self tree, trait path without generics, method) or None"""
    if not key.startswith("<"):
        return None
    depth = 0
    for i, ch in enumerate(key):
        if ch in "<([":
            depth += 1
        elif ch in ">)]":
            depth -= 1
            if depth == 0:
                inner, rest = key[1:i], key[i + 1:]
                break
    else:
        return None
    if not rest.startswith("::"):
        return None
    # split `SELF as TRAIT` at the top-level " as "
    d = 0
    cut = None
    j = 0
    while j < len(inner):
        ch = inner[j]
        if ch in "<([":
            d += 1
        elif ch in ">)]":
            d -= 1
        elif d == 0 and inner.startswith(" as ", j):
            cut = j
        j += 1
    if cut is None:
        return None
    tr = inner[cut + 4:]
    k = tr.find("<")
    return parse(inner[:cut]), (tr[:k] if k >= 0 else tr), rest[2:]


class Resolver:
    """callee of a MIR call terminator under a binding of the caller's type parameters"""

    def __init__(self, bodies):
        self.bodies = bodies
        self.impls = {}
        for k in bodies:
            r = impl_self(k)
            if r:
                self.impls.setdefault((r[1], r[2]), []).append((k, r[0]))

    def callee(self, t, env):
        """-> (key of a body, env of the callee) or (None, None) when the callee has no body here / is not determined"""
        f = t.get("f")
        tf = t.get("tf")
        ga = [subst(parse(g), env) for g in t.get("ga", [])]
        if f and f in self.bodies:
            r = impl_self(f)
            e2 = {}
            if r and ga:
                if not unify(r[0], ga[0], e2):
                    e2 = {}
            return f, e2
        if f is None and tf in self.bodies and not tf.startswith("<"):
            # inherent / free function: bind `::<A, B>` groups positionally
            names = []
            for grp in re.findall(r"::<([^<>]*(?:<[^<>]*>[^<>]*)*)>", tf):
                names += [x for x in split_top(grp) if re.fullmatch(r"[A-Z]\w*", x)]
            return tf, {n: g for n, g in zip(names, ga)}
        if tf and ga and not has_params(ga[0]):
            m = re.match(r"^(.*)::(\w+)$", tf)
            if m:
                best = None
                for k, pat in self.impls.get((m.group(1), m.group(2)), ()):
                    e2 = {}
                    if unify(pat, ga[0], e2):
                        if best is None or len(e2) < len(best[1]):
                            best = (k, e2)
                if best:
                    return best
        return None, None
