"""Refactoring-insensitive queries over the syn JSON ASTs.

Three services, all independent of how a local happens to be spelled:

* `Scope`  - lexical resolution: every single-segment path is resolved to the `Binding` that introduces it (parameter, `let`,
             pattern of a `match` arm / `if let` / `let .. else`, `for` pattern, closure parameter), with the expression the binding
             was made from.  On top of it: `expand` (a named local or a `const` stands for its initialiser), `chain` (where a value
             comes from, through aliases and destructuring patterns), `inline` (a call of a same-crate helper is looked at as the
             helper's body with the parameters bound to the arguments and the helper's own locals renamed apart).
* `calls_via` - "find the calls that satisfy P in this code, also when they were moved into a private helper (one or two levels)".
* `Flow` / `truth` - path conditions at every `return` / `break` / `continue` and at the end of a statement list (guard clauses,
             nested ifs, `match` on a bool, `let .. else`), and a three-valued evaluation of a condition under assumptions about its
             atoms (`!`, `&&`, `||`, De Morgan, named boolean locals, `match`/`if` whose arms agree).
"""
import re
from lib.facts import find, is_node, path_of, render, walk

STMT = ("let", "expr", "item")
PASS_METHODS = {"as_ref", "as_mut", "clone", "borrow", "borrow_mut", "iter", "iter_mut", "into_iter", "as_slice", "to_vec", "cloned", "copied",
                "unwrap", "expect", "as_deref", "to_owned", "deref", "by_ref", "enumerate", "into", "as_str"}


# ------------------------------------------------------------------------------------------------ function index
class Fns:
    """fn items of one crate by name (free functions only)"""

    def __init__(self, items):
        self.by_name = {}
        self.consts = {}
        for it in items:
            if it["k"] == "fn" and it.get("body") is not None:
                self.by_name.setdefault(it["name"], []).append(it)
            elif it["k"] == "const" and it.get("name"):
                self.consts.setdefault(it["name"], []).append(it)

    def get(self, name, mod_suffix=None):
        r = self.by_name.get(name, [])
        if mod_suffix is not None:
            r = [it for it in r if it["mod"].endswith(mod_suffix)]
        return r[0] if len(r) == 1 else None

    def callee(self, call, from_mod=None):
        """the fn item a `call` node refers to, when it is a plain path to exactly one free function of this crate"""
        p = path_of(call[1]) if is_node(call) and call[0] == "call" else None
        if not p:
            return None
        segs = re.sub(r"<.*>", "", p).split("::")
        r = self.by_name.get(segs[-1], [])
        if len(segs) > 1 and segs[-2] not in ("crate", "self", "super"):
            r = [it for it in r if it["mod"].split("::")[-1] == segs[-2]]
        elif len(r) > 1 and from_mod is not None:
            r = [it for it in r if it["mod"] == from_mod] or r
        return r[0] if len(r) == 1 else None


def params(it):
    out = []
    for p in it["sig"]["inputs"]:
        q = p[0]
        while is_node(q) and q[0] in ("ptype", "pref"):
            q = q[1] if q[0] == "ptype" else q[2]
        out.append(q[1] if is_node(q) and q[0] == "pident" else None)
    return out


def is_private(it):
    return it.get("vis", "") == ""


# ------------------------------------------------------------------------------------------------ small AST utilities
def strip(e):
    """drop references, derefs, `?`, single-expression blocks and value-preserving adaptor methods: the value `e` stands for"""
    while is_node(e):
        if e[0] == "ref":
            e = e[2]
        elif e[0] == "un" and e[1] == "*":
            e = e[2]
        elif e[0] == "try":
            e = e[1]
        elif e[0] == "cast":
            e = e[1]
        elif e[0] in ("block", "unsafe") and len(e[1]) == 1 and e[1][0][0] == "expr" and not e[1][0][2]:
            e = e[1][0][1]
        elif e[0] == "mcall" and e[2] in PASS_METHODS:
            e = e[1]
        elif e[0] == "call" and path_of(e[1]) in ("Some", "Ok", "Box::new", "Rc::new", "Ref::new") and len(e[2]) == 1:
            e = e[2][0]
        else:
            break
    return e


def pidents(pat):
    return [p for p in find(pat, "pident") if not p[1][:1].isupper()] if pat is not None else []


def is_stmt_list(x):
    return isinstance(x, list) and not is_node(x) and all(is_node(y) and y[0] in STMT for y in x)


def walk_no_closure(n):
    st = [n]
    while st:
        x = st.pop()
        if isinstance(x, list):
            if x and isinstance(x[0], str):
                yield x
                if x[0] in ("closure", "item"):
                    continue
            for y in reversed(x):
                if isinstance(y, list):
                    st.append(y)


class Binding:
    __slots__ = ("name", "kind", "src", "mut", "pat", "assigns", "owner")

    def __init__(self, name, kind, src=None, mut=False, pat=None, owner=None):
        self.name = name      # spelling (for messages only)
        self.kind = kind      # param | let | pat | iter | closure | uninit
        self.src = src        # let: initialiser; pat: scrutinee; iter: iterator expression
        self.mut = mut
        self.pat = pat        # the whole pattern the name occurs in
        self.assigns = []     # right-hand sides of later `name = e`
        self.owner = owner    # the statement / node that introduces the binding

    def __repr__(self):
        return "<%s %s>" % (self.kind, self.name)


# ------------------------------------------------------------------------------------------------ lexical scopes
class Scope:
    def __init__(self, fns=None):
        self.fns = fns
        self.use = {}       # id(path node) -> Binding
        self.env_at = {}    # id(call node) -> {name: Binding}
        self.decl = {}      # id(owner stmt/node) -> [Binding]
        self._keep = []     # inlined bodies (their node ids must stay valid)
        self._inl = {}
        self._n = 0

    # -- construction
    def add_fn(self, it):
        env = {}
        for n in params(it):
            if n:
                env[n] = Binding(n, "param", owner=it)
        self.block(it["body"], env)
        return self

    def _bind(self, env, pat, kind, src, owner):
        for p in pidents(pat):
            b = Binding(p[1], kind, src, bool(p[3]), pat, owner)
            env[p[1]] = b
            self.decl.setdefault(id(owner), []).append(b)

    def block(self, stmts, env):
        env = dict(env)
        for st in stmts:
            if not is_node(st):
                continue
            if st[0] == "let":
                init = st[2] if len(st) > 2 else None
                els = st[3] if len(st) > 3 else None
                if init is not None:
                    self.expr(init, env)
                if els is not None:
                    self.expr(els, env)
                pat = st[1]
                core = pat[1] if is_node(pat) and pat[0] == "ptype" else pat
                simple = is_node(core) and core[0] == "pident" and core[4] is None
                self._bind(env, pat, ("let" if init is not None else "uninit") if simple else "pat", init, st)
            elif st[0] == "expr":
                self.expr(st[1], env)
        return env

    def _cond(self, c, env):
        """evaluate a condition; returns the environment of the `then` branch (bindings of `let` conditions added)"""
        self.expr(c, env)
        lets = [x for x in walk_no_closure(c) if x[0] == "letc"]
        if not lets:
            return env
        env = dict(env)
        for l in lets:
            self._bind(env, l[1], "pat", l[2], l)
        return env

    def expr(self, e, env):
        if not is_node(e):
            if isinstance(e, list):
                for x in e:
                    self.expr(x, env)
            return
        t = e[0]
        if t == "path":
            if isinstance(e[1], str) and "::" not in e[1] and e[1] in env:
                self.use[id(e)] = env[e[1]]
            return
        if t in ("block", "unsafe", "loop", "async"):
            self.block(e[1], env)
            return
        if t == "if":
            self.block(e[2], self._cond(e[1], env))
            if e[3] is not None:
                self.expr(e[3], env)
            return
        if t == "while":
            self.block(e[2], self._cond(e[1], env))
            return
        if t == "letc":
            self.expr(e[2], env)
            return
        if t == "for":
            self.expr(e[2], env)
            inner = dict(env)
            self._bind(inner, e[1], "iter", e[2], e)
            self.block(e[3], inner)
            return
        if t == "match":
            self.expr(e[1], env)
            for a in e[2]:
                inner = dict(env)
                self._bind(inner, a[0], "pat", e[1], a)
                if a[1] is not None:
                    self.expr(a[1], inner)
                self.expr(a[2], inner)
            return
        if t == "closure":
            inner = dict(env)
            for p in e[1]:
                self._bind(inner, p, "closure", None, e)
            self.expr(e[2], inner)
            return
        if t == "assign":
            self.expr(e[2], env)
            self.expr(e[1], env)
            tgt = e[1]
            if is_node(tgt) and tgt[0] == "path" and id(tgt) in self.use:
                self.use[id(tgt)].assigns.append(e[2])
            return
        if t == "call":
            self.env_at[id(e)] = env
        if t in ("macro", "item"):
            return
        if t == "struct":
            for f in e[2]:
                self.expr(f[1], env)
            self.expr(e[3] if len(e) > 3 else None, env)
            return
        for x in e[1:]:
            if isinstance(x, list):
                if x and is_stmt_list(x):
                    self.block(x, env)
                else:
                    self.expr(x, env)

    # -- queries
    def binding(self, e):
        return self.use.get(id(e)) if is_node(e) and e[0] == "path" else None

    def stable(self, b):
        """a local that always holds the value of its initialiser"""
        return b is not None and b.kind == "let" and not b.assigns and b.src is not None

    def expand(self, e, depth=4):
        """copy of `e` in which every immutable named local is replaced by its initialiser and every crate constant by its value"""
        if not is_node(e):
            return [self.expand(x, depth) for x in e] if isinstance(e, list) else e
        if e[0] == "path" and depth > 0:
            b = self.binding(e)
            if self.stable(b) and not b.mut:
                return self.expand(b.src, depth - 1)
            if b is None and self.fns is not None and isinstance(e[1], str) and re.fullmatch(r"(\w+::)*[A-Z][A-Z0-9_]*", e[1]):
                cs = self.fns.consts.get(e[1].split("::")[-1], [])
                if len(cs) == 1 and cs[0].get("val") is not None:
                    return cs[0]["val"]
            return e
        if e[0] in ("macro", "item"):
            return e
        return [e[0]] + [self.expand(x, depth) if isinstance(x, list) else x for x in e[1:]]

    def text(self, e, depth=4):
        return re.sub(r"\s+", "", render(self.expand(e, depth)))

    def chain(self, e, depth=8):
        """the expressions `e` takes its value from, nearest first: aliases (`let a = b`), destructuring patterns (`Some(g)` of `&arm.guard`),
        loop patterns (element of the iterator).  Every element is given stripped of references and adaptors."""
        out = []
        seen = set()
        while depth > 0 and is_node(e):
            e = strip(e)
            out.append(e)
            b = self.binding(e)
            if b is None or id(b) in seen or b.src is None:
                break
            seen.add(id(b))
            e = b.src
            depth -= 1
        return out

    def root(self, e):
        """the binding at the base of a place / value expression (`&mut *env` -> env, `arm.pattern` -> arm)"""
        e = strip(e)
        while is_node(e) and e[0] in ("field", "index"):
            e = strip(e[1])
        return self.binding(e)

    def mentions(self, e, b, depth=4):
        """`e` (named locals expanded) reads binding `b`"""
        x = self.expand(e, depth)
        for p in walk(x):
            if p[0] == "path" and self.use.get(id(p)) is b:
                return True
            if p[0] == "macro" and re.search(r"(?<![\w.])%s(?!\w)" % re.escape(b.name), p[3] if len(p) > 3 else p[2]):
                return True
        return False

    def field_of(self, e, field, bases, depth=8):
        """`e` is (derived from) `<base>.field` for a base bound by one of `bases`"""
        for x in self.chain(e, depth):
            if is_node(x) and x[0] == "field" and x[2] == field and self.root(x[1]) in bases:
                return True
        return False

    # -- helpers as their bodies
    def inline(self, call, h):
        """the body of helper `h` as executed by `call`: parameters replaced by the argument expressions, the helper's own locals renamed
        apart, resolved in the environment of the call site.  None when the call cannot be bound (pattern parameters, arity)."""
        key = id(call)
        if key in self._inl:
            return self._inl[key]
        ps = params(h)
        env = self.env_at.get(id(call))
        body = None
        if env is not None and None not in ps and len(ps) == len(call[2]):
            self._n += 1
            suffix = "__i%d" % self._n
            own = {p[1] for p in pidents(h["body"])} - set(ps)
            for c in find(h["body"], "closure"):
                own |= {p[1] for q in c[1] for p in pidents(q)}
            amap = dict(zip(ps, call[2]))
            body = _subst(h["body"], amap, own, suffix)
            self._keep.append(body)
            self.block(body, env)
        self._inl[key] = body
        return body


def _subst(n, amap, own, suffix):
    if not isinstance(n, list):
        return n
    if is_node(n):
        if n[0] == "path" and isinstance(n[1], str) and "::" not in n[1]:
            if n[1] in own:
                return ["path", n[1] + suffix]
            if n[1] in amap:
                return amap[n[1]]
            return n
        if n[0] == "pident" and n[1] in own:
            return ["pident", n[1] + suffix] + [_subst(x, amap, own, suffix) for x in n[2:]]
        if n[0] == "struct":
            return [n[0], n[1], [[f[0], _subst(f[1], amap, own, suffix)] for f in n[2]]] + [_subst(x, amap, own, suffix) for x in n[3:]]
        if n[0] in ("macro", "item"):
            return n
    return [_subst(x, amap, own, suffix) for x in n]


def calls_via(sc, node, pred, depth=2, follow=None, mod=None, _via=()):
    """every call `c` with pred(c, callee_path) inside `node`, and inside the private same-crate helpers `node` calls (their bodies inlined
    with sc.inline, so the arguments of the calls found are expressed in the vocabulary of `node`).  Yields (call, via, body) where `via`
    is the tuple of helper items entered and `body` the (inlined) statement list the call was found in (None at depth 0)."""
    for c in list(find(node, "call")):
        p = path_of(c[1])
        if p and pred(c, p):
            yield c, _via, None
            continue
        if depth <= 0 or sc.fns is None:
            continue
        h = sc.fns.callee(c, mod)
        if h is None or any(h is v for v in _via) or not (follow(h) if follow else is_private(h)):
            continue
        body = sc.inline(c, h)
        if body is None:
            continue
        for r in calls_via(sc, body, pred, depth - 1, follow, h["mod"], _via + (h,)):
            yield (r[0], r[1], r[2] if r[2] is not None else body)


def reaches(fns, node, pred, depth=3, follow=None, _seen=None):
    """some call satisfying pred is reachable from `node` through same-crate free functions (no parameter binding; used only to tell
    'the mechanism moved somewhere I cannot analyse' from 'the mechanism is gone')"""
    _seen = _seen if _seen is not None else set()
    for c in find(node, "call"):
        p = path_of(c[1])
        if p and pred(c, p):
            return True
        h = fns.callee(c) if depth > 0 else None
        if h is not None and id(h) not in _seen and (follow(h) if follow else True):
            _seen.add(id(h))
            if reaches(fns, h["body"], pred, depth - 1, follow, _seen):
                return True
    return False


# ------------------------------------------------------------------------------------------------ path conditions
def _join(a, b):
    if a is None:
        return b
    if b is None:
        return a
    kb = {(id(c), p) for c, p in b}
    return [(c, p) for c, p in a if (id(c), p) in kb]


class Flow:
    """Path conditions of one statement list.  After run(): `events` = [(kind, node, facts, loop_depth)] for every ret / break / continue
    (closures excluded), `end` = facts that hold when control falls off the end of the list (None: it never does), `sites` = facts at
    every node of the kinds asked for.
    A fact is (condition AST, polarity); `["letc", pat, e]` stands for "e matches pat", `["marm", scrutinee, pat]` for "this arm was taken"."""

    def __init__(self, stmts, facts=()):
        self.events = []
        self.sites = {}      # id(node) -> (node, facts)
        self.want = ()
        self.stmts = stmts
        self.init = list(facts)
        self.end = None

    def run(self, want=()):
        self.want = want
        self.end = self.block(self.stmts, self.init, 0)
        return self

    def block(self, stmts, facts, d):
        for st in stmts:
            if facts is None:
                return None
            if not is_node(st):
                continue
            if st[0] == "let":
                init = st[2] if len(st) > 2 else None
                els = st[3] if len(st) > 3 else None
                if init is not None:
                    facts = self.expr(init, facts, d)
                    if facts is None:
                        return None
                if els is not None:
                    c = ["letc", st[1], init]
                    r = self.expr(els, facts + [(c, False)], d)
                    facts = _join(facts + [(c, True)], r)
            elif st[0] == "expr":
                facts = self.expr(st[1], facts, d)
        return facts

    def expr(self, e, facts, d):
        if facts is None:
            return None
        if not is_node(e):
            if isinstance(e, list):
                for x in e:
                    facts = self.expr(x, facts, d)
                    if facts is None:
                        return None
            return facts
        t = e[0]
        if t in self.want:
            self.sites[id(e)] = (e, list(facts))
        if t in ("ret", "break", "continue"):
            if t != "continue" and len(e) > 1 and e[1] is not None:
                facts = self.expr(e[1], facts, d)
                if facts is None:
                    return None
            self.events.append((t, e, list(facts), d))
            return None
        if t in ("closure", "item", "macro", "path"):
            if t == "macro" and re.search(r"(^|::)(panic|unreachable|todo|unimplemented)$", e[1]):
                return None
            return facts
        if t in ("block", "unsafe", "async"):
            return self.block(e[1], facts, d)
        if t == "if":
            c = e[1]
            f0 = self.expr(c, facts, d)
            if f0 is None:
                return None
            a = self.block(e[2], f0 + [(c, True)], d)
            b = self.expr(e[3], f0 + [(c, False)], d) if e[3] is not None else f0 + [(c, False)]
            return _join(a, b)
        if t == "letc":
            return self.expr(e[2], facts, d)
        if t == "bin" and e[1] in ("&&", "||"):
            f0 = self.expr(e[2], facts, d)
            if f0 is None:
                return None
            self.expr(e[3], f0 + [(e[2], e[1] == "&&")], d)
            return f0
        if t == "match":
            f0 = self.expr(e[1], facts, d)
            if f0 is None:
                return None
            done = []
            earlier = []     # an arm is entered only when no earlier arm was: (its pattern && its guard) is false for each of them
            for a in e[2]:
                pat = a[0]
                lit = pat[1] if is_node(pat) and pat[0] == "plit" and is_node(pat[1]) and pat[1][0] == "bool" else None
                taken = ["marm", e[1], pat]
                fa = f0 + earlier + ([(e[1], bool(lit[1]))] if lit is not None else [(taken, True)])
                earlier = earlier + [((["bin", "&&", taken, a[1]] if a[1] is not None else taken), False)]
                if a[1] is not None:
                    fa = self.expr(a[1], fa, d)
                    if fa is None:
                        continue
                    fa = fa + [(a[1], True)]
                r = self.expr(a[2], fa, d)
                if r is not None:
                    done.append(r)
            if not done:
                return None
            out = done[0]
            for r in done[1:]:
                out = _join(out, r)      # only what holds on every arm that completes
            return out
        if t in ("loop", "while", "for"):
            if t == "while":
                facts = self.expr(e[1], facts, d)
            elif t == "for":
                facts = self.expr(e[2], facts, d)
            if facts is None:
                return None
            body = e[1] if t == "loop" else e[2] if t == "while" else e[3]
            n0 = len(self.events)
            self.block(body, list(facts), d + 1)
            if t == "loop" and not any(k == "break" and dd == d + 1 for k, _, _, dd in self.events[n0:]):
                return None   # `loop` without break never completes
            return facts
        if t == "struct":
            return self.expr([f[1] for f in e[2]] + ([e[3]] if len(e) > 3 and e[3] is not None else []), facts, d)
        for x in e[1:]:
            if isinstance(x, list):
                if x and is_stmt_list(x):
                    facts = self.block(x, facts, d)
                else:
                    facts = self.expr(x, facts, d)
                if facts is None:
                    return None
        return facts


def truth(e, atom, sc=None, depth=6):
    """three-valued value of condition `e`: True / False / None (unknown).  `atom(e)` gives the value assumed for an expression (or None);
    named boolean locals are looked through (sc), `!`, `&&`, `||`, `==`/`!=` against a literal, and `match`/`if` whose branches agree."""
    if not is_node(e) or depth <= 0:
        return None
    v = atom(e)
    if v is not None:
        return v
    t = e[0]
    if t == "bool":
        return bool(e[1])
    if t == "un" and e[1] == "!":
        v = truth(e[2], atom, sc, depth)
        return None if v is None else not v
    if t == "bin" and e[1] in ("&&", "||", "&", "|"):
        a, b = truth(e[2], atom, sc, depth), truth(e[3], atom, sc, depth)
        if e[1] in ("&&", "&"):
            return False if (a is False or b is False) else True if (a is True and b is True) else None
        return True if (a is True or b is True) else False if (a is False and b is False) else None
    if t == "bin" and e[1] in ("==", "!="):
        for x, y in ((e[2], e[3]), (e[3], e[2])):
            if is_node(y) and y[0] == "bool":
                v = truth(x, atom, sc, depth)
                return None if v is None else (v == bool(y[1])) == (e[1] == "==")
        return None
    if t in ("try", "cast"):
        return truth(e[1], atom, sc, depth)
    if t == "ref" or (t == "un" and e[1] == "*"):
        return truth(e[2], atom, sc, depth)
    if t in ("block", "unsafe") and e[1] and e[1][-1][0] == "expr" and not e[1][-1][2]:
        return truth(e[1][-1][1], atom, sc, depth)
    if t == "call" and path_of(e[1]) == "Ok" and len(e[2]) == 1:
        return truth(e[2][0], atom, sc, depth)
    if t == "path" and sc is not None:
        b = sc.binding(e)
        if sc.stable(b):
            return truth(b.src, atom, sc, depth - 1)
        return None
    if t == "match":
        # arms that leave (`Err(e) => return Err(e)`) do not produce a value; `Ok(v) => v` / `Some(v) => v` produce the scrutinee's
        vals = set()
        for a in e[2]:
            body = a[2]
            if is_node(body) and (body[0] in ("ret", "break", "continue") or (body[0] == "block" and _leaves(body[1]))):
                continue
            if is_node(body) and body[0] == "path" and is_node(a[0]) and a[0][0] == "pts" and len(a[0][2]) == 1 and is_node(a[0][2][0]) \
                    and a[0][2][0][0] == "pident" and a[0][2][0][1] == body[1] and a[0][1].split("::")[-1] in ("Ok", "Some"):
                vals.add(truth(e[1], atom, sc, depth - 1))
            else:
                vals.add(truth(body, atom, sc, depth - 1))
        return vals.pop() if len(vals) == 1 else None
    if t == "if" and e[3] is not None:
        c = truth(e[1], atom, sc, depth - 1)
        a = truth(["block", e[2]], atom, sc, depth - 1)
        b = truth(e[3], atom, sc, depth - 1)
        if c is True:
            return a
        if c is False:
            return b
        return a if a == b else None
    return None


def _leaves(stmts):
    if not stmts or stmts[-1][0] != "expr":
        return False
    x = stmts[-1][1]
    return is_node(x) and (x[0] in ("ret", "break", "continue") or (x[0] == "macro" and re.search(r"(^|::)(panic|unreachable|todo|unimplemented)$", x[1]) is not None))


def contradicted(facts, atom, sc=None):
    """some fact cannot hold under the assumption `atom`"""
    for c, pol in facts:
        v = truth(c, atom, sc)
        if v is not None and v != pol:
            return True
    return False


def supported(facts, atom, sc=None):
    """some fact holds BECAUSE of the assumption (its value is decided by the assumed atoms and agrees with its polarity)"""
    for c, pol in facts:
        v = truth(c, atom, sc)
        if v is not None and v == pol:
            return True
    return False


# ------------------------------------------------------------------------------------------------ where is a node
def locate(root_stmts, target):
    """[(statement list, index)] from the outermost list down to the one whose statement `index` contains `target` (identity)"""
    def rec(n, trail):
        if n is target:
            return trail
        if not isinstance(n, list):
            return None
        if n and is_stmt_list(n):
            for i, st in enumerate(n):
                r = rec(st, trail + [(n, i)])
                if r is not None:
                    return r
            return None
        for x in n:
            if isinstance(x, list):
                r = rec(x, trail)
                if r is not None:
                    return r
        return None
    return rec(root_stmts, []) or []


def expand_via(sc, node, depth=2, follow=None, mod=None, _via=()):
    """`node`, then the inlined bodies of the private same-crate helpers it calls (transitively, `depth` levels): (tree, via) pairs.
    Searching all of them is searching `node` as if the helpers had never been extracted."""
    yield node, _via
    if depth <= 0 or sc.fns is None:
        return
    for c in list(find(node, "call")):
        h = sc.fns.callee(c, mod)
        if h is None or any(h is v for v in _via) or not (follow(h) if follow else is_private(h)):
            continue
        body = sc.inline(c, h)
        if body is None:
            continue
        for r in expand_via(sc, body, depth - 1, follow, h["mod"], _via + (h,)):
            yield r


def contains(tree, node):
    """identity search"""
    st = [tree]
    while st:
        x = st.pop()
        if x is node:
            return True
        if isinstance(x, list):
            st.extend(y for y in x if isinstance(y, list))
    return False


# ------------------------------------------------------------------------------------------------ abstract values under assumptions
def _pat_kind(pat):
    while is_node(pat) and pat[0] in ("pref", "ptype"):
        pat = pat[2] if pat[0] == "pref" else pat[1]
    if not is_node(pat):
        return None
    if pat[0] == "pts":
        last = pat[1].split("::")[-1]
        return {"Some": "some", "Ok": "ok"}.get(last)
    if pat[0] in ("pident", "ppath"):
        last = pat[1].split("::")[-1]
        return {"None": "none"}.get(last)
    if pat[0] == "plit" and is_node(pat[1]) and pat[1][0] == "bool":
        return bool(pat[1][1])
    return None


class Assume:
    """Evaluate conditions under an assumption about primitive calls (`prim(call, path)` -> True/False/"some"/"none"/None), looking through
    private helpers (the value a helper returns on the paths the assumption leaves open), named locals, `?`, `Ok(..)`, `if let` / `match` on
    Option-valued helpers."""

    def __init__(self, sc, prim, depth=2):
        self.sc = sc
        self.prim = prim
        self.depth = depth
        self._stack = []
        self._memo = {}

    def atom(self, e):
        t = e[0]
        if t == "call":
            v = self.call_value(e)
            return v if isinstance(v, bool) else None
        if t in ("letc", "marm"):
            pat, val = (e[1], e[2]) if t == "letc" else (e[2], e[1])
            v = self.value(val)
            k = _pat_kind(pat)
            if v is None or k is None or k == "ok":
                return None
            return v == k
        return None

    def call_value(self, c):
        p = path_of(c[1])
        if not p:
            return None
        v = self.prim(c, p)
        if v is not None:
            return v
        if id(c) in self._memo:
            return self._memo[id(c)]
        h = self.sc.fns.callee(c) if self.sc.fns is not None else None
        if h is None or not is_private(h) or len(self._stack) >= self.depth or any(h is x for x in self._stack):
            return None
        body = self.sc.inline(c, h)
        if body is None:
            return None
        self._stack.append(h)
        try:
            fl = Flow(body).run()
            outs = []
            for k, n, facts, _d in fl.events:
                if k == "ret" and not contradicted(facts, self.atom, self.sc):
                    outs.append(self.value(n[1]) if n[1] is not None else None)
            if fl.end is not None and not contradicted(fl.end, self.atom, self.sc):
                last = body[-1] if body else None
                outs.append(self.value(last[1]) if last is not None and last[0] == "expr" and not last[2] else None)
            v = outs[0] if outs and all(o == outs[0] and o is not None for o in outs) else None
        finally:
            self._stack.pop()
        self._memo[id(c)] = v
        return v

    def value(self, e, depth=6):
        if not is_node(e) or depth <= 0:
            return None
        v = truth(e, self.atom, self.sc)
        if v is not None:
            return v
        while is_node(e) and (e[0] in ("try", "cast") or e[0] == "ref" or (e[0] == "un" and e[1] == "*") or
                              (e[0] == "call" and path_of(e[1]) == "Ok" and len(e[2]) == 1) or
                              (e[0] in ("block", "unsafe") and e[1] and e[1][-1][0] == "expr" and not e[1][-1][2])):
            e = e[1] if e[0] in ("try", "cast") else e[2] if e[0] in ("ref", "un") else e[2][0] if e[0] == "call" else e[1][-1][1]
        if not is_node(e):
            return None
        if e[0] == "call":
            if path_of(e[1]) == "Some":
                return "some"
            return self.call_value(e)
        if e[0] == "path":
            if e[1].split("::")[-1] == "None":
                return "none"
            b = self.sc.binding(e)
            return self.value(b.src, depth - 1) if self.sc.stable(b) else None
        if e[0] == "match":
            vals = [self.value(a[2], depth - 1) for a in e[2]]
            return vals[0] if vals and all(x == vals[0] for x in vals) else None
        if e[0] == "if" and e[3] is not None:
            c = truth(e[1], self.atom, self.sc)
            a, b = self.value(["block", e[2]], depth - 1), self.value(e[3], depth - 1)
            return a if c is True else b if c is False else a if a == b else None
        return None
