"""Parser applications of a nom-style parser function, on its MIR body: which they are, in which order they consume the input, what they accept.

A PARSER APPLICATION (site) is a call that is handed the parse input (an operand of the input type, `mech_syntax::ParseString`, directly or as
the one-element argument tuple of a closure call) and returns `Result<(input type, T), ..>`: `period(input)`, `alt((tag("e"), tag("E")))(input)`,
`opt(dash)(input)`, a private helper with a parser signature.  Sites are identified by these TYPES, never by names.

    ps = ParseSites(body, cg)                    # body: lib.facts.Body (possibly lib.mirinline.inline_body'd); cg: lib.facts.CallGraph
    ps.sites                                     # {block: call terminator}
    ps.ff                                        # lib.mirfields.FieldFlow that stops at the sites
    ps.before(a, b)                              # site a consumed its text before site b: a's remaining input (transitively) is b's input
    ps.comparable(a, b)                          # before(a, b) or before(b, a); alternatives tried on the same input are not comparable
    ps.value_proj(src)                           # projection of a `site` source into the PARSED VALUE (the part after `Ok((rest, value))`), or None
                                                 # when the source is the remaining input
    ps.lang(block)                               # the finite set of texts the site accepts when it is (an alt / opt of) fixed-text token
                                                 # parsers, else None: `period` -> {"."}, `alt((tag("e"), tag("E")))` -> {"e", "E"}, `opt(plus)` -> {"", "+"}
    ps.describe(block)                           # text for messages: `digit_sequence`, `alt(tag("e")|tag("E"))`
"""
import re
from lib.facts import fns_in_type
from lib.mirfields import FieldFlow

INPUT_TYPE = "mech_syntax::ParseString"
# closures of combinators that choose among / make optional the parsers they are given: the accepted texts are the union of the operands' texts
_CHOICE = {"nom::branch::alt::{closure#0}": False, "nom::combinator::opt::{closure#0}": True}
_TAG_FN = re.compile(r"(^|::)parser::tag$")
_TAG_CLOSURE = re.compile(r"(^|::)parser::tag::\{closure#0\}$")
_CLOSURE_IN_TY = re.compile(r"C\{((?:[^<>{}|,]|\{\w+#\d+\})+)")


def _callee(t):
    return t.get("f") or t["tf"]


def is_parse_application(body, t, input_type=INPUT_TYPE):
    d = t.get("d")
    if not d or d[1] != "" or d[0] >= len(body.locals):
        return False
    if not body.locals[d[0]].startswith("core::result::Result<(%s," % input_type):
        return False
    return input_operand(body, t, input_type) is not None


def input_operand(body, t, input_type=INPUT_TYPE):
    for a in t["args"]:
        if isinstance(a, list) and a[1] == "" and a[0] < len(body.locals) and body.locals[a[0]] in (input_type, "(%s)" % input_type, "(%s,)" % input_type):
            return a
    return None


class ParseSites:
    def __init__(self, body, cg, input_type=INPUT_TYPE):
        self.b = body
        self.cg = cg
        self.input_type = input_type
        self.sites = {i: t for i, t in body.calls() if not body.blocks[i]["cl"] and is_parse_application(body, t, input_type)}
        self.ff = FieldFlow(body, is_stop=lambda blk, t: blk in self.sites)
        self._anc = {}
        self._lang = {}

    # ---- order on the input thread
    def preds(self, blk):
        op = input_operand(self.b, self.sites[blk], self.input_type)
        return {s.key for s in self.ff.sources(op) if s.kind == "site" and s.key != blk}

    def ancestors(self, blk):
        if blk not in self._anc:
            self._anc[blk] = set()
            out, st = set(), list(self.preds(blk))
            while st:
                x = st.pop()
                if x in out or x == blk:
                    continue
                out.add(x)
                st.extend(self.preds(x))
            self._anc[blk] = out
        return self._anc[blk]

    def before(self, a, b):
        return a != b and a in self.ancestors(b)

    def comparable(self, a, b):
        return self.before(a, b) or self.before(b, a)

    @staticmethod
    def value_proj(src):
        """`Ok((remaining, value))`: the projection of a site source below `value`; None for the remaining input / the error"""
        p = src.proj
        if p[:1] == ("@Ok",):
            p = p[1:]
        if p[:2] == (".0", ".1"):
            return p[2:]
        if not p or p == (".0",):
            return () if not src.exact else None
        return None

    # ---- accepted texts
    def lang(self, blk):
        if blk not in self._lang:
            self._lang[blk] = self._site_lang(self.b, self.ff, self.sites[blk], 3)
        return self._lang[blk]

    def _site_lang(self, body, ff, t, depth):
        cal = _callee(t)
        if cal in self.cg.bodies and "{closure" not in cal:
            return fn_lang(self.cg, cal, depth, self.input_type)
        if not t["args"]:
            return None
        closures = set(_CLOSURE_IN_TY.findall(" ".join(t.get("ga") or []))) | ({cal} if "{closure" in cal else set())
        optional = False
        for c in closures:
            if c in _CHOICE:
                optional = optional or _CHOICE[c]
            elif not _TAG_CLOSURE.search(c):
                return None
        out = set()
        obj = t["args"][0]
        srcs = ff.sources(obj)
        n_tags = sum(1 for c in closures if _TAG_CLOSURE.search(c))
        texts = {s.key for s in srcs if s.kind == "const" and s.key.startswith('"')}
        if n_tags and not texts:
            return None
        for x in texts:
            out.add(_unquote(x))
        fns = set()
        for g in t.get("ga") or []:
            fns |= {f for f in re.findall(r"F\{((?:[^<>{}|,]|\{\w+#\d+\})+)", g)}
        fns |= {f for s in srcs if s.kind == "fn" for f in re.findall(r"F\{((?:[^<>{}|,]|\{\w+#\d+\})+)", s.key)}
        for f in fns:
            if _TAG_FN.search(f) or f in _CHOICE or re.sub(r"::\{closure#0\}$", "", f) + "::{closure#0}" in _CHOICE:
                continue
            l = fn_lang(self.cg, f, depth, self.input_type)
            if l is None:
                return None
            out |= l
        if not out:
            return None
        if optional:
            out.add("")
        return frozenset(out)

    def leaf_fns(self, blk):
        """def paths of the parser FUNCTIONS a site applies: its callee, or the functions handed to the combinator it is the application of"""
        t = self.sites[blk]
        cal = _callee(t)
        if "{closure" not in cal:
            return {cal}
        fns = set()
        for g in t.get("ga") or []:
            fns |= set(re.findall(r"F\{((?:[^<>{}|,]|\{\w+#\d+\})+)", g))
        if t["args"]:
            for s in self.ff.sources(t["args"][0]):
                if s.kind == "fn":
                    fns |= set(re.findall(r"F\{((?:[^<>{}|,]|\{\w+#\d+\})+)", s.key))
        return {f for f in fns if "{closure" not in f}

    def describe(self, blk):
        t = self.sites[blk]
        cal = _callee(t)
        if "{closure" not in cal:
            return cal.split("::")[-1]
        names = []
        for g in t.get("ga") or []:
            names += [f.split("::")[-1] for f in fns_in_type(g) if "{closure" not in f]
        texts = sorted(s.key for s in self.ff.sources(t["args"][0]) if s.kind == "const" and s.key.startswith('"')) if t["args"] else []
        comb = re.sub(r"::\{closure#\d+\}$", "", cal).split("::")[-1]
        return "%s(%s)" % (comb, "|".join(sorted(set(names)) + ["tag(%s)" % x for x in texts]))


_FN_LANG = {}


def fn_lang(cg, fn, depth=3, input_type=INPUT_TYPE):
    """texts accepted by a token parser FUNCTION: a function whose only parser application is one with a known finite language (the expansion of
    `leaf!{period, ".", ..}` applies `tag(".")` and nothing else); None for every other function"""
    key = (id(cg), fn)
    if key in _FN_LANG:
        return _FN_LANG[key]
    _FN_LANG[key] = None
    b = cg.bodies.get(fn)
    if b is None or depth <= 0:
        return None
    ps = ParseSites(b, cg, input_type)
    if len(ps.sites) != 1:
        return None
    (blk, t), = ps.sites.items()
    l = ps._site_lang(b, ps.ff, t, depth - 1)
    _FN_LANG[key] = l
    return l


def _unquote(c):
    c = c.strip()
    if c.startswith('"') and c.endswith('"'):
        c = c[1:-1]
    try:
        return bytes(c, "utf-8").decode("unicode_escape").encode("latin-1", "ignore").decode("utf-8", "ignore") if "\\" in c else c
    except Exception:
        return c
