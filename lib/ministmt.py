"""Concrete evaluation of small straight-line/loop function bodies over a finite table of shapes.

Used for index-arithmetic helpers whose loop carries state (`offset += ...`), where the symbolic kernel normal form does not apply:
the body is executed for every shape of a bounded table and the set of element writes is compared with the placement the property states.
Values: int, bool, Mat (a named matrix with a shape), ("elem", matrix name, linear index) for a read element, tuples.
"""
import re
from lib.facts import is_node, walk as _walk


class NoEval(Exception):
    pass


class Panic(Exception):
    pass


class Return(Exception):
    def __init__(self, value):
        self.value = value


class TI(int):
    """an integer of a fixed-width Rust kind: + - * outside [lo, hi] panic (debug-build overflow checks)"""
    def __new__(cls, v, lo, hi):
        o = int.__new__(cls, v)
        o.lo, o.hi = lo, hi
        return o


def ti_like(a, b, v):
    t = a if isinstance(a, TI) else b if isinstance(b, TI) else None
    if t is None or isinstance(v, bool) or not isinstance(v, int):
        return v
    if not (t.lo <= v <= t.hi):
        raise Panic("arithmetic overflow: %d outside [%d, %d]" % (v, t.lo, t.hi))
    return TI(v, t.lo, t.hi)


class Mat:
    def __init__(self, name, rows, cols):
        self.name, self.rows, self.cols = name, rows, cols

    def __len__(self):
        return self.rows * self.cols


class Machine:
    def __init__(self, env, fuel=20000, fns=None):
        self.env = dict(env)
        self.writes = []       # (matrix name, linear index, value)
        self.fuel = fuel
        self.fns = fns or {}   # optional: name -> syn item of free helper functions that may be called (executed with the same write log)

    # ---------------- expressions
    def E(self, e, d=0):
        if d > 60 or not is_node(e):
            raise NoEval(str(e)[:30])
        t = e[0]
        r = lambda x: self.E(x, d + 1)
        if t == "path":
            if e[1] in self.env:
                return self.env[e[1]]
            raise NoEval("name " + e[1])
        if t == "int":
            return int(re.sub(r"[^0-9].*$", "", str(e[1])) or 0)
        if t == "bool":
            return bool(e[1])
        if t == "lit":
            try:
                return float(re.sub(r"(f32|f64)$", "", str(e[1]).replace("_", "")))
            except ValueError:
                raise NoEval("lit " + str(e[1])[:20])
        if t == "paren":
            return r(e[1])
        if t == "ref":
            return r(e[2])
        if t == "cast":
            v = r(e[1])
            ty = str(e[2]).strip()
            if isinstance(v, bool):
                return int(v)
            if ty in ("f64", "f32"):
                return float(v)
            if ty in ("usize", "u64", "u32", "isize", "i64") and isinstance(v, float):
                if v != v:
                    return 0
                return max(0, int(v)) if ty[0] == "u" else int(v)
            if ty in ("usize", "u64", "u32", "isize", "i64") and isinstance(v, TI):
                return int(v)
            return v
        if t == "tuple":
            return tuple(r(x) for x in e[1])
        if t in ("unsafe", "block"):
            return self.block(e[1])
        if t == "un":
            v = r(e[2])
            if e[1] == "*":
                return v
            if e[1] == "!":
                return (not v) if isinstance(v, bool) else ~v
            if e[1] == "-":
                return -v
            raise NoEval("un " + e[1])
        if t == "index":
            b, i = r(e[1]), r(e[2])
            if isinstance(b, Mat) and isinstance(i, int):
                if not (0 <= i < len(b)):
                    raise Panic("read %s[%d] out of %d" % (b.name, i, len(b)))
                return ("elem", b.name, i)
            if isinstance(b, Mat) and isinstance(i, tuple) and len(i) == 2:
                if not (0 <= i[0] < b.rows and 0 <= i[1] < b.cols):
                    raise Panic("read %s[(%d,%d)]" % (b.name, i[0], i[1]))
                return ("elem", b.name, i[1] * b.rows + i[0])
            raise NoEval("index")
        if t == "field" and is_node(e[1]) and e[1][0] == "path" and e[1][1] == "self" and ("self." + str(e[2])) in self.env:
            return self.env["self." + str(e[2])]
        if t == "try":
            v = r(e[1])
            if isinstance(v, tuple) and v and v[0] == "err":
                raise Return(v)
            return v
        if t == "call":
            f = e[1][1] if is_node(e[1]) and e[1][0] == "path" else None
            if f is None:
                raise NoEval("call")
            last = f.split("::")[-1]
            if last == "Err":
                names = [n[1].split("::")[-1] for a in e[2] for n in _walk(a) if n[0] == "struct"]
                return ("err", names[0] if names else "?")
            if last in ("Ok", "Some") and len(e[2]) == 1:
                return r(e[2][0])
            if last in ("zero", "one") and not e[2] and "::" in f:
                v = 0 if last == "zero" else 1
                k = self.env.get("$kind")
                if isinstance(k, TI):
                    return TI(v, k.lo, k.hi)
                return float(v) if k == "float" else v
            if last in ("max", "min") and len(e[2]) == 2:
                a, b = r(e[2][0]), r(e[2][1])
                return max(a, b) if last == "max" else min(a, b)
            if last in self.fns and (f == last or f in ("self::" + last, "Self::" + last, "super::" + last)):
                # a private helper function extracted from the body: executed with its parameters bound to the arguments
                hit = self.fns[last]
                params = [p[0] for p in hit["sig"]["inputs"] if p and p[0] != "self"]
                if len(params) != len(e[2]):
                    raise NoEval("call " + f)
                args = [r(a) for a in e[2]]
                sub = Machine({k: v for k, v in self.env.items() if k.startswith("$")}, fuel=self.fuel, fns=self.fns)
                sub.writes = self.writes
                for p_, v_ in zip(params, args):
                    sub.bind(p_, v_)
                try:
                    out = sub.block(hit["body"])
                except Return as ret_:
                    out = ret_.value
                self.fuel = sub.fuel
                return out
            raise NoEval("call " + f)
        if t == "mcall":
            v = r(e[1])
            m = e[2]
            if isinstance(v, float) and m in ("floor", "ceil", "abs", "trunc", "round") and not e[4]:
                import math
                return {"floor": math.floor, "ceil": math.ceil, "abs": abs, "trunc": math.trunc, "round": round}[m](v) * 1.0
            if m in ("map_err", "with_compiler_loc", "with_tokens"):
                return v
            if m == "abs_diff" and isinstance(v, int) and not isinstance(v, bool) and e[4]:
                o = r(e[4][0])
                return abs(int(v) - int(o))          # the unsigned counterpart of the kind always holds the distance
            if m == "try_into" and isinstance(v, int) and not isinstance(v, bool):
                return int(v) if v >= 0 else ("err", "TryFromIntError")
            if m in ("clone", "into", "to_owned", "as_ptr", "as_mut_ptr", "borrow", "borrow_mut", "as_ref", "as_mut"):
                return v
            if isinstance(v, Mat):
                if m == "nrows":
                    return v.rows
                if m == "ncols":
                    return v.cols
                if m == "len":
                    return len(v)
                if m == "shape":
                    return (v.rows, v.cols)
            if isinstance(v, int) and m == "is_power_of_two":
                return v > 0 and (v & (v - 1)) == 0
            if isinstance(v, int) and m in ("min", "max") and e[4]:
                o = r(e[4][0])
                return min(v, o) if m == "min" else max(v, o)
            if isinstance(v, int) and m in ("saturating_sub", "wrapping_sub", "checked_sub") and e[4]:
                o = r(e[4][0])
                return max(0, v - o) if m == "saturating_sub" else v - o
            raise NoEval("method " + m)
        if t == "field" and isinstance(e[2], (int, str)) and str(e[2]).isdigit():
            v = r(e[1])
            if isinstance(v, tuple):
                return v[int(e[2])]
            raise NoEval("field")
        if t == "if":
            c = r(e[1])
            if c:
                return self.block(e[2])
            return r(e[3]) if e[3] else None
        if t == "bin":
            op = e[1]
            if op == "&&":
                return bool(r(e[2])) and bool(r(e[3]))
            if op == "||":
                return bool(r(e[2])) or bool(r(e[3]))
            if op.endswith("=") and op not in ("==", "!=", "<=", ">="):
                val = self.arith(op[:-1], r(e[2]), r(e[3]))
                self.store(e[2], val, d)
                return None
            return self.arith(op, r(e[2]), r(e[3]))
        if t == "assign":
            self.store(e[1], r(e[2]), d)
            return None
        raise NoEval(t)

    def arith(self, op, a, b):
        if isinstance(a, bool) and op in ("+", "-", "*"):
            raise NoEval("bool arithmetic")
        try:
            if op == "-":
                if isinstance(a, TI) or isinstance(b, TI):
                    return ti_like(a, b, int(a) - int(b))
                if isinstance(a, int) and isinstance(b, int) and not isinstance(a, bool) and a - b < 0:
                    raise Panic("usize underflow %d - %d" % (a, b))
                return a - b
            if op in ("+", "*") and (isinstance(a, TI) or isinstance(b, TI)) and isinstance(a, int) and isinstance(b, int):
                return ti_like(a, b, int(a) + int(b) if op == "+" else int(a) * int(b))
            if op == "/" and isinstance(a, float) or op == "/" and isinstance(b, float):
                if b == 0:
                    return float("inf") if a > 0 else float("-inf") if a < 0 else float("nan")
                return a / b
            if op in ("/", "%") and b == 0:
                raise Panic("division by zero")
            return {"!=": lambda: a != b, "==": lambda: a == b, "<": lambda: a < b, ">": lambda: a > b, "<=": lambda: a <= b, ">=": lambda: a >= b,
                    "+": lambda: a + b, "*": lambda: a * b, "%": lambda: a % b, "&": lambda: a & b, "|": lambda: a | b, "^": lambda: a ^ b,
                    "/": lambda: a // b, "<<": lambda: a << b, ">>": lambda: a >> b}[op]()
        except (KeyError, TypeError):
            raise NoEval("op " + op)

    def store(self, lhs, val, d):
        while is_node(lhs) and lhs[0] in ("paren",):
            lhs = lhs[1]
        if lhs[0] == "un" and lhs[1] == "*":
            lhs = lhs[2]
        if lhs[0] == "path":
            self.env[lhs[1]] = val
            return
        if lhs[0] == "index":
            b, i = self.E(lhs[1], d + 1), self.E(lhs[2], d + 1)
            if isinstance(b, Mat):
                if isinstance(i, tuple) and len(i) == 2:
                    if not (0 <= i[0] < b.rows and 0 <= i[1] < b.cols):
                        raise Panic("write %s[(%d,%d)]" % (b.name, i[0], i[1]))
                    i = i[1] * b.rows + i[0]
                if not isinstance(i, int):
                    raise NoEval("index value")
                if not (0 <= i < len(b)):
                    raise Panic("write %s[%d] out of %d" % (b.name, i, len(b)))
                self.writes.append((b.name, i, val))
                return
        raise NoEval("store")

    def call(self, body):
        """run a function body; value of the tail expression or of the `return` taken"""
        try:
            return self.block(body)
        except Return as r:
            return r.value

    # ---------------- statements
    def bind(self, pat, val):
        t = pat[0]
        if t == "ptype":
            return self.bind(pat[1], val)
        if t == "pident":
            self.env[pat[1]] = val
            return
        if t == "pwild":
            return
        if t == "ptuple" and isinstance(val, tuple) and len(val) == len(pat[1]):
            for p, v in zip(pat[1], val):
                self.bind(p, v)
            return
        raise NoEval("pattern")

    def block(self, stmts):
        last = None
        for i, st in enumerate(stmts):
            self.fuel -= 1
            if self.fuel < 0:
                raise NoEval("fuel")
            if st[0] == "let":
                if st[2] is None:
                    raise NoEval("let without init")
                self.bind(st[1], self.E(st[2]))
                last = None
            elif st[0] == "expr":
                e = st[1]
                if is_node(e) and e[0] == "for":
                    it = e[2]
                    while is_node(it) and it[0] == "paren":
                        it = it[1]
                    if not (is_node(it) and it[0] == "range"):
                        # `for (i, x) in B.iter().enumerate()` / `for x in B.iter()` over an indexable B == the counted loop `for i in 0..B.len()` with x = B[i]
                        base, enum = it, False
                        if is_node(base) and base[0] == "mcall" and base[2] == "enumerate" and not base[4]:
                            base, enum = base[1], True
                        if is_node(base) and base[0] == "mcall" and base[2] in ("iter", "into_iter") and not base[4]:
                            base = base[1]
                        else:
                            raise NoEval("for over non-range")
                        pat = e[1]
                        if enum:
                            if not (is_node(pat) and pat[0] == "ptuple" and len(pat[1]) == 2 and all(is_node(q) and q[0] == "pident" for q in pat[1])):
                                raise NoEval("for over non-range")
                            ipat, xpat = pat[1]
                        else:
                            if not (is_node(pat) and pat[0] == "pident"):
                                raise NoEval("for over non-range")
                            ipat, xpat = ["pident", "__ministmt_ix", False, False, None], pat
                        n_ = self.E(["mcall", base, "len", None, []])
                        for k in range(0, n_):
                            self.bind(ipat, k)
                            self.bind(xpat, self.E(["index", base, ["path", ipat[1]]]))
                            self.block(e[3])
                        last = None
                        continue
                    lo, hi = self.E(it[1]) if it[1] is not None else 0, self.E(it[2])
                    if it[3]:
                        hi += 1
                    for k in range(lo, hi):
                        self.bind(e[1], k)
                        self.block(e[3])
                    last = None
                elif is_node(e) and e[0] == "while":
                    while self.E(e[1]):
                        self.fuel -= 1
                        if self.fuel < 0:
                            raise NoEval("fuel")
                        self.block(e[2])
                    last = None
                elif is_node(e) and e[0] == "ret":
                    raise Return(self.E(e[1]) if e[1] is not None else None)
                else:
                    last = self.E(e)
            else:
                raise NoEval("stmt " + str(st[0]))
        return last
