"""Provenance of local variables of one function body, independent of how the locals are spelled.

A value is identified by the COMPONENT of a parameter it was computed from: a component is a tuple (param index, member, member, ...) where a
member is a tuple index ("0", "1", ...) or a field name - e.g. for `fn scientific(sci: &((Whole, Part), (Sign, Whole, Part)))` the exponent's
fractional digits are component (0, "1", "2") whatever the locals that carry them are called.

    P = Prov(item)                    # item: a syn `fn` / `method` item (sig.inputs + body)
    P.roots(expr)                     # set of components the value of `expr` is computed from (data flow only), evaluated in the scope where the
                                      # expression occurs (shadowing `let x = f(x)` is followed)
    P.exact(expr)                     # the component `expr` IS (a reference to / a copy of), or None
    P.macro_args(macro_node)          # [(text, roots)] for the comma-separated arguments after the format string of format_args!/format!/...
    P.bound                           # {component: [names]} components that some local is bound to exactly (by destructuring / projection)
    within(roots, comp)               # every root lies inside component `comp` (and there is at least one)

The environment is computed by one in-order traversal with block scoping, so a query answers for the binding that is live at the queried node.
Queries work on the node objects of the body that was traversed (identity), not on copies."""
import re
from lib.facts import is_node, walk

_COPY_METHODS = {"clone", "to_owned", "borrow", "borrow_mut", "as_ref", "as_mut", "deref", "deref_mut"}
_IDENT = re.compile(r"(?<![A-Za-z0-9_\"'.])[A-Za-z_][A-Za-z0-9_]*(?![A-Za-z0-9_]*\s*(?:!|::|\())")


def comp_str(c):
    return "arg%d%s" % (c[0], "".join("." + str(m) for m in c[1:]))


def within(roots, comp):
    roots = list(roots)
    return bool(roots) and all(r[:len(comp)] == comp for r in roots)


def split_top(text):
    """split macro argument text at top-level commas (outside strings, char literals and brackets)"""
    out, cur, depth, i, n = [], [], 0, 0, len(text)
    while i < n:
        ch = text[i]
        if ch == '"':
            j = i + 1
            while j < n and text[j] != '"':
                j += 2 if text[j] == "\\" else 1
            cur.append(text[i:j + 1])
            i = j + 1
            continue
        if ch == "'" and i + 2 < n and (text[i + 2] == "'" or (text[i + 1] == "\\" and i + 3 < n and text[i + 3] == "'")):
            j = i + (3 if text[i + 2] == "'" else 4)
            cur.append(text[i:j])
            i = j
            continue
        if ch in "([{":
            depth += 1
        elif ch in ")]}":
            depth -= 1
        if ch == "," and depth == 0:
            out.append("".join(cur).strip())
            cur = []
        else:
            cur.append(ch)
        i += 1
    if "".join(cur).strip():
        out.append("".join(cur).strip())
    return out


def text_idents(text):
    """identifiers used as values in a piece of token text (string literals, method / field names after `.`, macro and path heads are skipped)"""
    text = re.sub(r'"(?:\\.|[^"\\])*"', '""', text)
    return [m.group(0) for m in _IDENT.finditer(text) if m.group(0) not in ("if", "else", "match", "as", "mut", "ref", "true", "false", "let", "in", "for", "while", "return", "self")]


class Prov:
    def __init__(self, item=None, params=None, body=None):
        if item is not None:
            params = [p[0] for p in item["sig"]["inputs"] if isinstance(p, list)]
            body = item["body"]
        self.scopes = [{}]
        self.bound = {}
        self.locals = set()
        self._roots = {}      # id(path node) -> frozenset of components
        self._exact = {}      # id(path node) -> component or None
        self._macro = {}      # id(macro node) -> [(text, roots)]
        self._keep = []       # keep queried nodes alive (ids stay unique)
        for i, p in enumerate(params or []):
            self._bind(p, frozenset([(i,)]), (i,))
        self._block(body or [], new_scope=False)

    # ---- environment
    def _lookup(self, name):
        for sc in reversed(self.scopes):
            if name in sc:
                return sc[name]
        return None

    def _set(self, name, roots, exact):
        self.locals.add(name)
        self.scopes[-1][name] = (frozenset(roots), exact)
        if exact is not None:
            self.bound.setdefault(exact, []).append(name)

    def _bind(self, pat, roots, exact):
        """bind the names of a pattern to a value with the given roots; `exact` (a component or None) is projected through tuple patterns"""
        if not is_node(pat):
            return
        t = pat[0]
        if t == "pident":
            self._set(pat[1], roots, exact)
            if pat[4]:
                self._bind(pat[4], roots, exact)
        elif t == "ptype":
            self._bind(pat[1], roots, exact)
        elif t == "pref":
            self._bind(pat[2], roots, exact)
        elif t == "ptuple":
            for i, sub in enumerate(pat[1]):
                if is_node(sub) and sub[0] == "prest":
                    exact = None          # positions after `..` are unknown
                    continue
                ex = exact + (str(i),) if exact is not None else None
                self._bind(sub, frozenset([ex]) if ex is not None else roots, ex)
        elif t == "pstruct":
            for f in pat[2]:
                ex = exact + (str(f[0]),) if exact is not None else None
                self._bind(f[1], frozenset([ex]) if ex is not None else roots, ex)
        elif t == "pts":
            # Some(x) / Ok(x) / Enum::Variant(x): the payload is computed from the scrutinee, but is not a positional component of it
            for sub in pat[2]:
                self._bind(sub, roots, None)
        elif t in ("por", "pslice"):
            for sub in pat[1]:
                self._bind(sub, roots, None)

    # ---- traversal
    def _block(self, stmts, new_scope=True):
        if new_scope:
            self.scopes.append({})
        r = frozenset()
        for st in stmts:
            if not is_node(st):
                continue
            if st[0] == "let":
                init = st[2]
                if init is not None:
                    roots = self._expr(init)
                    ex = self._exact_of(init)
                    if len(st) > 3 and st[3] is not None:
                        self._expr(st[3])
                else:
                    roots, ex = frozenset(), None
                self._bind(st[1], roots, ex)
                r = frozenset()
            elif st[0] == "expr":
                r = self._expr(st[1])
        if new_scope:
            self.scopes.pop()
        return r

    def _exact_of(self, e):
        """component that `e` denotes, looking through references, derefs, copies and numbered / named member access"""
        while is_node(e):
            if e[0] == "ref" or (e[0] == "un" and e[1] == "*"):
                e = e[2]
            elif e[0] == "mcall" and e[2] in _COPY_METHODS and not e[4]:
                e = e[1]
            else:
                break
        if not is_node(e):
            return None
        if e[0] == "path":
            v = self._lookup(e[1])
            return v[1] if v else None
        if e[0] == "field":
            b = self._exact_of(e[1])
            return b + (str(e[2]),) if b is not None else None
        return None

    def _expr(self, e):
        """roots of e; annotates the path / macro nodes below e and binds the patterns met on the way"""
        if not is_node(e):
            if isinstance(e, list):
                r = frozenset()
                for x in e:
                    r |= self._expr(x)
                return r
            return frozenset()
        t = e[0]
        if t == "path":
            if not isinstance(e[1], str):
                return self._expr(e[1:])
            v = self._lookup(e[1])
            self._keep.append(e)
            self._roots[id(e)] = v[0] if v else frozenset()
            self._exact[id(e)] = v[1] if v else None
            return self._roots[id(e)]
        if t == "struct" and len(e) == 4 and isinstance(e[1], str):
            r = frozenset()
            for f in e[2]:
                r |= self._expr(f[1])
            return r | (self._expr(e[3]) if e[3] is not None else frozenset())
        if t == "field" and len(e) == 3:
            base = self._expr(e[1])
            ex = self._exact_of(e)
            return frozenset([ex]) if ex is not None else base
        if t == "macro":
            args = []
            r = frozenset()
            for a in split_top(e[2] or ""):
                ar = frozenset()
                for name in text_idents(a):
                    v = self._lookup(name)
                    if v:
                        ar |= v[0]
                args.append((a, ar))
                r |= ar
            self._keep.append(e)
            self._macro[id(e)] = args
            return r
        if t == "let":      # statement met outside a block list
            return self._block([e], new_scope=False)
        if t in ("block", "unsafe", "async", "loop"):
            return self._block(e[1])
        if t == "if":
            self.scopes.append({})            # `if let` bindings live in the then-branch
            r = self._expr(e[1])
            r2 = self._block(e[2])
            self.scopes.pop()
            r3 = self._expr(e[3]) if e[3] is not None else frozenset()
            return r2 | r3                    # data flow only: the condition is control dependence
        if t == "letc":
            r = self._expr(e[2])
            self._bind(e[1], r, self._exact_of(e[2]))
            return r
        if t == "match":
            r = self._expr(e[1])
            ex = self._exact_of(e[1])
            out = frozenset()
            for arm in e[2]:
                self.scopes.append({})
                self._bind(arm[0], r, ex)
                if arm[1] is not None:
                    self._expr(arm[1])
                out |= self._expr(arm[2])
                self.scopes.pop()
            return out
        if t == "for":
            r = self._expr(e[2])
            self.scopes.append({})
            self._bind(e[1], r, None)
            self._block(e[3])
            self.scopes.pop()
            return frozenset()
        if t == "while":
            self.scopes.append({})
            self._expr(e[1])
            self._block(e[2])
            self.scopes.pop()
            return frozenset()
        if t == "closure":
            self.scopes.append({})
            for p in e[1]:
                self._bind(p, getattr(self, "_closure_arg", frozenset()), None)
            r = self._expr(e[2])
            self.scopes.pop()
            return r
        if t == "mcall":
            r = self._expr(e[1])
            # a closure passed to a method of a value iterates / maps that value: its parameters are computed from the receiver
            old = getattr(self, "_closure_arg", frozenset())
            self._closure_arg = r
            for a in e[4]:
                r |= self._expr(a)
            self._closure_arg = old
            return r
        if t == "assign" or (t == "bin" and isinstance(e[1], str) and e[1].endswith("=") and e[1] not in ("==", "<=", ">=", "!=")):
            lhs, rhs = (e[1], e[2]) if t == "assign" else (e[2], e[3])
            r = self._expr(rhs)
            self._expr(lhs)
            base = lhs
            while is_node(base) and base[0] in ("field", "index", "un"):
                base = base[1] if base[0] != "un" else base[2]
            if is_node(base) and base[0] == "path":
                for sc in reversed(self.scopes):
                    if base[1] in sc:
                        old = sc[base[1]]
                        strong = t == "assign" and lhs is base
                        sc[base[1]] = (frozenset(r) if strong and len(self.scopes) == 1 else old[0] | r, None)
                        break
            return frozenset()
        r = frozenset()
        for x in e[1:]:
            if isinstance(x, list):
                r |= self._expr(x)
        return r

    # ---- queries (on nodes of the traversed body)
    def roots(self, e):
        r = frozenset()
        for n in walk(e):
            if n[0] == "path":
                r |= self._roots.get(id(n), frozenset())
            elif n[0] == "macro":
                for _, ar in self._macro.get(id(n), []):
                    r |= ar
        return r

    def exact(self, e):
        while is_node(e) and (e[0] == "ref" or (e[0] == "un" and e[1] == "*")):
            e = e[2]
        if not is_node(e):
            return None
        if e[0] == "path":
            return self._exact.get(id(e))
        if e[0] == "field":
            b = self.exact(e[1])
            return b + (str(e[2]),) if b is not None else None
        if e[0] == "mcall" and e[2] in _COPY_METHODS and not e[4]:
            return self.exact(e[1])
        return None

    def macro_args(self, m):
        return self._macro.get(id(m), [])

    def shape(self, e):
        """rendering of e with every local variable replaced by `_` (for report keys: identical under renaming of locals)"""
        from lib.facts import render

        def sub(n):
            if is_node(n):
                if n[0] == "path" and n[1] in self.locals:
                    return ["path", "_"]
                if n[0] == "macro":
                    return [n[0], n[1], "..", ".."]
                return [sub(x) for x in n]
            if isinstance(n, list):
                return [sub(x) for x in n]
            return n
        return render(sub(e))


def param_names(item, type_rx=None):
    """names bound by the parameters of a fn item, by position; with type_rx only the parameters whose type matches -> [(index, name)]"""
    out = []
    for i, p in enumerate(item["sig"]["inputs"]):
        if not isinstance(p, list):
            continue
        pat, ty = p[0], p[1]
        while is_node(pat) and pat[0] in ("ptype", "pref"):
            pat = pat[1] if pat[0] == "ptype" else pat[2]
        if is_node(pat) and pat[0] == "pident" and (type_rx is None or re.search(type_rx, ty or "")):
            out.append((i, pat[1]))
    return out
