"""Provenance of local variables of one function body, independent of how the locals are spelled.

A value is identified by the COMPONENT of a parameter it was computed from: a component is a tuple (param index, member, member, ...) where a
member is a tuple index ("0", "1", ...) or a field name - e.g. for `fn scientific(sci: &((Whole, Part), (Sign, Whole, Part)))` the exponent's
fractional digits are component (0, "1", "2") whatever the locals that carry them are called.

    P = Prov(item)                    # item: a syn `fn` / `method` item (sig.inputs + body)
    P.roots(expr)                     # set of components the value of `expr` is computed from (data flow only), evaluated in the scope where the
                                      # expression occurs (shadowing `let x = f(x)` is followed)
    P.exact(expr)                     # the component `expr` IS (a reference to / a copy of), or None
    P.macro_args(macro_node)          # [(text, roots)] for the comma-separated arguments after the format string of format_args!/format!/...
    P.bound                           # {component: [names]} components that some local is bound to exactly (by destructuring / projection)
    within(roots, comp)               # every root lies inside component `comp` (and there is at least one)

The environment is computed by one in-order traversal with block scoping, so a query answers for the binding that is live at the queried node.
Queries work on the node objects of the body that was traversed (identity), not on copies."""
import re
from lib.facts import is_node, walk

_MUTATORS = {"push", "push_str", "push_back", "push_front", "insert", "insert_str", "extend", "extend_from_slice", "append", "write_str", "write_char"}
_COPY_METHODS = {"clone", "to_owned", "borrow", "borrow_mut", "as_ref", "as_mut", "deref", "deref_mut"}
_IDENT = re.compile(r"(?<![A-Za-z0-9_\"'.])[A-Za-z_][A-Za-z0-9_]*(?![A-Za-z0-9_]*\s*(?:!|::|\())")


def comp_str(c):
    return "arg%d%s" % (c[0], "".join("." + str(m) for m in c[1:]))


def within(roots, comp):
    roots = list(roots)
    return bool(roots) and all(r[:len(comp)] == comp for r in roots)


def split_top(text):
    """split macro argument text at top-level commas (outside strings, char literals and brackets)"""
    out, cur, depth, i, n = [], [], 0, 0, len(text)
    while i < n:
        ch = text[i]
        if ch == '"':
            j = i + 1
            while j < n and text[j] != '"':
                j += 2 if text[j] == "\\" else 1
            cur.append(text[i:j + 1])
            i = j + 1
            continue
        if ch == "'" and i + 2 < n and (text[i + 2] == "'" or (text[i + 1] == "\\" and i + 3 < n and text[i + 3] == "'")):
            j = i + (3 if text[i + 2] == "'" else 4)
            cur.append(text[i:j])
            i = j
            continue
        if ch in "([{":
            depth += 1
        elif ch in ")]}":
            depth -= 1
        if ch == "," and depth == 0:
            out.append("".join(cur).strip())
            cur = []
        else:
            cur.append(ch)
        i += 1
    if "".join(cur).strip():
        out.append("".join(cur).strip())
    return out


def text_idents(text):
    """identifiers used as values in a piece of token text (string literals, method / field names after `.`, macro and path heads are skipped)"""
    text = re.sub(r'"(?:\\.|[^"\\])*"', '""', text)
    return [m.group(0) for m in _IDENT.finditer(text) if m.group(0) not in ("if", "else", "match", "as", "mut", "ref", "true", "false", "let", "in", "for", "while", "return", "self")]


class Prov:
    def __init__(self, item=None, params=None, body=None):
        if item is not None:
            params = [p[0] for p in item["sig"]["inputs"] if isinstance(p, list)]
            body = item["body"]
        self.scopes = [{}]
        self.bound = {}
        self.locals = set()
        self._roots = {}      # id(path node) -> frozenset of components
        self._exact = {}      # id(path node) -> component or None
        self._macro = {}      # id(macro node) -> [(text, roots)]
        self._keep = []       # keep queried nodes alive (ids stay unique)
        self._init = {}       # id(path node) -> initialiser expression of the (never re-assigned) binding the path refers to, or None
        self._pid = {}        # id(path node) -> the `pident` pattern node that introduced the binding the path refers to
        self._macro_env = {}  # id(macro node) -> [{identifier: (roots, exact, init, pident)}] per argument
        self.consts = {}      # name -> value expression of `const` items (set by the caller: P.consts = const_items(...))
        self._mutated = _assigned_names(body or [])
        for i, p in enumerate(params or []):
            self._bind(p, frozenset([(i,)]), (i,))
        self._block(body or [], new_scope=False)

    # ---- environment
    def _lookup(self, name):
        for sc in reversed(self.scopes):
            if name in sc:
                return sc[name]
        return None

    def _set(self, name, roots, exact, init=None, pident=None):
        self.locals.add(name)
        self.scopes[-1][name] = (frozenset(roots), exact, None if name in self._mutated else init, pident)
        if exact is not None:
            self.bound.setdefault(exact, []).append(name)

    def _bind(self, pat, roots, exact, init=None):
        """bind the names of a pattern to a value with the given roots; `exact` (a component or None) is projected through tuple patterns;
        `init` is the expression the WHOLE pattern is bound to (kept only for a plain identifier pattern: `let x = init`)"""
        if not is_node(pat):
            return
        t = pat[0]
        if t == "pident":
            self._set(pat[1], roots, exact, init, pat)
            if pat[4]:
                self._bind(pat[4], roots, exact)
        elif t == "ptype":
            self._bind(pat[1], roots, exact, init)
        elif t == "pref":
            self._bind(pat[2], roots, exact)
        elif t == "ptuple":
            tup = init
            while is_node(tup) and tup[0] == "paren":
                tup = tup[1]
            if exact is None and is_node(tup) and tup[0] == "tuple" and len(tup[1]) == len(pat[1]) and not any(is_node(x) and x[0] == "prest" for x in pat[1]):
                # `match (a, b) { (p, q) => .. }` / `let (p, q) = (a, b);`: each sub-pattern is bound to its own element, not to the union
                for sub, el in zip(pat[1], tup[1]):
                    self._bind(sub, self.roots(el), self._exact_of(el), el)
                return
            for i, sub in enumerate(pat[1]):
                if is_node(sub) and sub[0] == "prest":
                    exact = None          # positions after `..` are unknown
                    continue
                ex = exact + (str(i),) if exact is not None else None
                self._bind(sub, frozenset([ex]) if ex is not None else roots, ex)
        elif t == "pstruct":
            for f in pat[2]:
                ex = exact + (str(f[0]),) if exact is not None else None
                self._bind(f[1], frozenset([ex]) if ex is not None else roots, ex)
        elif t == "pts":
            # Some(x) / Ok(x) / Enum::Variant(x): the payload is computed from the scrutinee, but is not a positional component of it
            for sub in pat[2]:
                self._bind(sub, roots, None)
        elif t in ("por", "pslice"):
            for sub in pat[1]:
                self._bind(sub, roots, None)

    # ---- traversal
    def _block(self, stmts, new_scope=True):
        if new_scope:
            self.scopes.append({})
        r = frozenset()
        for st in stmts:
            if not is_node(st):
                continue
            if st[0] == "let":
                init = st[2]
                if init is not None:
                    roots = self._expr(init)
                    ex = self._exact_of(init)
                    if len(st) > 3 and st[3] is not None:
                        self._expr(st[3])
                else:
                    roots, ex = frozenset(), None
                self._bind(st[1], roots, ex, init)
                r = frozenset()
            elif st[0] == "expr":
                r = self._expr(st[1])
        if new_scope:
            self.scopes.pop()
        return r

    def _exact_of(self, e):
        """component that `e` denotes, looking through references, derefs, copies and numbered / named member access"""
        while is_node(e):
            if e[0] == "ref" or (e[0] == "un" and e[1] == "*"):
                e = e[2]
            elif e[0] == "mcall" and e[2] in _COPY_METHODS and not e[4]:
                e = e[1]
            else:
                break
        if not is_node(e):
            return None
        if e[0] == "path":
            v = self._lookup(e[1])
            return v[1] if v else None
        if e[0] == "field":
            b = self._exact_of(e[1])
            return b + (str(e[2]),) if b is not None else None
        return None

    def _expr(self, e):
        """roots of e; annotates the path / macro nodes below e and binds the patterns met on the way"""
        if not is_node(e):
            if isinstance(e, list):
                r = frozenset()
                for x in e:
                    r |= self._expr(x)
                return r
            return frozenset()
        t = e[0]
        if t == "path":
            if not isinstance(e[1], str):
                return self._expr(e[1:])
            v = self._lookup(e[1])
            self._keep.append(e)
            self._roots[id(e)] = v[0] if v else frozenset()
            self._exact[id(e)] = v[1] if v else None
            self._init[id(e)] = v[2] if v else None
            self._pid[id(e)] = v[3] if v else None
            return self._roots[id(e)]
        if t == "struct" and len(e) == 4 and isinstance(e[1], str):
            r = frozenset()
            for f in e[2]:
                r |= self._expr(f[1])
            return r | (self._expr(e[3]) if e[3] is not None else frozenset())
        if t == "field" and len(e) == 3:
            base = self._expr(e[1])
            ex = self._exact_of(e)
            return frozenset([ex]) if ex is not None else base
        if t == "macro":
            args = []
            r = frozenset()
            envs = []
            for a in split_top(e[2] or ""):
                ar = frozenset()
                env = {}
                for name in text_idents(a):
                    v = self._lookup(name)
                    if v:
                        ar |= v[0]
                        env[name] = v
                args.append((a, ar))
                envs.append(env)
                r |= ar
            self._keep.append(e)
            self._macro[id(e)] = args
            self._macro_env[id(e)] = envs
            return r
        if t == "let":      # statement met outside a block list
            return self._block([e], new_scope=False)
        if t in ("block", "unsafe", "async", "loop"):
            return self._block(e[1])
        if t == "if":
            self.scopes.append({})            # `if let` bindings live in the then-branch
            r = self._expr(e[1])
            r2 = self._block(e[2])
            self.scopes.pop()
            r3 = self._expr(e[3]) if e[3] is not None else frozenset()
            return r2 | r3                    # data flow only: the condition is control dependence
        if t == "letc":
            r = self._expr(e[2])
            self._bind(e[1], r, self._exact_of(e[2]), e[2])
            return r
        if t == "match":
            r = self._expr(e[1])
            ex = self._exact_of(e[1])
            out = frozenset()
            for arm in e[2]:
                self.scopes.append({})
                self._bind(arm[0], r, ex, e[1])
                if arm[1] is not None:
                    self._expr(arm[1])
                out |= self._expr(arm[2])
                self.scopes.pop()
            return out
        if t == "for":
            r = self._expr(e[2])
            self.scopes.append({})
            self._bind(e[1], r, None)
            self._block(e[3])
            self.scopes.pop()
            return frozenset()
        if t == "while":
            self.scopes.append({})
            self._expr(e[1])
            self._block(e[2])
            self.scopes.pop()
            return frozenset()
        if t == "closure":
            self.scopes.append({})
            for p in e[1]:
                self._bind(p, getattr(self, "_closure_arg", frozenset()), None)
            r = self._expr(e[2])
            self.scopes.pop()
            return r
        if t == "mcall":
            r = self._expr(e[1])
            # a closure passed to a method of a value iterates / maps that value: its parameters are computed from the receiver
            old = getattr(self, "_closure_arg", frozenset())
            self._closure_arg = r
            ar = frozenset()
            for a in e[4]:
                ar |= self._expr(a)
            r |= ar
            self._closure_arg = old
            # `buf.push(x)`, `buf.push_str(s)`, `v.extend(it)` ...: the receiver local now also holds what the arguments were computed from
            recv = e[1]
            while is_node(recv) and (recv[0] == "paren" or recv[0] == "ref" or (recv[0] == "un" and recv[1] == "*")):
                recv = recv[1] if recv[0] == "paren" else recv[2]
            if e[2] in _MUTATORS and ar and is_node(recv) and recv[0] == "path" and isinstance(recv[1], str):
                for sc in reversed(self.scopes):
                    if recv[1] in sc:
                        o = sc[recv[1]]
                        sc[recv[1]] = (o[0] | ar, o[1], None, o[3] if len(o) > 3 else None)
                        break
            return r
        if t == "assign" or (t == "bin" and isinstance(e[1], str) and e[1].endswith("=") and e[1] not in ("==", "<=", ">=", "!=")):
            lhs, rhs = (e[1], e[2]) if t == "assign" else (e[2], e[3])
            r = self._expr(rhs)
            self._expr(lhs)
            base = lhs
            while is_node(base) and base[0] in ("field", "index", "un"):
                base = base[1] if base[0] != "un" else base[2]
            if is_node(base) and base[0] == "path":
                for sc in reversed(self.scopes):
                    if base[1] in sc:
                        old = sc[base[1]]
                        strong = t == "assign" and lhs is base
                        sc[base[1]] = (frozenset(r) if strong and len(self.scopes) == 1 else old[0] | r, None, None, old[3] if len(old) > 3 else None)
                        break
            return frozenset()
        r = frozenset()
        for x in e[1:]:
            if isinstance(x, list):
                r |= self._expr(x)
        return r

    # ---- queries (on nodes of the traversed body)
    def roots(self, e):
        r = frozenset()
        st = [e]
        while st:
            n = st.pop()
            if not isinstance(n, list):
                if isinstance(n, dict):
                    st.extend(v for v in n.values() if isinstance(v, (list, dict)))
                continue
            if is_node(n):
                if n[0] == "path":
                    r |= self._roots.get(id(n), frozenset())
                elif n[0] == "macro":
                    for _, ar in self._macro.get(id(n), []):
                        r |= ar
                elif n[0] == "field" and len(n) == 3:
                    ex = self.exact(n)
                    if ex is not None:      # a member of a parameter reached by member access is that component, not the whole parameter
                        r |= frozenset([ex])
                        continue
            st.extend(x for x in n if isinstance(x, (list, dict)))
        return r

    def exact(self, e):
        while is_node(e) and (e[0] == "ref" or (e[0] == "un" and e[1] == "*")):
            e = e[2]
        if not is_node(e):
            return None
        if e[0] == "path":
            return self._exact.get(id(e))
        if e[0] == "field":
            b = self.exact(e[1])
            return b + (str(e[2]),) if b is not None else None
        if e[0] == "mcall" and e[2] in _COPY_METHODS and not e[4]:
            return self.exact(e[1])
        return None

    def macro_args(self, m):
        return self._macro.get(id(m), [])

    # ---- following a value through named locals / constants (all on nodes of the traversed body)
    def init(self, e):
        """the initialiser expression of the local that the path node `e` refers to (`let x = <init>`; None for parameters, pattern components
        and locals that are assigned to anywhere in the body)"""
        return self._init.get(id(e)) if is_node(e) and e[0] == "path" else None

    def origin(self, e, depth=12):
        """the `pident` pattern node of the binding a path ultimately denotes, looking through `let y = x;` / `let y = &x;` / `x.clone()` chains
        (identity of a binding, independent of its spelling and of helper parameters a value was handed through)"""
        e = _peel(e)
        while depth > 0 and is_node(e) and e[0] == "path":
            depth -= 1
            i = _peel(self._init.get(id(e)))
            if is_node(i) and i[0] == "path" and id(i) in self._pid and self._pid[id(i)] is not None:
                e = i
                continue
            break
        return self._pid.get(id(e)) if is_node(e) and e[0] == "path" else None

    def resolve(self, e, depth=12):
        """`e` with named locals / constants looked through: the expression that computes the value (`radix` -> `16` after `let radix = RADIX_HEX;`
        with `const RADIX_HEX: u32 = 16`); stops at parameters, pattern components and anything that is not a plain name"""
        while depth > 0:
            depth -= 1
            e = _peel(e)
            if not (is_node(e) and e[0] == "path" and isinstance(e[1], str)):
                break
            i = self._init.get(id(e))
            if i is not None:
                e = i
                continue
            if self._pid.get(id(e)) is None and e[1].split("::")[-1] in self.consts and e[1].split("::")[-1] not in self.locals:
                e = self.consts[e[1].split("::")[-1]]
                continue
            break
        return e

    def sel_roots(self, e, depth=8):
        """components that influence the value of `e`: its data roots plus, through the initialisers of the locals it mentions, the roots of the
        conditions that select among alternatives (`let s = if neg { "-" } else { "" }` is influenced by what `neg` is computed from)"""
        r = set(self.roots(e))
        if depth <= 0:
            return frozenset(r)
        for n in walk(e):
            if n[0] == "path":
                i = self._init.get(id(n))
                if i is not None:
                    r |= self.sel_roots(i, depth - 1)
            elif n[0] == "macro":
                for env in self._macro_env.get(id(n), []):
                    for v in env.values():
                        if v[2] is not None:
                            r |= self.sel_roots(v[2], depth - 1)
        return frozenset(r)

    def macro_sel_roots(self, m):
        """[influencing components of argument i] for the arguments of a format-like macro (see sel_roots)"""
        out = []
        for (text, roots), env in zip(self._macro.get(id(m), []), self._macro_env.get(id(m), [])):
            r = set(roots)
            for v in env.values():
                if v[2] is not None:
                    r |= self.sel_roots(v[2])
            out.append(frozenset(r))
        return out

    def used_components(self, body):
        """components of the parameters that the body refers to exactly: bound to a local of their own or reached by member access"""
        out = set(self.bound)
        for n in walk(body):
            if n[0] in ("field", "path"):
                c = self.exact(n)
                if c is not None:
                    out.add(c)
        return out

    def shape(self, e):
        """rendering of e with every local variable replaced by `_` (for report keys: identical under renaming of locals)"""
        from lib.facts import render

        def sub(n):
            if is_node(n):
                if n[0] == "path" and n[1] in self.locals:
                    return ["path", "_"]
                if n[0] == "macro":
                    return [n[0], n[1], "..", ".."]
                if n[0] == "pident":
                    return ["pident", "_"] + [sub(x) for x in n[2:]]
                if n[0] == "block" and len(n) > 2 and isinstance(n[2], str) and n[2].startswith("inlined:") and n[1] and is_node(n[1][-1]) and n[1][-1][0] == "expr":
                    return sub(n[1][-1][1])         # the body of an inlined helper: its value (the key does not depend on where the code was moved to)
                return [sub(x) for x in n]
            if isinstance(n, list):
                return [sub(x) for x in n]
            return n
        return render(sub(e))


def _peel(e):
    """strip parentheses, references, dereferences and copying method calls"""
    while is_node(e):
        if e[0] == "paren":
            e = e[1]
        elif e[0] == "ref" or (e[0] == "un" and e[1] == "*"):
            e = e[2]
        elif e[0] == "mcall" and e[2] in _COPY_METHODS and not e[4]:
            e = e[1]
        elif e[0] == "block" and len(e[1]) == 1 and is_node(e[1][0]) and e[1][0][0] == "expr":
            e = e[1][0][1]
        else:
            break
    return e


def _assigned_names(body):
    """names of locals that are the target of an assignment / compound assignment anywhere in the body (their initialiser is not their value)"""
    out = set()
    for n in walk(body):
        lhs = None
        if n[0] == "assign":
            lhs = n[1]
        elif n[0] == "bin" and isinstance(n[1], str) and n[1].endswith("=") and n[1] not in ("==", "<=", ">=", "!="):
            lhs = n[2]
        elif n[0] == "ref" and n[1]:          # `&mut x`: may be written through
            lhs = n[2]
        while is_node(lhs) and lhs[0] in ("field", "index", "un"):
            lhs = lhs[1] if lhs[0] != "un" else lhs[2]
        if is_node(lhs) and lhs[0] == "path" and isinstance(lhs[1], str):
            out.add(lhs[1])
    return out


def const_items(items, mod_suffix=None):
    """{name: value expression} of the `const` items of a crate's syn facts (of the modules whose path ends with mod_suffix)"""
    out = {}
    for it in items:
        if it.get("k") == "const" and it.get("val") is not None and (mod_suffix is None or (it.get("mod") or "").endswith(mod_suffix)):
            out.setdefault(it["name"], it["val"])
    return out


def param_names(item, type_rx=None):
    """names bound by the parameters of a fn item, by position; with type_rx only the parameters whose type matches -> [(index, name)]"""
    out = []
    for i, p in enumerate(item["sig"]["inputs"]):
        if not isinstance(p, list):
            continue
        pat, ty = p[0], p[1]
        while is_node(pat) and pat[0] in ("ptype", "pref"):
            pat = pat[1] if pat[0] == "ptype" else pat[2]
        if is_node(pat) and pat[0] == "pident" and (type_rx is None or re.search(type_rx, ty or "")):
            out.append((i, pat[1]))
    return out
